"""C18 — the serial-port interface is a transparent, non-blocking byte pipe.

Two ties to the real code:
 (a) correspondence with the Lean pipe model: the REAL `SerialDevice` (constructed through its own
     `__init__`, with the name `serial` inside `nxslib.intf.serial` rebound to a stand-in exposing a fake
     `Serial` class) over a fake port with explicit OS steps and error injection; random op histories
     (`pipe run`) and receive-path sessions with a scheduled OS chunking (`pipe sess`);
 (b) measurements on a REAL pseudo-terminal opened by the real `SerialDevice` through pyserial, with real
     threads and real time (`pty …` lines, run from `extra_checks`; each line is also what a replay
     re-executes): every byte value in both directions, bursts under varying writer pacing, padding,
     timed idle reads, and a full `CommHandler` session against the reference device compared with the
     same session over an in-memory link (also with device frames of 4097..60006 bytes written in paced pieces);
     `pty cfg`: how the real constructor opens the port — the arguments it hands to pyserial (judged against
     pyserial's own signature), and, on the pty, the settings read back from the pyserial object and from
     `termios.tcgetattr` of the slave side: 8 data bits, no parity, one stop bit, no XON/XOFF, RTS/CTS, DSR/DTR, raw mode
     (a pty passes 0x80..0xff under 7 data bits and ignores CRTSCTS, so the byte measurements cannot see these);
     `pty txsweep`: write padding that is not a power of two; `pty txp`: client writes while the other end drains
     slowly (a write that cannot finish within the port's write timeout must raise, never lose bytes silently);
     `pty echo`: full duplex — the other end echoes what it receives and blocks on its own transmit side, one thread polls
     `read()` while another writes one burst larger than both tty queues (all bytes out and echoed back unchanged; no `read()`
     call waits); `pty restart-burst`: bursts larger than the tty queue before and after a `stop(); start()` cycle of the
     interface (a write that returns without exception has delivered every byte).
If no pseudo-terminal can be opened the check still runs (a), the Lean side and the pyserial-argument part of
`pty cfg`; the evidence then says `coverage.pty_available = false` and nothing is measured on a tty.

Real time.  Part (b) runs real threads against real time-outs (the port's 1 s read / write timeouts, nxslib's 1 s reply and
`stream_data` time-outs).  A busy machine must never look like a broken port: every experiment runs under `LatencyMonitor`;
a verdict that rests on time (`depends_on_time`) counts only when nothing that was timed during the run — the monitor thread's
5 ms sleeps, each paced sleep of a helper thread, all paced sleeps of one burst together — was later than LATE_LIMIT = 0.25 s;
otherwise the run is repeated (pauses 0.5 / 1.5 / 3 s) and after four invalid runs the experiment is discarded and listed in
`coverage.pty.discarded_for_timing`, not reported (`pty_case`).  Verdicts about the bytes themselves (altered, reordered,
missing although every write returned and the line was found empty; settings read back) never depend on the clock and are
never discarded; the sessions carry such a verdict of their own (`pty-session-bytes-altered`: all reads against all bytes sent,
all bytes arrived against all writes).

Errors.  The property sentence does not mention them.  The `e` / `E` ops of (a) inject a `serial.SerialException` into
`Serial.read` / `Serial.in_waiting` and exercise exactly the `except serial.SerialException` branch of `SerialDevice._read`
(model op `readError`).  With pyserial 3.5 on posix only `Serial.read` raises such an exception; `in_waiting` raises
`OSError(EIO)` after a hang-up of the other end of a tty and `TypeError` on a closed port, which `_read` does not catch —
`pty_hangup_probe` records that on every run (`coverage.pty.hangup_probe`), it is not judged.
"""
import hashlib
import os
import random
import re
import select
import struct
import threading
import time
import types

from common import Prop, hexs, unhex, exc_name
import refdev
from props.C03 import ref_scan, fstr, gen_stream

CTRL = [0x00, 0x03, 0x04, 0x08, 0x0a, 0x0d, 0x11, 0x13, 0x15, 0x1a, 0x1b, 0x1c, 0x55, 0x7f, 0x80, 0x8d, 0xfe, 0xff]
READ_LIMIT = 200000


# =============================================================================================
# (a) the fake port
# =============================================================================================

class FakeSerial:
    """stand-in for `serial.Serial`: a FIFO link whose OS steps are explicit"""

    def __init__(self, *args, **kw):
        self.args = args
        self.kw = kw
        self.timeout = kw.get("timeout")
        self.write_timeout = kw.get("write_timeout")
        self.rx_flight = bytearray()
        self.rx_wait = bytearray()
        self.tx_flight = bytearray()
        self.tx_wait = bytearray()
        self.err_read = False
        self.err_inw = False
        self.blocked = False        # a read asked for more than was waiting: pyserial waits for the timeout
        self.idle_blocked = False   # … and nothing at all was waiting
        self.handed = bytearray()   # every byte returned by read()
        self.nreads = 0
        self.on_inw = None          # hook: OS delivery schedule
        self.is_open = True

    @property
    def in_waiting(self):
        import serial
        if self.on_inw:
            self.on_inw()
        if self.err_inw:
            self.err_inw = False
            # a SerialException subclass: exercises the handler of `_read` through the `in_waiting` half of the expression.
            # pyserial 3.5 posix never raises one here (it raises OSError / TypeError, see pty_hangup_probe); its win32
            # backend does (`SerialException("ClearCommError failed")`)
            raise serial.PortNotOpenError()
        return len(self.rx_wait)

    def read(self, size=1):
        import serial
        self.nreads += 1
        if self.nreads > READ_LIMIT:
            raise RuntimeError("runaway reads")
        if self.err_read:
            self.err_read = False
            raise serial.SerialException("read failed: device reports readiness to read but returned no data")
        if size > len(self.rx_wait):
            self.blocked = True
            if not self.rx_wait:
                self.idle_blocked = True
        out = bytes(self.rx_wait[:size])
        del self.rx_wait[:size]
        self.handed += out
        return out

    def write(self, data):
        data = bytes(data)
        self.tx_flight += data
        return len(data)

    def close(self):
        self.is_open = False

    # OS steps
    def deliver_rx(self, k):
        self.rx_wait += self.rx_flight[:k]
        del self.rx_flight[:k]

    def deliver_tx(self, k):
        self.tx_wait += self.tx_flight[:k]
        del self.tx_flight[:k]


def make_dev(pad=0):
    """the real SerialDevice, built by its own constructor, over a FakeSerial"""
    import nxslib.intf.serial as ns
    real = ns.serial
    ns.serial = types.SimpleNamespace(Serial=FakeSerial, SerialException=real.SerialException)
    try:
        dev = ns.SerialDevice("/dev/fake-port", 115200)
    finally:
        ns.serial = real
    assert isinstance(dev._ser, FakeSerial)
    dev.write_padding = pad
    return dev, dev._ser


def run_history(pad, ops):
    """execute a history on the real SerialDevice; returns (items, port, dev, records)"""
    dev, port = make_dev(pad)
    items = []
    rec = []   # (op, idle?, result bytes | exception name, blocked?, idle_blocked?)
    for op in ops:
        k, _, a = op.partition(":")
        port.blocked = port.idle_blocked = False
        if k == "w":
            try:
                dev.write(unhex(a))
                items.append(".")
            except Exception as e:
                items.append("x=" + exc_name(e))
        elif k == "p":
            dev.write_padding = int(a)
            items.append(".")
        elif k in ("r", "e", "E"):
            idle = len(port.rx_wait) == 0
            if k == "e":
                port.err_read = True
            if k == "E":
                port.err_inw = True
            try:
                r = dev.read()
                items.append(("r!=" if port.blocked else "r=") + hexs(r))
                rec.append((k, idle, bytes(r), port.blocked, port.idle_blocked))
            except Exception as e:
                items.append("x=" + exc_name(e))
                rec.append((k, idle, exc_name(e), port.blocked, port.idle_blocked))
            port.err_read = port.err_inw = False
        elif k == "D":
            n0 = len(port.handed)
            try:
                dev.drop_all()
                items.append(("d!=" if port.blocked else "d=") + hexs(bytes(port.handed[n0:])))
            except Exception as e:
                items.append("x=" + exc_name(e))
        elif k == "s":
            port.rx_flight += unhex(a)
            items.append(".")
        elif k == "o":
            port.deliver_rx(int(a))
            items.append(".")
        elif k == "t":
            port.deliver_tx(int(a))
            items.append(".")
        elif k == "g":
            items.append("g=" + hexs(bytes(port.tx_wait)))
            port.tx_wait.clear()
        else:
            raise ValueError(op)
    return items, port, dev, rec


def run_sess(ks, data):
    """the real CommHandler receive path over the real SerialDevice over the fake port; before every read
    the OS delivers the next scheduled amount, afterwards everything"""
    from nxslib.comm import CommHandler
    from nxslib.proto.parse import Parser
    dev, port = make_dev(0)
    port.rx_flight += data
    sched = list(ks)

    def os_step():
        port.deliver_rx(sched.pop(0) if sched else len(port.rx_flight))
    port.on_inw = os_step
    comm = CommHandler(dev, Parser())
    comm._dev = object()
    frames = []
    for _ in range(100000):
        before = comm._prev_read
        pending = bool(sched) or bool(port.rx_flight) or bool(port.rx_wait)
        comm._recv_thread()
        got = False
        for q in (comm._q, comm._q_stream):
            while not q.empty():
                f = q.get_nowait()
                frames.append((int(f.fid), bytes(f.data)))
                got = True
        if not got and not pending and not port.rx_flight and not port.rx_wait and comm._prev_read == before:
            break
    else:
        raise RuntimeError("receive body did not become quiescent")
    comm._dev = None
    return frames, port


def pad_expected(p, d):
    """the property's own statement of padding: zeros up to the next multiple of p"""
    if p > 0 and len(d) % p:
        return d + bytes(p - len(d) % p)
    return d


# =============================================================================================
# scheduling-latency monitor for the real-time experiments
# =============================================================================================

LATE_LIMIT = 0.25            # seconds; nxslib's own reply / stream time-outs are 1 s, the port's write timeout is 1 s
RETRY_PAUSES = (0.5, 1.5, 3.0)


class LatencyMonitor:
    """Was the machine fast enough for what a real-time experiment concluded?  A thread sleeps `period` (a timed wait) in a loop and records
    by how much every sleep overran (`tick`); the helper threads of the experiments (paced writers / readers, the device
    pump of the sessions) report by how much each of THEIR paced sleeps overran (`sleep`) and the sum of these over one
    paced burst, e.g. one long frame written in 40 pieces (`burst`).  `worst()` is the largest of the three: the longest
    time something that should have happened at a given moment happened late.  Pure scheduler measurements: time spent
    blocked in a system call on the port is not included (that may be the code under test)."""

    def __init__(self, period=0.005):
        self.period = period
        self.max = {"tick": 0.0, "sleep": 0.0, "burst": 0.0}
        self.ticks = 0
        self.late_sum = 0.0
        self._stop = threading.Event()
        self._last = None
        self._th = None
        self._lock = threading.Lock()

    def _loop(self):
        while not self._stop.is_set():
            t = time.perf_counter()
            if self._stop.wait(self.period):
                return
            now = time.perf_counter()
            late = max(0.0, now - t - self.period)
            self._last = now
            self.ticks += 1
            self.late_sum += late
            if late > self.max["tick"]:
                self.max["tick"] = late

    def __enter__(self):
        self.t0 = self._last = time.perf_counter()
        self._th = threading.Thread(target=self._loop, daemon=True)
        self._th.start()
        return self

    def __exit__(self, *a):
        now = time.perf_counter()
        # a monitor thread that has not come back from its sleep yet was itself kept waiting
        self.max["tick"] = max(self.max["tick"], now - self._last - self.period)
        self.wall = now - self.t0
        self._stop.set()
        self._th.join(1.0)
        return False

    def note(self, kind, late):
        with self._lock:
            if late > self.max[kind]:
                self.max[kind] = late

    def worst(self):
        return max(self.max.values())

    def report(self):
        return {"max_lateness_s": round(self.worst(), 4), "monitor_thread_max_oversleep_s": round(self.max["tick"], 4),
                "helper_thread_max_oversleep_s": round(self.max["sleep"], 4),
                "helper_thread_max_lateness_over_one_paced_burst_s": round(self.max["burst"], 4),
                "monitor_ticks": self.ticks, "monitor_mean_oversleep_s": round(self.late_sum / max(1, self.ticks), 5),
                "limit_s": LATE_LIMIT}


_MON = [None]       # the monitor of the experiment that is running (experiments run one at a time)


def paced_sleep(dt):
    """time.sleep(dt) of a helper thread; the overrun goes to the monitor.  Returns the overrun."""
    t = time.perf_counter()
    time.sleep(dt)
    late = max(0.0, time.perf_counter() - t - dt)
    m = _MON[0]
    if m is not None:
        m.note("sleep", late)
    return late


def note_burst(late):
    m = _MON[0]
    if m is not None:
        m.note("burst", late)


def timed(v):
    """mark a verdict that rests on real time (a deadline, a time-out of the code under test, a measured duration)"""
    v["depends_on_time"] = True
    return v


# =============================================================================================
# (b) the real pseudo-terminal
# =============================================================================================

class PtyPort:
    """a pseudo-terminal; the slave side is opened by the real SerialDevice through pyserial"""

    def __init__(self):
        import pty
        self.master, self.slave = pty.openpty()
        self.name = os.ttyname(self.slave)
        from nxslib.intf.serial import SerialDevice
        try:
            self.dev = SerialDevice(self.name)
        except BaseException:
            os.close(self.master)
            os.close(self.slave)
            raise
        self.timeout = self.dev._ser.timeout

    def close(self):
        try:
            if self.dev._ser:
                self.dev._ser.close()
        finally:
            for fd in (self.master, self.slave):
                try:
                    os.close(fd)
                except OSError:
                    pass

    def master_read(self, n, deadline, linger=0.02):
        """read exactly n bytes (or what arrives until the deadline) from the master side"""
        out = bytearray()
        while len(out) < n and time.time() < deadline:
            r, _, _ = select.select([self.master], [], [], 0.02)
            if r:
                out += os.read(self.master, 65536)
        # a little longer: nothing more must follow
        r, _, _ = select.select([self.master], [], [], linger)
        if r:
            out += os.read(self.master, 65536)
        return bytes(out)

    def master_drain(self, n, done, hard_deadline, quiet=0.3):
        """read from the master side until n bytes arrived, or until the writer has finished (`done` set) and the line then
        stayed empty for `quiet` seconds over at least 6 polls that each actually ran and found nothing — a verdict about
        what is in the line, not about how fast this thread was scheduled (the quiet time grows with the lateness the
        monitor has seen).  Returns (bytes, why it stopped: 'complete' | 'line-empty-after-writer-finished' | 'deadline')"""
        out = bytearray()
        empty_since = None
        empties = 0
        while time.time() < hard_deadline:
            r, _, _ = select.select([self.master], [], [], 0.02)
            if r:
                out += os.read(self.master, 65536)
                empty_since = None
                empties = 0
                if len(out) >= n:
                    # a little longer: nothing more must follow
                    r, _, _ = select.select([self.master], [], [], 0.02)
                    if r:
                        out += os.read(self.master, 65536)
                    return bytes(out), "complete"
                continue
            if done.is_set():
                now = time.perf_counter()
                if empty_since is None:
                    empty_since = now
                    empties = 0
                empties += 1
                m = _MON[0]
                need = quiet + (4 * m.worst() if m is not None else 0.0)
                if empties >= 6 and now - empty_since >= min(need, 5.0):
                    return bytes(out), "line-empty-after-writer-finished"
        return bytes(out), "deadline"

    def client_read(self, n, deadline, stats=None, idle_limit=0.5):
        """dev.read() until n bytes arrived (or the deadline); every single read is timed"""
        out = bytearray()
        slow = None
        while len(out) < n and time.time() < deadline:
            t = time.perf_counter()
            c = self.dev.read()
            dt = time.perf_counter() - t
            if dt > idle_limit:
                # a read that waits: a second one confirms it (a single slow call can be the scheduler's doing),
                # then it is reported at once instead of crawling on
                if slow is not None:
                    out += c
                    return bytes(out), max(slow, dt)
                slow = dt
            if stats is not None:
                stats["reads"] = stats.get("reads", 0) + 1
                stats["max_read_s"] = max(stats.get("max_read_s", 0.0), dt)
                if c:
                    stats.setdefault("chunks", []).append(len(c))
            if c:
                out += c
            else:
                time.sleep(0.0002)
        for _ in range(3):
            out += self.dev.read()
        return bytes(out), None


def payload(seed, n):
    """burst content: a third control characters, the rest uniform"""
    r = random.Random(f"C18-payload:{seed}:{n}")
    return bytes(r.choice(CTRL) if r.random() < 0.33 else r.randrange(256) for _ in range(n))


def first_diff(a, b):
    for i, (x, y) in enumerate(zip(a, b)):
        if x != y:
            return i
    return min(len(a), len(b))


def diff_report(sent, got):
    i = first_diff(sent, got)
    return {"sent_len": len(sent), "got_len": len(got), "first_difference_at": i,
            "sent_there": hexs(sent[max(0, i - 4):i + 8]), "got_there": hexs(got[max(0, i - 4):i + 8]),
            "sent_sha1": hashlib.sha1(sent).hexdigest(), "got_sha1": hashlib.sha1(got).hexdigest()}


def pty_rx(seed, size, pace_ms, stats=None):
    """other end → client: a helper thread writes the burst to the master side in pieces, pausing pace_ms
    between pieces; the client polls SerialDevice.read()"""
    data = payload(seed, size)
    p = PtyPort()
    try:
        r = random.Random(f"C18-rx:{seed}:{size}:{pace_ms}")
        wrote = threading.Event()

        def writer():
            i = 0
            late = 0.0
            try:
                while i < len(data):
                    k = r.choice([1, 2, 3, 16, 64, 255, 256, 1024, r.randrange(1, 2048)])
                    i += os.write(p.master, data[i:i + k])
                    if pace_ms:
                        late += paced_sleep(r.uniform(0, pace_ms) / 1000.0)
                wrote.set()
            except OSError:
                pass    # the experiment was abandoned and the pty closed
            note_burst(late)
        th = threading.Thread(target=writer, daemon=True)
        th.start()
        got, slow = p.client_read(len(data), time.time() + 10 + size * pace_ms / 1000.0, stats)
        if slow is not None:
            return timed({"key": "pty-read-blocks", "what": f"a read took {slow:.2f} s while a burst of {size} bytes was arriving",
                          "expected": "< 0.5 s", "observed": f"{slow:.2f} s"})
        th.join(5)
        if got != data and data.startswith(got):
            # short: either the deadline passed before the writer was through (time), or bytes are gone (not time): let the
            # writer finish, then poll until the line has been found empty 6 times over ≥ 0.3 s
            more = bytearray()
            t_empty = None
            n_empty = 0
            end = time.time() + 30
            while time.time() < end and len(got) + len(more) < len(data):
                c = p.dev.read()
                if c:
                    more += c
                    t_empty, n_empty = None, 0
                    continue
                if wrote.is_set():
                    now = time.perf_counter()
                    t_empty = now if t_empty is None else t_empty
                    n_empty += 1
                    if n_empty >= 6 and now - t_empty >= 0.3 + 4 * (_MON[0].worst() if _MON[0] else 0.0):
                        break
                time.sleep(0.01)
            got += bytes(more)
            if got == data:
                if stats is not None:
                    stats["rx_completed_after_deadline"] = stats.get("rx_completed_after_deadline", 0) + 1
                return None
            if not wrote.is_set():
                return timed({"key": "pty-rx-incomplete", "what": f"burst of {size} bytes, writer pacing {pace_ms} ms: the helper thread "
                              f"had not written everything after the deadline ({len(got)} bytes read so far, all as sent)",
                              "expected": "writer finishes", "observed": f"{len(got)} of {size} bytes"})
        if got != data:
            return {"key": "pty-rx-altered", "what": f"bytes sent by the other end over the pty are not what reads return "
                    f"(burst of {size} bytes, writer pacing {pace_ms} ms)", "expected": "concatenation of reads = bytes sent",
                    "observed": diff_report(data, got)}
        return None
    finally:
        p.close()


def pty_tx(pad, seed, size, stats=None):
    """client → other end: 1..4 writes through SerialDevice.write with write_padding = pad; a helper
    thread drains the master side"""
    data = payload(seed, size)
    r = random.Random(f"C18-tx:{pad}:{seed}:{size}")
    cuts = sorted(r.randrange(0, size + 1) for _ in range(r.randrange(0, 4)))
    parts = [data[a:b] for a, b in zip([0] + cuts, cuts + [size])]
    want = b"".join(pad_expected(pad, d) for d in parts)
    p = PtyPort()
    try:
        p.dev.write_padding = pad
        box = {}
        done = threading.Event()

        def reader():
            box["got"], box["why"] = p.master_drain(len(want), done, time.time() + 60)
        th = threading.Thread(target=reader, daemon=True)
        th.start()
        err = None
        try:
            for d in parts:
                p.dev.write(d)
        except Exception as e:
            err = e
        done.set()
        th.join(70)
        got = box.get("got", b"")
        why = box.get("why", "reader-thread-did-not-finish")
        if stats is not None:
            stats["tx_bytes"] = stats.get("tx_bytes", 0) + len(want)
        if err is not None:
            v = {"key": "pty-write-raises", "what": f"write of {[len(d) for d in parts]} bytes with padding {pad} raised "
                 "(a helper thread takes the bytes from the other end as fast as it can)",
                 "expected": "no exception", "observed": f"{type(err).__name__}: {err}"}
            # a write TIME-OUT means the reader did not take the bytes within the port's write timeout: that depends on
            # the reader thread having been scheduled
            return timed(v) if "Timeout" in type(err).__name__ else v
        if got != want:
            v = {"key": "pty-tx-altered", "what": f"bytes written by the client (writes of {[len(d) for d in parts]} bytes, "
                 f"padding {pad}) do not arrive padded and otherwise unchanged at the other end of the pty; every write had "
                 f"returned normally, the reader stopped because: {why}",
                 "expected": "each write followed by zeros up to a multiple of the padding", "observed": diff_report(want, got)}
            # altered / reordered / too many bytes, or short with the line verified empty after the writes returned: facts
            # about the bytes.  Short because the reader ran out of time: depends on time.
            if want.startswith(got) and why not in ("complete", "line-empty-after-writer-finished"):
                return timed(v)
            return v
        return None
    finally:
        p.close()


def pty_txsweep(pad, lo, hi, seed, stats=None):
    """client → other end on ONE port: a write of every length lo..hi with write_padding = pad, each taken from the
    master side before the next"""
    p = PtyPort()
    try:
        p.dev.write_padding = pad
        for n in range(lo, hi + 1):
            d = payload(seed + n, n)
            want = pad_expected(pad, d)
            try:
                p.dev.write(d)
            except Exception as e:
                return {"key": "pty-write-raises", "what": f"write of {n} bytes with padding {pad} raised", "expected": "no exception",
                        "observed": f"{type(e).__name__}: {e}"}
            got = p.master_read(len(want), time.time() + 2, linger=0.0008)
            if got != want:
                return {"key": "pty-tx-altered", "what": f"write_padding = {pad}; write({n} bytes = {hexs(d)}): what arrives at the other "
                        f"end of the pty is not the bytes written followed by zeros up to the next multiple of {pad}",
                        "expected": f"{len(want)} bytes: {hexs(want)}", "observed": f"{len(got)} bytes: {hexs(got)}"}
            if stats is not None:
                stats["tx_bytes"] = stats.get("tx_bytes", 0) + len(want)
        if stats is not None:
            stats.setdefault("tx_sweep_paddings", []).append(pad)
        return None
    finally:
        p.close()


def pty_txp(pad, seed, size, rate, stats=None):
    """client → other end while the other end drains slowly: the master side takes at most `rate` bytes per second.
    The property: the bytes arrive unchanged and in order.  A write that cannot be handed to the OS within the port's write
    timeout may raise (the port is opened with a finite write timeout: Props/C18 `write_longer_than_timeout_is_cut`) — what
    arrived until then must be a prefix of what was written, and a burst that the line takes well within the timeout
    (size ≤ half of rate × write timeout, or small enough for any tty buffer: ≤ 1024 bytes) must not raise at all.
    Bytes missing WITHOUT an exception are a violation at every size and rate."""
    data = payload(seed, size)
    want = pad_expected(pad, data)
    p = PtyPort()
    try:
        p.dev.write_padding = pad
        wt = p.dev._ser.write_timeout
        got = bytearray()
        done = threading.Event()
        stop = threading.Event()

        def reader():
            # takes `rate` bytes per second in 10 ms steps; by how much the steps ran late (all of them together, while the
            # client's write was in progress) goes to the monitor: a reader that is scheduled late is a slower line than asked for
            q = max(1, rate // 100)
            last = time.time()
            late = 0.0
            empties = 0
            try:
                while not stop.is_set():
                    t = time.perf_counter()
                    r, _, _ = select.select([p.master], [], [], 0)
                    if r:
                        got.extend(os.read(p.master, q))
                        last = time.time()
                        empties = 0
                    elif done.is_set():
                        # the write has returned: the line found empty three times in a row, ≥ 0.15 s after the last byte
                        empties += 1
                        if empties >= 3 and time.time() - last > 0.15:
                            finished.set()
                            return
                    dt = 0.01 - (time.perf_counter() - t)
                    if dt > 0:
                        x = paced_sleep(dt)
                        if not done.is_set():
                            late += x
                            note_burst(late)
            except OSError:
                pass
        finished = threading.Event()
        th = threading.Thread(target=reader, daemon=True)
        th.start()
        err = None
        t0 = time.time()
        try:
            p.dev.write(data)
        except Exception as e:
            err = e
        took = time.time() - t0
        done.set()
        th.join(len(want) / max(1, rate) + 30)
        stop.set()
        th.join(2)
        got = bytes(got)
        if not finished.is_set():
            return timed({"key": "pty-txp-reader-stalled", "what": f"the helper thread that takes {rate} bytes/s from the other end did not "
                          f"get through {len(want)} bytes in {len(want) / max(1, rate) + 30:.0f} s", "expected": "reader finishes",
                          "observed": f"{len(got)} bytes taken"})
        must_complete = len(want) <= 1024 or (wt is None) or (wt > 0 and len(want) <= rate * wt / 2)
        if stats is not None:
            stats["tx_bytes"] = stats.get("tx_bytes", 0) + len(got)
            stats["tx_paced"] = stats.get("tx_paced", 0) + 1
        if err is None:
            if got != want:
                return {"key": "pty-tx-altered", "what": f"write of {size} bytes (padding {pad}) while the other end of the pty takes "
                        f"{rate} bytes/s: the write returned normally after {took:.2f} s, yet the bytes do not all arrive",
                        "expected": "every byte written arrives, or the write raises", "observed": diff_report(want, got)}
            return None
        name = type(err).__name__
        if not want.startswith(got):
            return {"key": "pty-tx-altered", "what": f"write of {size} bytes (padding {pad}) at {rate} bytes/s raised {name}; what arrived before "
                    "is not a prefix of what was written", "expected": "prefix", "observed": diff_report(want, got)}
        if must_complete or "Timeout" not in name:
            v = {"key": "pty-write-raises", "what": f"write of {size} bytes (padding {pad}) while the other end takes {rate} bytes/s raised "
                 f"after {took:.2f} s with {len(got)} bytes delivered (port write timeout {wt} s)", "expected": "no exception",
                 "observed": f"{name}: {err}"}
            # a write time-out where the paced reader should have been fast enough: was the reader thread scheduled on time?
            return timed(v) if "Timeout" in name else v
        if stats is not None:
            stats.setdefault("write_timeouts_observed", []).append(
                {"size": len(want), "rate_Bps": rate, "write_timeout_s": wt, "raised": name, "after_s": round(took, 2),
                 "delivered_intact_prefix": len(got)})
        return None
    finally:
        p.close()


def pty_echo(pad, seed, size, stats=None):
    """full duplex: the other end echoes every byte it receives and does not take more while its own transmit side is blocked
    (firmware waiting for room in its TX FIFO); one thread polls `SerialDevice.read()` — what CommHandler's receive thread does —
    while this thread hands ONE burst to `SerialDevice.write()`.  The burst is larger than the two tty queues together, so it
    can only get through if reads make progress WHILE the write is in progress.

    Judged: (bytes, no clock) what the device received is a prefix of the burst (padded), what the reads returned is a prefix of
    what the device echoed, and — once the write returned normally, the device has nothing left to echo and both directions were
    found empty 6 times over ≥ 0.3 s — both are the whole burst.  (time, LatencyMonitor rules) no single `read()` call took longer
    than the limit used for idle reads (0.5 s / half the port timeout); the write did not run into the port's write timeout (the
    device takes the bytes as fast as it can, the only thing it waits for is the client's own reads)."""
    data = payload(seed, size)
    want = pad_expected(pad, data)
    p = PtyPort()
    stop = threading.Event()
    ths = []
    try:
        p.dev.write_padding = pad
        p.dev.start()
        limit = 0.5 if p.timeout is None else min(0.5, p.timeout / 2)
        os.set_blocking(p.master, False)
        dev_got = bytearray()       # received by the device
        dev_sent = bytearray()      # echoed (taken by the OS from the device)
        cli = bytearray()           # returned by the client's reads
        st = {"pending": 0, "dev_idle": 0, "cli_idle": 0, "last": time.perf_counter(), "reads": 0, "worst": 0.0, "slow": [],
              "read_exc": None, "worst_at": None}

        def device():
            pending = b""
            try:
                while not stop.is_set():
                    if pending:
                        # blocked on its own transmit side: nothing is taken from the line until the echo is out
                        _, w, _ = select.select([], [p.master], [], 0.02)
                        n = 0
                        if w:
                            try:
                                n = os.write(p.master, pending)
                            except BlockingIOError:
                                n = 0
                        if n:
                            dev_sent.extend(pending[:n])
                            pending = pending[n:]
                            st["pending"] = len(pending)
                            st["last"] = time.perf_counter()
                            st["dev_idle"] = 0
                        else:
                            time.sleep(0.0005)
                        continue
                    t = time.perf_counter()
                    r, _, _ = select.select([p.master], [], [], 0.02)
                    if r:
                        c = os.read(p.master, 4096)
                        dev_got.extend(c)
                        pending = c
                        st["pending"] = len(pending)
                        st["last"] = time.perf_counter()
                        st["dev_idle"] = 0
                    else:
                        st["dev_idle"] += 1
                        if _MON[0] is not None:
                            _MON[0].note("sleep", max(0.0, time.perf_counter() - t - 0.02))
            except OSError:
                pass    # the pty was closed

        def reader():
            while not stop.is_set():
                t = time.perf_counter()
                try:
                    c = p.dev.read()
                except Exception as e:
                    st["read_exc"] = f"{type(e).__name__}: {e}"
                    return
                dt = time.perf_counter() - t
                st["reads"] += 1
                if dt > st["worst"]:
                    st["worst"] = dt
                    st["worst_at"] = {"read_number": st["reads"], "began": t, "took_s": round(dt, 4), "returned_bytes": len(c)}
                if dt > limit:
                    st["slow"].append({"took_s": round(dt, 3), "read_number": st["reads"], "began": t, "returned_bytes": len(c)})
                if c:
                    cli.extend(c)
                    st["last"] = time.perf_counter()
                    st["cli_idle"] = 0
                else:
                    st["cli_idle"] += 1
                    paced_sleep(0.0005)
        ths = [threading.Thread(target=device, daemon=True), threading.Thread(target=reader, daemon=True)]
        for th in ths:
            th.start()
        err = None
        t0 = time.perf_counter()
        try:
            p.dev.write(data)
        except Exception as e:
            err = e
        took = time.perf_counter() - t0
        at_return = {"device_received": len(dev_got), "client_read_back": len(cli)}
        # until everything is back, or nothing moves any more: the device has nothing left to echo, it found the line empty
        # and the client's reads came back empty, each ≥ 6 times in a row, over ≥ 0.3 s (+ 4 × the lateness seen)
        why = "deadline"
        end = time.time() + 30
        while time.time() < end:
            if st["read_exc"]:
                why = "read-raised"
                break
            if err is None and len(cli) >= len(want) and len(dev_got) >= len(want):
                why = "complete"
                break
            m = _MON[0]
            need = min(5.0, 0.3 + (4 * m.worst() if m is not None else 0.0))
            if st["pending"] == 0 and st["dev_idle"] >= 6 and st["cli_idle"] >= 6 and time.perf_counter() - st["last"] >= need:
                why = "nothing-moves-any-more"
                break
            time.sleep(0.01)
        stop.set()
        for th in ths:
            th.join(3)
        got_dev, sent_dev, got_cli = bytes(dev_got), bytes(dev_sent), bytes(cli)
        for s in st["slow"] + ([st["worst_at"]] if st["worst_at"] else []):
            if "began" in s:
                b = s.pop("began")
                # how much of this read() call fell inside the client's write() call
                s["overlap_with_the_client_write_s"] = round(max(0.0, min(b + s["took_s"], t0 + took) - max(b, t0)), 3)
        facts = {"burst_bytes": len(want), "write": "returned normally" if err is None else f"raised {type(err).__name__}: {err}",
                 "write_took_s": round(took, 3), "when_the_write_came_back": at_return, "device_received": len(got_dev),
                 "device_echoed": len(sent_dev), "client_read_back": len(got_cli), "reads": st["reads"],
                 "slowest_read_s": round(st["worst"], 4), "slowest_read": st["worst_at"], "stopped_because": why}
        if stats is not None:
            stats["echo_bytes_each_way"] = stats.get("echo_bytes_each_way", 0) + len(got_dev)
            stats["echo_max_read_s"] = round(max(stats.get("echo_max_read_s", 0.0), st["worst"]), 6)
            stats["echo_write_s"] = round(max(stats.get("echo_write_s", 0.0), took), 3)
        scen = (f"other end of the pty echoes what it receives (and takes nothing while its own transmit side is blocked); one thread polls "
                f"dev.read(), the main thread calls dev.write({size} bytes), padding {pad}")
        if st["read_exc"]:
            return {"key": "pty-read-raises", "what": scen + ": a read raised", "expected": "bytes", "observed": st["read_exc"], "facts": facts}
        if not want.startswith(got_dev):
            return {"key": "pty-tx-altered", "what": scen + ": what the device received is not a prefix of the burst (padded)",
                    "expected": "prefix of the bytes written", "observed": diff_report(want[:len(got_dev)], got_dev), "facts": facts}
        if not sent_dev.startswith(got_cli):
            return {"key": "pty-rx-altered", "what": scen + ": what the client's reads returned is not a prefix of what the device echoed",
                    "expected": "prefix of the bytes echoed", "observed": diff_report(sent_dev[:len(got_cli)], got_cli), "facts": facts}
        if st["slow"]:
            s = st["slow"][0]
            return timed({"key": "pty-read-blocks", "what": scen + f": read() number {s['read_number']} took {s['took_s']:.2f} s"
                          + (f", {s['overlap_with_the_client_write_s']:.2f} s of it while the client's write was in progress"
                             if s["overlap_with_the_client_write_s"] > 0 else "")
                          + f"; the write {facts['write']} after {took:.2f} s, the device had received {at_return['device_received']} of "
                          f"{len(want)} bytes, the reads had returned {at_return['client_read_back']}",
                          "expected": f"every read() returns in < {limit} s (a non-blocking, full-duplex pipe)",
                          "observed": {"slow_reads": st["slow"][:4], **facts}})
        if err is not None:
            v = {"key": "pty-write-raises", "what": scen + f": the write raised after {took:.2f} s with {at_return['device_received']} of "
                 f"{len(want)} bytes received by the device and {at_return['client_read_back']} read back by the client "
                 f"(slowest read() {st['worst']:.3f} s)", "expected": "no exception: the device takes the bytes as fast as the client reads the echo",
                 "observed": f"{type(err).__name__}: {err}", "facts": facts}
            return timed(v) if "Timeout" in type(err).__name__ else v
        if got_dev != want or got_cli != want:
            v = {"key": "pty-tx-altered" if got_dev != want else "pty-rx-altered",
                 "what": scen + f": the write returned normally, yet {len(got_dev)} of {len(want)} bytes arrived at the device and "
                 f"{len(got_cli)} were read back; stopped because: {why}", "expected": "the whole burst out and echoed back unchanged",
                 "observed": diff_report(want, got_dev if got_dev != want else got_cli), "facts": facts}
            return v if why == "nothing-moves-any-more" else timed(v)
        return None
    finally:
        stop.set()
        for th in ths:
            th.join(2)
        p.close()


RESTART_STEPS = (("start(); write(burst)", ("start",)), ("stop(); start(); write(burst)", ("stop", "start")),
                 ("write(burst) again, no stop in between", ()))


def pty_restart_burst(pad, seed, size, stats=None):
    """client → other end across a stop()/start() cycle of the interface, on ONE SerialDevice: `start(); write(burst)`, then
    `stop(); start(); write(burst)`, then a third `write(burst)`.  The burst is larger than the tty queue; the other end starts
    taking bytes 0.1 s after each write began (so the OS accepts the burst only piecewise and `write` has to keep going), then
    takes them as fast as it can.

    Judged per burst: (bytes, no clock) a write that returned without exception ⇒ every byte of it (padded) arrives, unchanged
    and in order — `master_drain` reads until the line, after the write returned, stayed empty 6 polls over ≥ 0.3 s; what arrived
    before an exception is a prefix.  (time, LatencyMonitor rules) the write does not run into the port's write timeout (the line
    is free after 0.1 s of the 1 s)."""
    data = payload(seed, size)
    want = pad_expected(pad, data)
    p = PtyPort()
    try:
        p.dev.write_padding = pad
        history = []
        for num, (name, calls) in enumerate(RESTART_STEPS, 1):
            for c in calls:
                getattr(p.dev, c)()
            history.append(name)
            box = {}
            done = threading.Event()

            def drain():
                note_burst(paced_sleep(0.1))
                box["got"], box["why"] = p.master_drain(len(want), done, time.time() + 30)
            th = threading.Thread(target=drain, daemon=True)
            th.start()
            err = None
            t0 = time.perf_counter()
            try:
                p.dev.write(data)
            except Exception as e:
                err = e
            took = time.perf_counter() - t0
            done.set()
            th.join(40)
            got = box.get("got", b"")
            why = box.get("why", "reader-thread-did-not-finish")
            scen = (f"dev = SerialDevice(<pty>), padding {pad}; " + "; ".join(history) + f" — burst = {size} bytes, the other end starts "
                    f"taking bytes 0.1 s after each write began: burst number {num}")
            facts = {"burst_number": num, "calls": "; ".join(history), "burst_bytes": len(want), "arrived": len(got),
                     "write": "returned normally" if err is None else f"raised {type(err).__name__}: {err}", "write_took_s": round(took, 3),
                     "reader_stopped_because": why}
            if not want.startswith(got):
                return {"key": "pty-tx-altered", "what": scen + ": what arrived at the other end is not a prefix of the bytes written",
                        "expected": "the bytes written (padded), in order", "observed": diff_report(want, got), "facts": facts}
            if err is not None:
                v = {"key": "pty-write-raises", "what": scen + f" raised after {took:.2f} s with {len(got)} of {len(want)} bytes delivered",
                     "expected": "no exception", "observed": f"{type(err).__name__}: {err}", "facts": facts}
                return timed(v) if "Timeout" in type(err).__name__ else v
            if got != want:
                v = {"key": "pty-tx-altered", "what": scen + f": the write returned without exception after {took:.2f} s, but only {len(got)} "
                     f"of {len(want)} bytes arrived at the other end (an intact prefix); the reader stopped because: {why}",
                     "expected": "every byte written arrives (or the write raises)", "observed": diff_report(want, got), "facts": facts}
                return v if why in ("complete", "line-empty-after-writer-finished") else timed(v)
            if stats is not None:
                stats["tx_bytes"] = stats.get("tx_bytes", 0) + len(want)
                stats["bursts_across_stop_start"] = stats.get("bursts_across_stop_start", 0) + 1
        return None
    finally:
        p.close()


# what a transparent line needs (the property's own statement; pyserial's vocabulary)
WANT_SETTINGS = {"bytesize": 8, "parity": "N", "stopbits": 1, "xonxoff": False, "rtscts": False, "dsrdtr": False}
WHY = {"bytesize": "on a UART only the low data bits of every byte go over the wire: 0x80..0xff arrive altered",
       "parity": "a parity bit changes the character format the other end must use (and with INPCK/PARMRK marks or drops bytes)",
       "stopbits": "the character format differs from 8N1",
       "xonxoff": "the tty layer consumes 0x11/0x13 and a received 0x13 stalls the client's writes",
       "rtscts": "the other end (or an unconnected CTS pin) can hold the client's writes until the write timeout",
       "dsrdtr": "the other end (or an unconnected DSR pin) can hold the client's writes until the write timeout"}


EXAMPLE = {
    "bytesize": lambda v: (f"the other end sends 0xff → dev.read() returns 0x{0xff & ((1 << v) - 1):02x}; dev.write(b'\\x80') → the other end "
                           f"receives 0x{0x80 & ((1 << v) - 1):02x}") if isinstance(v, int) and 5 <= v < 8 else f"bytesize {v!r}: not an 8-bit character",
    "parity": lambda v: f"every character carries a parity bit ({v!r}): an 8N1 device sees framing errors / altered bytes",
    "stopbits": lambda v: f"{v!r} stop bits instead of one",
    "xonxoff": lambda v: "the other end sends 01 13 02 → dev.read() returns 01 02, and the next dev.write(…) stalls until the write timeout",
    "rtscts": lambda v: "CTS low (or not wired): dev.write(b'\\x55') raises SerialTimeoutException after the write timeout, nothing arrives",
    "dsrdtr": lambda v: "DSR low (or not wired): dev.write(b'\\x55') raises SerialTimeoutException after the write timeout, nothing arrives",
}


def open_arguments():
    """what SerialDevice(port), built with its default arguments, hands to pyserial — bound to pyserial's OWN signature, so
    that positional arguments, keywords and pyserial's defaults are all accounted for"""
    import inspect
    import serial
    _, port = make_dev(0)
    sig = inspect.signature(serial.Serial.__init__)
    ba = sig.bind(None, *port.args, **port.kw)
    ba.apply_defaults()
    eff = dict(ba.arguments)
    eff.pop("self", None)
    extra = eff.pop("kwargs", {}) or {}
    return eff, extra, port


def judge_settings(got, where):
    bad = {k: got.get(k) for k, v in WANT_SETTINGS.items() if k in got and (got[k] != v or type(got[k]) is not type(v))}
    if not bad:
        return None
    return {"key": "port-not-8n1-transparent",
            "what": f"SerialDevice(<port>) built with its default arguments opens the port with "
                    + ", ".join(f"{k}={v!r}" for k, v in sorted(bad.items())) + f" ({where}): "
                    + "; ".join(WHY[k] for k in sorted(bad)),
            "expected": {k: WANT_SETTINGS[k] for k in sorted(bad)}, "observed": {k: repr(v) for k, v in sorted(bad.items())},
            "input": "dev = nxslib.intf.serial.SerialDevice(port)  (default arguments), port a UART; then: "
                     + "; ".join(EXAMPLE[k](bad[k]) for k in sorted(bad))}


# ---- `pipe open`: the arguments the real constructor hands to pyserial, for caller-supplied settings -------------------
OPEN_BYTESIZES = (5, 6, 7, 8)
OPEN_PARITIES = ("N", "E", "O", "M", "S")
OPEN_STOPBITS = (1, 2)          # the model's `stopBits` is a natural number; pyserial's 1.5 is judged by the oracle alone


def open_call(bytesize=None, parity=None, stopbits=None, positional=False):
    """the REAL `SerialDevice(port, baud[, bytesize][, parity][, stopbits])` over the recording stand-in for `serial.Serial`
    (mechanism of `make_dev` / `pty cfg`); None = the caller leaves the argument out.  Returns what pyserial was asked for,
    bound to pyserial's OWN signature (positional arguments resolved, pyserial's defaults for everything not passed)"""
    import inspect
    import serial
    import nxslib.intf.serial as ns
    real = ns.serial
    ns.serial = types.SimpleNamespace(Serial=FakeSerial, SerialException=real.SerialException)
    try:
        if positional and None not in (bytesize, parity, stopbits):
            dev = ns.SerialDevice("/dev/fake-port", 115200, bytesize, parity, stopbits)
        else:
            kw = {k: v for k, v in (("bytesize", bytesize), ("parity", parity), ("stopbits", stopbits)) if v is not None}
            dev = ns.SerialDevice("/dev/fake-port", 115200, **kw)
    finally:
        ns.serial = real
    port = dev._ser
    assert isinstance(port, FakeSerial)
    ba = inspect.signature(serial.Serial.__init__).bind(None, *port.args, **port.kw)
    ba.apply_defaults()
    eff = dict(ba.arguments)
    eff.pop("self", None)
    extra = eff.pop("kwargs", {}) or {}
    return eff, extra


def open_line_args(t):
    """tokens of `pipe open <bytesize> <parity> <stopbits>` → caller arguments (None = left out)"""
    return (None if t[2] == "-" else int(t[2])), (None if t[3] == "-" else t[3]), (None if t[4] == "-" else int(t[4]))


def open_canon(eff):
    def num(v):
        return str(v) if type(v) is int else "?" + type(v).__name__
    def flag(v):
        return "0" if v is False else "1" if v is True else "?" + type(v).__name__
    par = eff.get("parity")
    return (f"ok bits={num(eff.get('bytesize'))} parity={par if isinstance(par, str) and par.isalnum() else '?'} "
            f"stop={num(eff.get('stopbits'))} xonxoff={flag(eff.get('xonxoff'))} rtscts={flag(eff.get('rtscts'))} "
            f"dsrdtr={flag(eff.get('dsrdtr'))}")


def judge_open(bytesize, parity, stopbits):
    """the property on one constructor call: flow control of every kind off, and the caller's character format handed to
    pyserial unchanged (an argument the caller leaves out: the 8 / N / 1 of a transparent line, WANT_SETTINGS)"""
    eff, extra = open_call(bytesize, parity, stopbits)
    call = "SerialDevice('/dev/fake-port', 115200" + "".join(
        f", {k}={v!r}" for k, v in (("bytesize", bytesize), ("parity", parity), ("stopbits", stopbits)) if v is not None) + ")"
    if extra:
        return {"key": "port-not-8n1-transparent", "what": "SerialDevice hands pyserial settings it does not know",
                "expected": "-", "observed": repr(extra), "input": call}
    want = {"bytesize": WANT_SETTINGS["bytesize"] if bytesize is None else bytesize,
            "parity": WANT_SETTINGS["parity"] if parity is None else parity,
            "stopbits": WANT_SETTINGS["stopbits"] if stopbits is None else stopbits,
            "xonxoff": False, "rtscts": False, "dsrdtr": False}
    bad = {k: eff.get(k) for k, v in want.items() if eff.get(k) != v or type(eff.get(k)) is not type(v)}
    if not bad:
        return None
    flow = sorted(k for k in bad if k in ("xonxoff", "rtscts", "dsrdtr"))
    return {"key": "port-not-8n1-transparent" if flow else "open-args-altered",
            "what": f"{call} asks pyserial for " + ", ".join(f"{k}={v!r}" for k, v in sorted(bad.items()))
                    + (": " + "; ".join(WHY[k] for k in flow) if flow else ": the caller's character format is not handed through unchanged"),
            "expected": {k: repr(want[k]) for k in sorted(bad)}, "observed": {k: repr(v) for k, v in sorted(bad.items())},
            "input": call}


def pty_cfg(stats=None):
    """how the port is opened.  (1) arguments handed to pyserial (fake port, no tty needed); (2) on a pty: the pyserial
    object's settings and the termios state of the line after the real constructor ran"""
    eff, extra, _ = open_arguments()
    if stats is not None:
        stats["open_settings_effective"] = {k: repr(v) for k, v in sorted(eff.items()) if k != "port"}
    if extra:
        return {"key": "port-not-8n1-transparent", "what": "SerialDevice hands pyserial settings it does not know", "expected": "-", "observed": repr(extra)}
    v = judge_settings(eff, "arguments of the serial.Serial(…) call, pyserial defaults for the rest")
    if v:
        return v
    try:
        p = PtyPort()
    except OSError:
        return None
    try:
        import termios
        ser = p.dev._ser
        obj = {k: getattr(ser, k) for k in WANT_SETTINGS}
        v = judge_settings(obj, "read back from the pyserial object of an open pty")
        if v:
            return v
        iflag, oflag, cflag, lflag, _, _, cc = termios.tcgetattr(p.slave)
        # (a pty forces CS8 and clears PARENB whatever is asked; the other bits are kept as set)
        flags = {
            "CS8": (cflag & termios.CSIZE) == termios.CS8, "PARENB": bool(cflag & termios.PARENB), "CSTOPB": bool(cflag & termios.CSTOPB),
            "CRTSCTS": bool(cflag & termios.CRTSCTS), "IXON": bool(iflag & termios.IXON), "IXOFF": bool(iflag & termios.IXOFF),
            "IXANY": bool(iflag & termios.IXANY), "ISTRIP": bool(iflag & termios.ISTRIP), "INPCK": bool(iflag & termios.INPCK),
            "PARMRK": bool(iflag & termios.PARMRK), "INLCR": bool(iflag & termios.INLCR), "IGNCR": bool(iflag & termios.IGNCR),
            "ICRNL": bool(iflag & termios.ICRNL), "OPOST": bool(oflag & termios.OPOST), "ICANON": bool(lflag & termios.ICANON),
            "ECHO": bool(lflag & termios.ECHO), "ISIG": bool(lflag & termios.ISIG), "IEXTEN": bool(lflag & termios.IEXTEN),
            "VMIN": cc[termios.VMIN] if isinstance(cc[termios.VMIN], int) else cc[termios.VMIN][0],
            "VTIME": cc[termios.VTIME] if isinstance(cc[termios.VTIME], int) else cc[termios.VTIME][0]}
        want = {k: False for k in flags}
        want.update({"CS8": True, "VMIN": 0, "VTIME": 0})
        bad = {k: flags[k] for k in flags if flags[k] != want[k]}
        if stats is not None:
            stats["termios_after_open"] = {"raw_8bit_no_flow_control": not bad, **({"differs": bad} if bad else {})}
            stats["pyserial_object_settings"] = {k: repr(x) for k, x in sorted(obj.items())}
        if bad:
            return {"key": "port-not-8n1-transparent",
                    "what": "termios state of the line after SerialDevice(<pty>) opened it with its default arguments is not "
                            "raw / 8 bit / without flow control: " + ", ".join(f"{k}={x}" for k, x in sorted(bad.items())),
                    "expected": {k: want[k] for k in sorted(bad)}, "observed": {k: bad[k] for k in sorted(bad)},
                    "input": "nxslib.intf.serial.SerialDevice(os.ttyname(slave)); termios.tcgetattr(slave)"}
        return None
    finally:
        p.close()


def pty_bytes(stats=None):
    """every byte value, one at a time and all together, in both directions"""
    p = PtyPort()
    try:
        for b in list(range(256)) + CTRL:
            one = bytes([b])
            os.write(p.master, one)
            got, slow = p.client_read(1, time.time() + 1.5)
            if slow is not None:
                return timed({"key": "pty-read-blocks", "what": f"a read took {slow:.2f} s", "expected": "< 0.5 s", "observed": f"{slow:.2f} s"})
            if got != one:
                return {"key": "pty-byte-altered", "what": f"byte 0x{b:02x} sent by the other end", "expected": hexs(one), "observed": hexs(got)}
            p.dev.write(one)
            got = p.master_read(1, time.time() + 1.5, linger=0.0005)
            if got != one:
                return {"key": "pty-byte-altered", "what": f"byte 0x{b:02x} written by the client", "expected": hexs(one), "observed": hexs(got)}
        for blob in (bytes(range(256)), bytes(reversed(range(256))), bytes(CTRL) * 8):
            os.write(p.master, blob)
            got, _ = p.client_read(len(blob), time.time() + 2)
            if got != blob:
                return {"key": "pty-byte-altered", "what": "all byte values in one burst from the other end", "expected": hexs(blob), "observed": hexs(got)}
            p.dev.write(blob)
            got = p.master_read(len(blob), time.time() + 2)
            if got != blob:
                return {"key": "pty-byte-altered", "what": "all byte values in one write of the client", "expected": hexs(blob), "observed": hexs(got)}
        if stats is not None:
            stats["byte_values_each_direction"] = 256
        return None
    finally:
        p.close()


def pty_idle(n, stats=None):
    """n reads on an idle line, each timed; the port timeout is what pyserial reports"""
    p = PtyPort()
    try:
        limit = 0.5
        if p.timeout is not None:
            limit = min(0.5, p.timeout / 2)
        worst = 0.0
        for i in range(n):
            t = time.perf_counter()
            try:
                c = p.dev.read()
            except Exception as e:
                return {"key": "pty-idle-read-raises", "what": "read on an idle line raised", "expected": "b''", "observed": f"{type(e).__name__}: {e}"}
            dt = time.perf_counter() - t
            worst = max(worst, dt)
            if c:
                return {"key": "pty-idle-read-nonempty", "what": "read on an idle line returned bytes", "expected": "-", "observed": hexs(c)}
            if dt > limit:
                # confirm: a port that waits does so every time; one slow call can be the scheduler's doing
                again = []
                for _ in range(2):
                    t = time.perf_counter()
                    p.dev.read()
                    again.append(time.perf_counter() - t)
                if min(again) > limit:
                    return timed({"key": "pty-idle-read-blocks", "what": f"read number {i} on an idle line took {dt:.2f} s, the next two "
                                  f"{again[0]:.2f} s and {again[1]:.2f} s (port timeout {p.timeout} s)",
                                  "expected": f"empty result in < {limit} s", "observed": f"{dt:.2f} s"})
                if stats is not None:
                    stats["idle_slow_unconfirmed"] = stats.get("idle_slow_unconfirmed", 0) + 1
        # and idle again after traffic
        os.write(p.master, b"\x55\x00\x11")
        got, _ = p.client_read(3, time.time() + 1.5)
        t = time.perf_counter()
        c = p.dev.read()
        dt = time.perf_counter() - t
        worst = max(worst, dt)
        if got != b"\x55\x00\x11":
            return {"key": "pty-byte-altered", "what": "bytes 55 00 11 sent by the other end", "expected": "550011", "observed": hexs(got)}
        if c:
            return {"key": "pty-idle-read-nonempty", "what": "read after the line went idle again", "expected": "empty", "observed": hexs(c)}
        if dt > limit:
            return timed({"key": "pty-idle-read-blocks", "what": "read after the line went idle again",
                          "expected": f"empty in < {limit} s", "observed": f"empty in {dt:.2f} s"})
        if stats is not None:
            stats["idle_reads"] = stats.get("idle_reads", 0) + n + 1
            stats["idle_max_s"] = round(max(stats.get("idle_max_s", 0.0), worst), 6)
            stats["port_timeout_s"] = p.timeout
            stats["port_write_timeout_s"] = p.dev._ser.write_timeout
        return None
    finally:
        p.close()


# ---- full session ---------------------------------------------------------------------------

SESSION_CHANS = [
    dict(en=False, type=2, vdim=1, div=0, mlen=0, name="u8"),
    dict(en=False, type=5, vdim=3, div=0, mlen=1, name="i16x3"),
    dict(en=False, type=7, vdim=1, div=0, mlen=0, name="i32"),
    dict(en=False, type=10, vdim=2, div=0, mlen=4, name="f32x2"),
    dict(en=False, type=18, vdim=8, div=0, mlen=0, name="text"),
    dict(en=False, type=9, vdim=1, div=0, mlen=0, name="i64"),
]


class DevServer:
    """the reference device behind a byte interface: reassembles requests from whatever pieces arrive,
    emits `nframes` stream frames once started"""

    def __init__(self, rxpadding, nframes, plan=None):
        self.dev = refdev.RefDevice(SESSION_CHANS, flags=3, rxpadding=rxpadding)
        self.inbuf = bytearray()
        # plan: the length on the wire of every stream frame (None = one sample of every enabled channel)
        self.plan = list(plan) if plan else None
        self.left = len(self.plan) if self.plan else nframes
        self.lock = threading.Lock()
        self.seen = bytearray()
        self.sent_lengths = []

    def big_tick(self, target):
        """one stream frame of exactly `target` bytes on the wire: as many whole rounds (one sample of every enabled
        channel) as fit, then samples of the shortest enabled channel up to the length"""
        d = self.dev
        chans = [(i, ch) for i, ch in enumerate(d.chans) if ch["en"]]
        if target is None or not chans:
            return d.stream_tick()

        def sample(i, ch, c):
            return bytes([i]) + d.sample_bytes(ch, c) + bytes((c + k) & 0xFF for k in range(ch["mlen"]))
        sizes = [len(sample(i, ch, 0)) for i, ch in chans]
        T = sum(sizes)
        f = min(sizes)
        fi, fch = chans[sizes.index(f)]
        room = target - 7            # start byte, length, id, footer = 6; one flags byte
        k = room // T
        while k >= 0 and (room - k * T) % f:
            k -= 1
        if k < 0:
            return d.stream_tick()
        body = bytearray([0])
        for _ in range(k):
            for i, ch in chans:
                body += sample(i, ch, d.stream_cntr)
            d.stream_cntr += 1
        for _ in range((room - k * T) // f):
            body += sample(fi, fch, d.stream_cntr)
            d.stream_cntr += 1
        fr = d.codec.create(refdev.STREAM, bytes(body))
        assert len(fr) == target, (len(fr), target)
        d.rx += fr

    def feed(self, data):
        with self.lock:
            self.seen += data
            b = self.inbuf
            b += data
            while True:
                i = b.find(b"\x55")
                if i < 0:
                    b.clear()
                    return
                del b[:i]
                if len(b) < 4:
                    return
                flen = b[1] | b[2] << 8
                if flen < 6 or flen > 600 or b[3] > 8:
                    del b[:1]
                    continue
                if len(b) < flen:
                    return
                fr = self.dev.codec.decode_at(bytes(b), 0)
                if fr is None:
                    del b[:1]
                    continue
                del b[:flen]
                self.dev.handle(fr[0], fr[1])

    def take(self, tick=True):
        with self.lock:
            if tick and self.dev.started and self.left > 0:
                n0 = len(self.dev.rx)
                if self.plan is not None:
                    self.big_tick(self.plan[len(self.plan) - self.left])
                else:
                    self.dev.stream_tick()
                self.left -= 1
                self.sent_lengths.append(len(self.dev.rx) - n0)
            out = bytes(self.dev.rx)
            self.dev.rx.clear()
            return out


def session_script(intf, nframes):
    """the client side of the session, identical for both links; returns (description, samples, notes)"""
    from nxslib.comm import CommHandler
    from nxslib.proto.parse import Parser
    comm = CommHandler(intf, Parser())
    notes = []
    try:
        comm.connect()
        d = comm.dev
        desc = (d.data.chmax, d.data.flags, d.data.rxpadding,
                tuple((c.data.chan, c.data._type, c.data.vdim, c.data.name, bool(c.data.en), c.data.div, c.data.mlen)
                      for c in (d.channel_get(i) for i in range(d.data.chmax))))
        comm.ch_enable([0, 1, 3, 4, 5])
        comm.ch_divider([1], 3)
        comm.channels_write()
        ack = comm.stream_start()
        notes.append(("start", bool(ack.state), ack.retcode))
        samples = []
        frames = 0
        misses = 0
        while frames < nframes and misses < 3:
            s = comm.stream_data()
            if s is None:
                misses += 1
                continue
            frames += 1
            for x in s.samples:
                samples.append((x.chan, x.dtype, x.vdim, x.mlen, repr(x.data), repr(x.meta)))
        ack = comm.stream_stop()
        notes.append(("stop", bool(ack.state), ack.retcode))
        notes.append(("frames", frames))
        return desc, samples, notes
    finally:
        comm.disconnect()


def memory_session(rxpadding, nframes, plan=None):
    """the same session over an ideal in-memory link"""
    from nxslib.intf.iintf import ICommInterface
    srv = DevServer(rxpadding, nframes, plan)

    class MemLink(ICommInterface):
        def start(self): pass
        def stop(self): pass
        def drop_all(self): pass

        def _read(self):
            out = srv.take()
            if not out:
                time.sleep(0.0005)
            return out

        def _write(self, data):
            srv.feed(bytes(data))
    return session_script(MemLink(), nframes), srv


def pty_session_once(rxpadding, nframes, seed, stats=None, plan=None):
    """one client session over the pty.  Returns a dict: `res` = (description, samples, notes) or None, `exc` = what the session
    raised, `srv`, `pump_err`, and `raw` = a verdict about the BYTES alone, which does not depend on time: every byte the client's reads
    returned against every byte the device side wrote to the other end, and every byte that arrived at the other end against the
    client's writes (each padded to the write padding in force)."""
    srv = DevServer(rxpadding, nframes, plan)
    p = PtyPort()
    stop = threading.Event()
    r = random.Random(f"C18-session:{rxpadding}:{nframes}:{seed}")
    pump_err = []
    dev_sent = bytearray()

    def pump():
        try:
            while not stop.is_set():
                t = time.perf_counter()
                rd, _, _ = select.select([p.master], [], [], 0.002)
                if rd:
                    srv.feed(os.read(p.master, 65536))
                elif _MON[0] is not None:
                    _MON[0].note("sleep", max(0.0, time.perf_counter() - t - 0.002))
                out = srv.take()
                i = 0
                late = 0.0
                big = len(out) > 2048
                while i < len(out):
                    if big:
                        # a long frame goes out in paced pieces: the client polls an idle line in the middle of it
                        k = r.choice([300, 700, 1500, 1500, 4000])
                        n = os.write(p.master, out[i:i + k])
                        dev_sent.extend(out[i:i + n])
                        i += n
                        late += paced_sleep(r.uniform(0.001, 0.004))
                        continue
                    k = r.choice([1, 3, 4, 7, 16, 64, len(out)])
                    n = os.write(p.master, out[i:i + k])
                    dev_sent.extend(out[i:i + n])
                    i += n
                    if r.random() < 0.2:
                        late += paced_sleep(r.uniform(0, 0.002))
                if out:
                    note_burst(late)      # by how much this frame / reply went out later than paced, all pieces together
        except Exception as e:  # closed fd at shutdown etc.
            if not stop.is_set():
                pump_err.append(f"{type(e).__name__}: {e}")
    th = threading.Thread(target=pump, daemon=True)
    th.start()
    out = {"res": None, "exc": None, "srv": srv, "pump_err": pump_err, "raw": None}
    try:
        # every byte the client reads, and the OS chunking it sees
        orig = p.dev._read
        sizes = []
        got_all = bytearray()

        def counted():
            c = orig()
            if c:
                sizes.append(len(c))
                got_all.extend(c)
            return c
        p.dev._read = counted
        p.dev._fread = counted
        # every write of the client with the padding in force
        orig_write = p.dev.write
        writes = []

        def noted_write(data):
            writes.append((p.dev.write_padding, bytes(data)))
            return orig_write(data)
        p.dev.write = noted_write
        try:
            out["res"] = session_script(p.dev, nframes)
        except Exception as e:
            out["exc"] = f"{type(e).__name__}: {e}"
        stop.set()
        th.join(5)
        # what is still on its way to the other end: until the line was found empty 6 times over ≥ 0.3 s
        t_empty = None
        n_empty = 0
        end = time.time() + 10
        while time.time() < end and not th.is_alive():
            rd, _, _ = select.select([p.master], [], [], 0.02)
            if rd:
                try:
                    srv.seen += os.read(p.master, 65536)
                except OSError:
                    break
                t_empty, n_empty = None, 0
                continue
            now = time.perf_counter()
            t_empty = now if t_empty is None else t_empty
            n_empty += 1
            if n_empty >= 6 and now - t_empty >= 0.3:
                break
        want_tx = b"".join(pad_expected(pad, d) for pad, d in writes)
        seen = bytes(srv.seen)
        if not bytes(dev_sent).startswith(bytes(got_all)):
            out["raw"] = {"key": "pty-session-bytes-altered", "what": "session over the pty: the concatenation of everything the client's reads "
                          f"returned ({len(got_all)} bytes) is not a prefix of what the device side wrote to the other end ({len(dev_sent)} bytes)",
                          "expected": "reads = a prefix of the bytes sent", "observed": diff_report(bytes(dev_sent[:len(got_all)]), bytes(got_all))}
        elif not want_tx.startswith(seen) or (out["exc"] is None and seen != want_tx and not th.is_alive()):
            out["raw"] = {"key": "pty-session-bytes-altered", "what": "session over the pty: what arrived at the other end is not the client's "
                          f"writes ({len(writes)} of them), each followed by zeros up to the write padding in force; every write had returned normally",
                          "expected": "arrived = the padded writes, in order", "observed": diff_report(want_tx, seen)}
        if stats is not None:
            stats["session_nonempty_reads"] = stats.get("session_nonempty_reads", 0) + len(sizes)
            stats["session_read_sizes"] = sorted(set(sizes))[:40]
            stats["session_bytes_from_client"] = len(srv.seen)
            stats["session_bytes_compared_raw"] = stats.get("session_bytes_compared_raw", 0) + len(got_all) + len(seen)
            if plan:
                stats["session_longest_device_frame"] = max([stats.get("session_longest_device_frame", 0)] + srv.sent_lengths)
                stats["session_long_device_frames"] = stats.get("session_long_device_frames", 0) + sum(1 for x in srv.sent_lengths if x > 4096)
        return out
    finally:
        stop.set()
        th.join(2)
        p.close()


_MEM_CACHE = {}


def _memref_child():
    """(runs in a fresh interpreter) the session over the ideal in-memory link; the result goes to stdout, pickled"""
    import json
    import pickle
    import sys
    rxpadding, nframes, plan = json.loads(sys.argv[1])
    (desc, samples, notes), srv = memory_session(rxpadding, nframes, plan)
    sys.stdout.buffer.write(pickle.dumps({"res": (desc, samples, notes), "nreq": srv.dev.nreq, "en": srv.dev.en, "div": srv.dev.div}))
    sys.stdout.buffer.flush()


class MemoryReference:
    """the same session over an ideal in-memory link, run in a process of its own while the pty session runs (its threads must not
    share an interpreter lock with the threads being timed), once per experiment; re-runs of the experiment reuse it"""

    def __init__(self, rxpadding, nframes, plan):
        import json
        import subprocess
        import sys
        self.key = (rxpadding, nframes, tuple(plan) if plan else None)
        self.nframes = nframes
        self.proc = None
        if self.key not in _MEM_CACHE:
            here = os.path.dirname(os.path.dirname(os.path.abspath(__file__)))
            code = f"import sys; sys.path.insert(0, {here!r}); import common; import props.C18 as m; m._memref_child()"
            self.proc = subprocess.Popen([sys.executable, "-c", code, json.dumps([rxpadding, nframes, list(plan) if plan else None])],
                                         stdout=subprocess.PIPE, stderr=subprocess.PIPE)

    def result(self):
        """{'res': (description, samples, notes), 'nreq', 'en', 'div'} or {'failed': why}"""
        import pickle
        import subprocess
        if self.proc is None:
            return _MEM_CACHE[self.key]
        try:
            out, err = self.proc.communicate(timeout=180)
        except subprocess.TimeoutExpired:
            self.proc.kill()
            self.proc.communicate()
            return {"failed": "did not finish within 180 s"}
        if self.proc.returncode != 0:
            return {"failed": f"exit {self.proc.returncode}: {err.decode(errors='replace')[-300:]}"}
        box = pickle.loads(out)
        if ("frames", self.nframes) not in box["res"][2]:
            # not kept for the re-runs: it ran into one of the client's time-outs itself
            box["failed"] = f"the session over the in-memory link delivered fewer frames than the device sent: {box['res'][2]!r}"
            return box
        _MEM_CACHE.clear()
        _MEM_CACHE[self.key] = box
        return box


def pty_session(rxpadding, nframes, seed, stats=None, plan=None):
    """a full client session over the pty vs over the in-memory link; with `plan` the device's stream frames have
    the listed lengths on the wire (the in-memory link hands each over in one read, the pty in paced pieces).

    Two kinds of verdict.  About the bytes (`pty-session-bytes-altered`): reads against bytes sent, bytes arrived against the
    writes — no clock involved.  About the session's outcome (description, ACKs, number of frames, samples, an exception): the
    client runs with nxslib's real 1 s reply and 1 s `stream_data` time-outs against a device-side helper thread that answers
    and writes long frames in `time.sleep`-paced pieces.  On a machine so loaded that this thread (or the client's receive
    thread) is not scheduled for that long the client gives up on a request, or re-sends it and takes the late reply for the
    answer to the next one — the link was slow, it altered nothing.  These verdicts are marked `depends_on_time`; `pty_case`
    accepts them only from a run during which the scheduling-latency monitor saw nothing later than LATE_LIMIT."""
    if plan:
        nframes = len(plan)
    ref = MemoryReference(rxpadding, nframes, plan)
    try:
        o = pty_session_once(rxpadding, nframes, seed, stats, plan)
    finally:
        box = ref.result()
    srv = o["srv"]
    if o["raw"]:
        if o["exc"]:
            o["raw"]["session_raised"] = o["exc"]
        return o["raw"]
    if o["exc"] is not None:
        return timed({"key": "pty-session-fails", "what": f"client session over the pty (device rxpadding {rxpadding}) raised; the bytes "
                      "that went over the pty in both directions were unaltered", "expected": "session completes", "observed": o["exc"],
                      "requests_seen_by_device": srv.dev.nreq})
    if "failed" in box:
        return timed({"key": "memory-session-fails", "what": "the reference session over the in-memory link failed",
                      "expected": "session completes", "observed": box["failed"]})
    desc, samples, notes = o["res"]
    mdesc, msamples, mnotes = box["res"]
    want_desc = (len(SESSION_CHANS), 3, rxpadding,
                 tuple((i, c["type"], c["vdim"], c["name"], False, 0, c["mlen"]) for i, c in enumerate(SESSION_CHANS)))
    reqs = {"pty": srv.dev.nreq, "ideal_link": box["nreq"]}
    if desc != mdesc or desc != want_desc:
        return timed({"key": "pty-session-description", "what": "device description read over the pty differs from the one read over the "
                      "ideal link / from the device's configuration", "expected": repr(mdesc), "observed": repr(desc), "device": repr(want_desc),
                      "requests_seen_by_device": reqs})
    if notes != mnotes:
        return timed({"key": "pty-session-acks", "what": "start/stop outcome or number of stream frames the client received differs between the pty and "
                      "the ideal link" + (f"; lengths of the device's stream frames on the wire: {srv.sent_lengths}" if plan else ""),
                      "expected": repr(mnotes), "observed": repr(notes)})
    if samples != msamples:
        i = first_diff(samples, msamples)
        return timed({"key": "pty-session-samples", "what": f"decoded stream samples differ from the ideal link (first at sample {i} of "
                      f"{len(msamples)})", "expected": repr(msamples[i:i + 2]), "observed": repr(samples[i:i + 2])})
    if not samples or ("frames", nframes) not in notes:
        return timed({"key": "pty-session-empty", "what": "the session delivered fewer stream frames than the device sent",
                      "expected": nframes, "observed": repr(notes)})
    if (srv.dev.en, srv.dev.div) != (box["en"], box["div"]):
        return timed({"key": "pty-session-device-state", "what": "device state after the session differs", "expected": repr((box["en"], box["div"])),
                      "observed": repr((srv.dev.en, srv.dev.div))})
    if stats is not None:
        stats["session_samples"] = stats.get("session_samples", 0) + len(samples)
        stats["sessions"] = stats.get("sessions", 0) + 1
    return None


def pty_hangup_probe():
    """RECORDED, NOT JUDGED (the property sentence says nothing about errors): what the real stack does when the other end of
    the line goes away, and on a closed port.  pyserial 3.5 (posix) raises `SerialException` only out of `Serial.read`
    ("device reports readiness to read but returned no data", a failing `os.read`/`select`); `Serial.in_waiting` is a bare
    `ioctl(TIOCINQ)` — after a hang-up it raises `OSError(EIO)`, on a closed port `TypeError` (fd is None) — and since `_read`
    evaluates `in_waiting` first and catches `serial.SerialException` only, these leave `SerialDevice.read()` as exceptions.
    The model's `readError` (and the K cases `e` / `E`) are about the `except serial.SerialException` branch alone."""
    import pty
    from nxslib.intf.serial import SerialDevice

    def call(f):
        try:
            r = f()
            return "returned " + (hexs(r) if isinstance(r, (bytes, bytearray)) else repr(r))
        except BaseException as e:     # noqa: recorded as seen
            import serial
            kind = "a serial.SerialException" if isinstance(e, serial.SerialException) else "NOT a serial.SerialException"
            return f"raised {type(e).__name__} ({kind})" + (f" errno {e.errno}" if isinstance(e, OSError) and e.errno is not None else "")
    m, sl = pty.openpty()
    out = {}
    dev = None
    try:
        dev = SerialDevice(os.ttyname(sl))
        os.close(sl)
        sl = None
        os.write(m, b"abc")
        end = time.time() + 2
        got = b""
        while len(got) < 3 and time.time() < end:
            got += dev.read()
        out["read_before_hangup"] = "returned " + hexs(got)
        os.close(m)        # the other end goes away (USB adapter unplugged)
        m = None
        time.sleep(0.02)
        out["read_after_hangup"] = call(dev.read)
        out["second_read_after_hangup"] = call(dev.read)
        out["write_after_hangup"] = call(lambda: dev.write(b"x"))
        dev._ser.close()
        out["read_on_closed_port"] = call(dev.read)
        out["caught_by_SerialDevice._read"] = "only serial.SerialException (→ b''); everything else above propagates to the caller"
        out["judged"] = False
    finally:
        for fd in (m, sl):
            if fd is not None:
                try:
                    os.close(fd)
                except OSError:
                    pass
        try:
            if dev is not None and dev._ser:
                dev._ser.close()
        except Exception:
            pass
    return out


def pty_case_once(line, stats=None):
    t = line.split(" ")
    if t[1] == "rx":
        return pty_rx(int(t[2]), int(t[3]), int(t[4]), stats)
    if t[1] == "tx":
        return pty_tx(int(t[2]), int(t[3]), int(t[4]), stats)
    if t[1] == "bytes":
        return pty_bytes(stats)
    if t[1] == "idle":
        return pty_idle(int(t[2]), stats)
    if t[1] == "session":
        return pty_session(int(t[2]), int(t[3]), int(t[4]), stats)
    if t[1] == "bigsession":
        plan = [None if x == "-" else int(x) for x in t[4].split(",")]
        return pty_session(int(t[2]), len(plan), int(t[3]), stats, plan)
    if t[1] == "txsweep":
        return pty_txsweep(int(t[2]), int(t[3]), int(t[4]), int(t[5]), stats)
    if t[1] == "txp":
        return pty_txp(int(t[2]), int(t[3]), int(t[4]), int(t[5]), stats)
    if t[1] == "cfg":
        return pty_cfg(stats)
    if t[1] == "echo":
        return pty_echo(int(t[2]), int(t[3]), int(t[4]), stats)
    if t[1] == "restart-burst":
        return pty_restart_burst(int(t[2]), int(t[3]), int(t[4]), stats)
    raise ValueError(line)


def pty_case(line, stats=None):
    """one pty experiment, run under the scheduling-latency monitor.

    A verdict that does not rest on real time (bytes altered, reordered or missing although every write returned and the line
    was found empty; wrong settings read back; an exception other than a time-out) is returned at once, whatever the
    machine was doing.  A verdict marked `depends_on_time` (a read that took too long, a write time-out against a paced reader, every
    outcome of a client session with nxslib's 1 s time-outs) is a measurement only if, while it was taken, nothing that had
    been timed — the monitor thread's 5 ms sleeps, every paced sleep of the helper threads, all paced sleeps of one burst
    together — was later than LATE_LIMIT (0.25 s, a quarter of the time-outs involved).  Otherwise the run is INVALID: it is
    repeated after a pause of 0.5, 1.5, 3 s; when four runs in a row were invalid the experiment is DISCARDED — listed in the
    evidence (`coverage.pty.discarded_for_timing`, with what each run saw and how late things were) and not reported.  A
    time-dependent difference seen with clean timing is confirmed by one more run (as in round 3: a port that blocks or loses
    frames does so again), reported when a second clean run shows a difference too, and listed under `unconfirmed` when the next
    run passes."""
    hits = []       # time-dependent differences seen with clean timing
    dirty = []      # … seen while the machine was late
    while True:
        mon = LatencyMonitor()
        _MON[0] = mon
        try:
            with mon:
                v = pty_case_once(line, stats)
        finally:
            _MON[0] = None
        late = mon.worst()
        if stats is not None:
            tm = stats.setdefault("timing", {"limit_s": LATE_LIMIT, "max_lateness_s": 0.0, "experiments_later_than_limit": 0,
                                             "invalid_runs_repeated": 0, "unconfirmed": []})
            tm["max_lateness_s"] = round(max(tm["max_lateness_s"], late), 4)
            if late > LATE_LIMIT:
                tm["experiments_later_than_limit"] += 1
        if v is None:
            if stats is not None:
                stats["timing"]["invalid_runs_repeated"] += len(dirty)
                if hits:
                    stats["timing"]["unconfirmed"].append({"case": line, "key": hits[0].get("key"), "observed": str(hits[0].get("observed"))[:300]})
            return None
        if not v.pop("depends_on_time", False):
            v["timing_during_the_run"] = mon.report()
            v["depends_on_time"] = False
            return v
        v["timing_during_the_run"] = mon.report()
        if late <= LATE_LIMIT:
            hits.append(v)
            if len(hits) >= 2:
                v["depends_on_time"] = True
                v["first_observation"] = {"key": hits[0].get("key"), "observed": str(hits[0].get("observed"))[:300],
                                          "timing_during_the_run": hits[0]["timing_during_the_run"]}
                if dirty:
                    v["runs_discarded_for_timing"] = dirty
                return v
            continue
        dirty.append({"key": v.get("key"), "observed": str(v.get("observed"))[:300], "timing_during_the_run": v["timing_during_the_run"]})
        if len(dirty) > len(RETRY_PAUSES):
            if stats is not None:
                stats.setdefault("discarded_for_timing", []).append(
                    {"case": line, "invalid_runs": dirty,
                     **({"seen_once_with_clean_timing_not_confirmed": {"key": hits[0].get("key"), "observed": str(hits[0].get("observed"))[:300]}} if hits else {})})
            return None
        time.sleep(RETRY_PAUSES[len(dirty) - 1])


# =============================================================================================
# generators
# =============================================================================================

def gen_bytes(rng, big=False):
    r = rng.random()
    if big and r < 0.5:
        n = rng.choice([1023, 1024, 4095, 4096, 4097, 8192, rng.randrange(600, 8193)])
    elif r < 0.1:
        n = 0
    elif r < 0.8:
        n = rng.randrange(1, 12)
    elif r < 0.97:
        n = rng.randrange(12, 80)
    else:
        n = rng.randrange(80, 600)
    return bytes(rng.choice(CTRL) if rng.random() < 0.4 else rng.randrange(256) for _ in range(n))


def gen_history(rng, nops, big=False, drain=True):
    ops = []
    flight = 0
    for _ in range(nops):
        r = rng.random()
        if r < 0.18:
            ops.append("w:" + hexs(gen_bytes(rng, big)))
        elif r < 0.38:
            d = gen_bytes(rng, big)
            flight += len(d)
            ops.append("s:" + hexs(d))
        elif r < 0.58:
            k = rng.choice([0, 1, 1, 2, 3, 4, 7, max(1, flight // 2), flight, flight + 5, rng.randrange(0, flight + 2)])
            flight = max(0, flight - k)
            ops.append(f"o:{k}")
        elif r < 0.78:
            ops.append("r")
        elif r < 0.85:
            ops.append(f"t:{rng.choice([0, 1, 2, 3, 5, 16, 17, 100, 10000])}")
        elif r < 0.90:
            ops.append("g")
        elif r < 0.94:
            ops.append(rng.choice("eE"))
        elif r < 0.97:
            ops.append("D")
        else:
            ops.append(f"p:{rng.choice([0, 1, 2, 3, 4, 8, 16, 64, 255])}")
    if drain:
        ops += ["o:100000", "r", "r", "t:100000", "g"]
    return ops


# =============================================================================================
# the property
# =============================================================================================

class C18(Prop):
    id = "C18"
    lean_module = "NxsModel.Props.C18"
    level = "proof"
    rule = ("(a) random op histories (client write / set padding / read / read during an injected SerialException from "
            "`read` or from `in_waiting` — both exercise the `except serial.SerialException` branch of `_read` and nothing else — / drop_all; other end send / take; OS delivery of arbitrary prefixes in both "
            "directions), every byte value one at a time in both directions, paddings 0 1 2 3 4 8 16 64 255, bursts to 8192 "
            "bytes, executed on the real SerialDevice (own constructor) over a fake pyserial port and compared item by item "
            "and in the final buffer contents with the Lean pipe model; receive-path sessions (real CommHandler._recv_thread "
            "over the real SerialDevice over the fake port with a scheduled OS chunking, incl. frames of 4097..9000 bytes arriving in "
            "pieces with idle reads in between) compared with the model's frames; "
            "distinct = distinct line; non-trivial = some read or take returned bytes / some frame was extracted.  "
            "(b) extra_checks on a real pseudo-terminal, see coverage.pty")
    trusted_base = Prop.trusted_base + [
        "harness/translate_serial.py (facts of intf/serial.py, intf/iintf.py)",
        "the fake pyserial port of harness/props/C18.py stands for pyserial's documented read/in_waiting/write semantics "
        "on the success path; its injected errors are `serial.SerialException`s by construction (they exercise the handler of "
        "`_read`), not a rendering of how a real port fails",
        "NOT proved, measured on every run on a pty on this OS: pyserial 3.5 + the kernel tty layer behave as the FIFO pipe "
        "of the model (raw mode, no translation of control characters, no loss, no reordering)"]
    assumptions = [
        "the Lean theorems are about the FIFO-pipe abstraction of the link; byte transparency of pyserial + the kernel tty "
        "layer is measured on a pseudo-terminal on this OS (real threads, real time), not proved",
        "a pseudo-terminal stands in for a UART: baud rate, parity, framing errors and hardware flow control do not exist on it; "
        "that the port is opened 8N1 without flow control is therefore established statically (translator facts + theorem "
        "port_is_transparent_8n1 / port_settings_never_changed) and by reading the settings back from pyserial and termios",
        "errors: the model op `readError`, theorem `read_error_empty` (`rfl`: it restates the model) and the K ops `e` / `E` are about "
        "exactly the `except serial.SerialException` branch of `SerialDevice._read` (→ b'', nothing consumed). The property sentence does "
        "not mention errors and nothing here says a failing port yields empty reads: with pyserial 3.5 (posix) a hang-up of the other end "
        "of a real tty makes `in_waiting` raise OSError(EIO), a closed port TypeError; neither is a SerialException, both propagate out "
        "of `read()` (observation outside the property; recorded, not judged: coverage.pty.hangup_probe)",
        "the pty measurements run in real time. A verdict that rests on time (a slow read, a write time-out against a paced reader, the "
        "outcome of a session run with nxslib's 1 s time-outs) is accepted only from a run in which the scheduling-latency monitor saw "
        "nothing later than 0.25 s (monitor thread, paced sleeps of the helper threads, one paced burst as a whole), and only when a second "
        "such run shows a difference too; invalid runs are repeated up to 3 times and then discarded (coverage.pty.discarded_for_timing) — "
        "on a machine that stays overloaded the time-dependent part of the pty measurement is therefore NOT made (the fake-port correspondence, "
        "the theorems and the byte-level pty verdicts still are)",
        "write errors of the port are not modelled (SerialDevice._write lets them propagate). The port has a finite write "
        "timeout (1 s): a single write longer than the free tty buffer plus what the line takes in that time raises "
        "SerialTimeoutException after delivering an intact prefix (theorem write_longer_than_timeout_is_cut; measured: "
        "coverage.pty.write_timeouts_observed). Every burst the client produces (a request of ≤ 263 bytes padded to ≤ 510 bytes) is written whole on any line of "
        "5200 baud or more (theorem requests_written_whole)",
        "if no pseudo-terminal can be opened (coverage.pty_available = false) the check passes on the fake-port "
        "correspondence, the theorems and the pyserial-argument judgement alone",
        "reference device (harness/refdev.py) is a conforming NxScope device"]

    # ---- cases ---------------------------------------------------------------------------------------
    def cases(self, rng, tier):
        T = tier == "thorough"
        # idle / error corner cases
        for l in ("r", "r;r;r", "e", "E", "D", "s:aa;r", "s:aa;o:1;e;r", "s:aa;o:1;E;r;r", "s:0102;o:1;D;o:1;r",
                  "s:aabb;o:2;r;r", "e;s:01;o:1;e;E;r", "D;D", "s:0a0d;o:2;D;r"):
            yield f"pipe run 0 {l}", "corner"
        for p in (0, 4, 16):
            yield f"pipe run {p} w:01;w:0203;t:100;g;w:-;w:5506000255aa;t:3;g;t:100;g", "corner"
        # every byte value, one at a time, both directions (16 values per history)
        for base in range(0, 256, 16):
            ops = []
            for b in range(base, base + 16):
                ops += [f"s:{b:02x}", "o:1", "r", f"w:{b:02x}", "t:1", "g"]
            yield f"pipe run 0 {';'.join(ops)}", "each-byte"
        yield f"pipe run 0 s:{bytes(range(256)).hex()};o:100;r;o:100;r;o:100;r;w:{bytes(range(256)).hex()};t:256;g", "all-bytes"
        # padding sweep
        for p in ([0, 1, 2, 3, 4, 5, 7, 8, 16, 64, 255] if not T else range(0, 70)):
            for n in (0, 1, 3, 4, 5, 15, 16, 17, 33):
                yield f"pipe run {p} w:{hexs(bytes((i * 5 + 1) & 0xFF for i in range(n)))};t:1000;g;w:55;t:1000;g", "padding"
        for _ in range(12000 if T else 900):
            p = rng.choice([0, 0, 0, 4, 16, rng.choice([1, 2, 3, 8, 64, 255])])
            yield f"pipe run {p} {';'.join(gen_history(rng, rng.randrange(1, 40)))}", "random-history"
        for _ in range(40 if T else 6):
            yield f"pipe run {rng.choice([0, 4, 16])} {';'.join(gen_history(rng, rng.randrange(4, 14), big=True))}", "big-bursts"
        for _ in range(4000 if T else 400):
            s = gen_stream(rng, 5)
            ks = []
            left = len(s)
            while left > 0 and len(ks) < 60:
                k = rng.choice([0, 0, 1, 1, 2, 3, 4, 5, 7, rng.randrange(0, left + 1)])
                ks.append(k)
                left -= k
            if rng.random() < 0.3:
                ks = ks[:rng.randrange(0, len(ks) + 1)]
            yield f"pipe sess {','.join(map(str, ks)) or '-'} {hexs(s)}", "receive-session"
        # device frames longer than 4096 bytes that arrive in pieces with idle reads in between (the model driver is
        # quadratic in the length of such a line, hence few of them; up to 60006 bytes on the pty: `pty bigsession`)
        from ref import ref_frame
        for n in ([4097, 4100, 4500, 6000, 9000, rng.randrange(4097, 9000)] if T else [4097, rng.randrange(4098, 5000)]):
            fr = ref_frame(1, bytes(rng.randrange(256) for _ in range(n - 6))) + ref_frame(4, bytes(4))
            ks = []
            left = len(fr)
            while left > 0:
                k = rng.choice([0, 0, 700, 1500, 1500, 4000])
                ks.append(k)
                left -= k
            yield f"pipe sess {','.join(map(str, ks))} {hexs(fr)}", "long-frame-session"
        # how the port is opened for caller-supplied settings (`-` = the caller leaves the argument out);
        # last, so that the random cases above are the ones of earlier rounds for a given seed
        yield "pipe open - - -", "open-args"
        full = [(b, p, sb) for b in OPEN_BYTESIZES for p in OPEN_PARITIES for sb in OPEN_STOPBITS]
        part = [(b, p, sb) for b in OPEN_BYTESIZES + ("-",) for p in OPEN_PARITIES + ("-",) for sb in OPEN_STOPBITS + ("-",)
                if "-" in (b, p, sb) and (b, p, sb) != ("-", "-", "-")]
        for b, p, sb in full + (part if T else rng.sample(part, 6)):
            yield f"pipe open {b} {p} {sb}", "open-args"

    # ---- real code -----------------------------------------------------------------------------------
    def impl(self, line):
        t = line.split(" ")
        if t[1] == "run":
            items, port, dev, _ = run_history(int(t[2]), t[3].split(";"))
            return ("ok " + ",".join(items) + f" | pad={dev.write_padding} rxf={hexs(bytes(port.rx_flight))} "
                    f"rxw={hexs(bytes(port.rx_wait))} txf={hexs(bytes(port.tx_flight))} txw={hexs(bytes(port.tx_wait))}")
        if t[1] == "open":
            eff, extra = open_call(*open_line_args(t), positional=True)
            return open_canon(eff) + (" extra=" + ",".join(sorted(extra)) if extra else "")
        if t[1] == "sess":
            ks = [] if t[2] == "-" else [int(x) for x in t[2].split(",")]
            frames, _ = run_sess(ks, unhex(t[3]))
            return fstr(frames)
        raise ValueError(line)

    def nontrivial(self, line, out):
        if line.startswith("pipe sess"):
            return out != "ok -"
        if line.startswith("pipe open"):
            return out.startswith("ok bits=")
        return re.search(r"[rdg]!?=[0-9a-f]", out) is not None

    # ---- the property on the real code -----------------------------------------------------------------
    def oracle(self, line, impl_out=None):
        t = line.split(" ")
        if t[0] == "pty":
            try:
                return pty_case(line)      # (`pty cfg` judges the arguments handed to pyserial even without a tty)
            except OSError as e:
                if getattr(e, "errno", None) in (2, 6, 13, 19) or "pty" in str(e).lower():
                    return None     # no pseudo-terminal in this sandbox
                raise
        if t[1] == "open":
            b, p, sb = open_line_args(t)
            v = judge_open(b, p, sb)
            if v is None and sb == 1:
                import serial
                v = judge_open(b, p, serial.STOPBITS_ONE_POINT_FIVE)     # pyserial's third spelling; not a model value
            return v
        if t[1] == "sess":
            ks = [] if t[2] == "-" else [int(x) for x in t[2].split(",")]
            d = unhex(t[3])
            frames, port = run_sess(ks, d)
            want = ref_scan(d)
            if frames != want:
                return {"key": "session-differs-from-ideal", "what": "frames extracted over the port differ from a scan of the bytes sent",
                        "expected": fstr(want), "observed": fstr(frames), "os_chunking": t[2]}
            if port.idle_blocked:
                return {"key": "idle-read-blocks", "what": "a read on an idle line asked the port for more bytes than were waiting",
                        "expected": "read size ≤ in_waiting", "observed": "pyserial would wait for the port timeout"}
            return None
        pad = int(t[2])
        ops = t[3].split(";")
        # make the history decisive: deliver and read everything at the end
        total_rx = sum(len(unhex(o[2:])) for o in ops if o.startswith("s:"))
        tail = ["o:%d" % (total_rx + 1)] + ["r"] * 3 + ["t:100000000", "g"]
        items, port, dev, rec = run_history(pad, ops + tail)
        sent = b""
        got = b""
        peer = b""
        want_tx = b""
        p = pad
        ri = 0
        for op, it in zip(ops + tail, items):
            k, _, a = op.partition(":")
            if it.startswith("x="):
                if k in ("r", "e", "E"):
                    ri += 1
                return {"key": "read-error-propagates" if k in ("e", "E") else "call-raises",
                        "what": f"`{op}` raised {it[2:]}" + (" — a port error during a read must become an empty read" if k in ("e", "E") else ""),
                        "expected": "b'' and the bytes stay available" if k in ("e", "E") else "no exception", "observed": it[2:], "history": ops}
            if k == "s":
                sent += unhex(a)
            elif k == "p":
                p = int(a)
            elif k == "w":
                want_tx += pad_expected(p, unhex(a))
            elif k == "g":
                peer += unhex(it[2:])
            elif k in ("r", "e", "E"):
                _, idle, res, blocked, idle_blocked = rec[ri]
                ri += 1
                got += res
                if idle and idle_blocked:
                    return {"key": "idle-read-blocks", "what": f"read on an idle line asked the port for more bytes than were waiting; "
                            f"pyserial then waits for the port timeout ({port.timeout} s)", "expected": "empty result at once",
                            "observed": "blocking read", "history": ops}
                if idle and res:
                    return {"key": "idle-read-nonempty", "what": "read on an idle line returned bytes", "expected": "-", "observed": hexs(res)}
                if k in ("e", "E") and res:
                    return {"key": "read-error-nonempty", "what": "read during a port error returned bytes", "expected": "-", "observed": hexs(res)}
            elif k == "D":
                got += unhex(it.split("=", 1)[1])
            if not sent.startswith(got):
                return {"key": "reads-not-prefix", "what": f"after `{op}` the concatenation of the reads is not a prefix of the bytes sent",
                        "expected": hexs(sent[:len(got)])[:200], "observed": hexs(got)[:200], "history": ops}
        # more reads until the line is drained (a port that reads in pieces needs several)
        for _ in range(len(sent) + 4):
            if not port.rx_wait:
                break
            got += dev.read()
        if got != sent:
            return {"key": "reads-incomplete", "what": "everything was delivered and read, yet the reads do not add up to the bytes sent",
                    "expected": hexs(sent)[:200], "observed": hexs(got)[:200], "history": ops}
        if peer != want_tx:
            return {"key": "write-altered", "what": "bytes arriving at the other end are not the writes, each padded with zeros to a "
                    "multiple of the padding and otherwise unchanged", "expected": diff_report(want_tx, peer), "observed": hexs(peer)[:200],
                    "history": ops}
        return None

    def search_cases(self, rng):
        for l in ("r", "s:aa;o:1;r;r", "s:aa;o:1;e;r", "s:aa;o:1;E;r", "w:01;w:0203", "s:0a0d1113;o:4;r"):
            for p in (0, 4, 16):
                yield f"pipe run {p} {l}", "search"
        for _ in range(200):
            yield f"pipe run {rng.choice([0, 4, 16])} {';'.join(gen_history(rng, rng.randrange(1, 25)))}", "search"

    # ---- real pseudo-terminal ----------------------------------------------------------------------------
    def pty_lines(self, rng, tier):
        """(line, essential): essential experiments always run; the random bursts after them run until the time
        budget of the tier is used up (the number actually run is in the evidence)"""
        T = tier == "thorough"
        yield "pty cfg", True
        yield f"pty idle {2000 if T else 300}", True
        yield "pty bytes", True
        sizes = [1, 2, 3, 7, 16, 255, 256, 1000, 4095, 4096, 4097, 8192]
        for i, n in enumerate(sizes):
            yield f"pty rx {rng.randrange(10**6)} {n} {[0, 1, 5][i % 3]}", True
        for i, n in enumerate(sizes):
            yield f"pty tx {[0, 4, 16][i % 3]} {rng.randrange(10**6)} {n}", True
        # bursts larger than the kernel tty buffer, in both directions (a non-blocking or partial write shows here)
        for n, pad in ((32768, 0), (65536, 16)) + (((262144, 4),) if T else ()):
            yield f"pty tx {pad} {rng.randrange(10**6)} {n}", True
            yield f"pty rx {rng.randrange(10**6)} {n} 0", True
        # write padding that is not a power of two (and 255, the largest a device can ask for): every burst 1..48
        for pad in (3, 5, 6, 7, 10, 12, 20, 24, 255) + ((9, 11, 13, 15, 17, 33, 100, 127, 254) if T else ()):
            yield f"pty txsweep {pad} 1 {96 if T else 48} {rng.randrange(10**6)}", True
        # the other end drains slowly.  Bursts the client itself produces (requests ≤ 263 bytes + padding ≤ 254) at rates
        # down to a 2400-baud line; a long burst the line takes within the write timeout; and one it does not (the write
        # must then raise, and what arrived must be an intact prefix — recorded in coverage.pty.write_timeouts_observed)
        for size, pad, rate in ((263, 255, 2000), (517, 0, 960), (64, 16, 240)) + (((263, 7, 480), (517, 12, 5000), (100, 3, 100)) if T else ()):
            yield f"pty txp {pad} {rng.randrange(10**6)} {size} {rate}", True
        yield f"pty txp 4 {rng.randrange(10**6)} 32768 200000", True
        yield f"pty txp 0 {rng.randrange(10**6)} 32768 10000", True
        if T:
            yield f"pty txp 16 {rng.randrange(10**6)} 65536 400000", True
            yield f"pty txp 0 {rng.randrange(10**6)} 20000 5000", True
        # full duplex: a burst larger than both tty queues against an echoing device that blocks on its own transmit side,
        # while another thread polls read(); bursts larger than the tty queue across a stop()/start() cycle of the interface
        yield f"pty echo 0 {rng.randrange(10**6)} 262144", True
        yield f"pty restart-burst 0 {rng.randrange(10**6)} 200000", True
        if T:
            yield f"pty echo 4 {rng.randrange(10**6)} 100001", True
            yield f"pty restart-burst 16 {rng.randrange(10**6)} 65537", True
        # device frames longer than the tty buffer / than 4096 bytes, written in paced pieces (idle reads fall inside them)
        yield f"pty bigsession 4 {rng.randrange(10**6)} -,4097,-,4200,9000,-,20000,60006,-", True
        if T:
            for pace in (0, 1, 2, 3, 4, 5):
                yield f"pty rx {rng.randrange(10**6)} 8192 {pace}", True
            for p in (0, 4, 16):
                yield f"pty session {p} 1000 {rng.randrange(10**6)}", True
            for p in (0, 3, 16, 255):
                plan = [rng.choice([None, 4096, 4097, 4098, 4099, 60006, rng.randrange(4097, 60007), rng.randrange(4097, 9000)]) for _ in range(12)]
                yield f"pty bigsession {p} {rng.randrange(10**6)} {','.join('-' if x is None else str(x) for x in plan)}", True
        else:
            yield f"pty session 4 200 {rng.randrange(10**6)}", True
        for _ in range(700 if T else 40):
            n = rng.choice([rng.randrange(1, 64), rng.randrange(1, 1024), rng.randrange(1, 8193)])
            yield f"pty rx {rng.randrange(10**6)} {n} {rng.choice([0, 0, 1, 2, 3, 5])}", False
            yield f"pty tx {rng.choice([0, 4, 16, 3, 5, 6, 7, 10, 12, 20, 24, 255])} {rng.randrange(10**6)} {n}", False

    def extra_checks(self, rng, tier, ev):
        cov = ev["coverage"]
        # what the real constructor asks of pyserial (judged in `pty cfg`, which needs no tty for this part)
        try:
            _, port = make_dev(0)
            cov["port_open_arguments"] = {"args": [repr(a) for a in port.args], "kwargs": {k: repr(v) for k, v in sorted(port.kw.items())}}
        except Exception as e:
            cov["port_open_arguments"] = f"constructor raised {type(e).__name__}: {e}"
        try:
            probe = PtyPort()
            probe.close()
            cov["pty_available"] = True
        except Exception as e:
            cov["pty_available"] = False
            cov["pty"] = (f"unavailable: {type(e).__name__}: {e} — NOTHING was measured on a tty in this run: byte transparency of "
                          "pyserial + the tty layer, idle-read timing and the session comparison rest on the fake port only")
            # the part of `pty cfg` that needs no tty is still judged
            st = {}
            try:
                v = pty_cfg(st)
            except OSError:
                v = None
            except Exception as e2:
                v = {"key": "pty-harness-exception", "what": f"{type(e2).__name__}: {e2}", "expected": "-", "observed": "-"}
            cov["port_open_settings"] = st
            if v:
                v["case"] = "pty cfg"
                return [v]
            return []
        stats = {"lines": 0, "kinds": {}, "rx_bytes": 0, "discarded_for_timing": []}
        viol = []
        t0 = time.time()
        samples = []
        budget = 100.0 if tier == "thorough" else 10.0     # seconds for the non-essential random bursts
        t_opt = None
        for line, essential in self.pty_lines(rng, tier):
            if not essential:
                if t_opt is None:
                    t_opt = time.time()
                if time.time() - t_opt > budget:
                    stats["random_bursts_skipped_for_time"] = stats.get("random_bursts_skipped_for_time", 0) + 1
                    continue
            k = line.split(" ")[1]
            stats["lines"] += 1
            stats["kinds"][k] = stats["kinds"].get(k, 0) + 1
            if len(samples) < 6 and k not in [s.split(" ")[1] for s in samples]:
                samples.append(line)
            if k == "rx":
                stats["rx_bytes"] += int(line.split(" ")[3])
            try:
                v = pty_case(line, stats)
            except Exception as e:
                v = {"key": "pty-harness-exception", "what": f"{type(e).__name__}: {e}", "expected": "-", "observed": "-"}
            if v:
                v["case"] = line
                viol.append(v)
                if "blocks" in v.get("key", ""):
                    stats["stopped"] = "reads block on this port: the remaining pty experiments were skipped"
                    break
                if len(viol) >= 3:
                    break
        try:
            stats["hangup_probe"] = pty_hangup_probe()
        except Exception as e:
            stats["hangup_probe"] = f"probe failed: {type(e).__name__}: {e}"
        ch = stats.pop("chunks", [])
        if ch:
            hist = {}
            for c in ch:
                b = 1 << (c.bit_length() - 1)
                hist[f"{b}..{2 * b - 1}"] = hist.get(f"{b}..{2 * b - 1}", 0) + 1
            stats["os_chunk_sizes_seen_by_reads"] = dict(sorted(hist.items(), key=lambda kv: int(kv[0].split(".")[0])))
            stats["nonempty_reads"] = len(ch)
        if "max_read_s" in stats:
            stats["max_read_s"] = round(stats["max_read_s"], 6)
        stats["wall_s"] = round(time.time() - t0, 2)
        stats["samples"] = samples
        stats["violations"] = len(viol)
        stats["what"] = ("real SerialDevice on the slave side of pty.openpty() through pyserial; helper threads on the master side; "
                         "real time. cfg = settings handed to pyserial / read back from the pyserial object and termios (8N1, raw, no "
                         "flow control), rx = other end → client bursts with paced writer, tx = client writes with padding (eager "
                         "reader), txsweep = every burst length on one port with a padding that is not a power of two, txp = client "
                         "writes with a reader paced to <rate> bytes/s, echo = one burst larger than both tty queues written while "
                         "another thread polls read() and the other end echoes (blocking on its own transmit side): everything out and "
                         "back unchanged, no read() call waits, restart-burst = start(); write(burst); stop(); start(); write(burst); "
                         "write(burst) with bursts larger than the tty queue, the other end taking bytes from 0.1 s after each write began: "
                         "a write that returned without exception delivered every byte, "
                         "bytes = all 256 values each way, idle = timed reads on an idle line, session = real CommHandler against "
                         "harness/refdev.RefDevice over the pty vs over an in-memory link, bigsession = the same with device stream "
                         "frames of the listed lengths (4097..60006 bytes) written in paced pieces. timing = scheduling latency seen "
                         "by the monitor during the experiments (limit 0.25 s for verdicts that depend on time); discarded_for_timing = "
                         "experiments whose time-dependent verdict was thrown away because no run had clean timing (NOT reported, NOT measured); "
                         "hangup_probe = what read/write do after the other end went away and on a closed port (recorded, not judged)")
        cov["pty"] = stats
        return viol


PROP = C18()
