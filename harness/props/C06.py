"""C06 — the device description read by the client equals the device's configuration."""
import random
import re
import struct
from common import Prop, hexs, unhex, exc_name
from ref import ref_frame

# what str.strip() removes (Unicode White_Space + the C0 separators 0x1c..0x1f), plus look-alikes it does not
WS = [" ", "\t", "\n", "\r", "\x0b", "\x0c", "\x1c", "\x1d", "\x1e", "\x1f", "\x85", "\xa0", "\u1680", "\u2000",
      "\u2003", "\u200a", "\u2028", "\u2029", "\u202f", "\u205f", "\u3000"]
NOT_WS = ["\u200b", "\u200d", "\u2060", "\ufeff", "\x7f", "\x01", "\x08", "\x1b", "\u180e"]
COMBINING = ["\u0300", "\u0301", "\u0308", "\u0327", "\u20d7", "\u3099", "\ufe0f", "\U000e0101"]
BMP = ["\xe9", "\xf1", "\xdf", "\xff", "\x80", "\u07ff", "\u0800", "\u540d", "\u524d", "\u20ac", "\ud7ff", "\ue000",
       "\ufffd", "\uffff", "\u03c9", "\xb0"]
ASTRAL = ["\U0001f642", "\U00010000", "\U0001f468", "\U0002a6d6", "\U000fffff", "\U00100000", "\U0010ffff", "\U0001d11e"]
NAMES = ["", "a", "chan0", "x" * 64, "\xe9", "\xf1and\xfa", "\u540d\u524d", "\U0001f642ok", "a b\tc", "tab\x01ctl", "\xff" * 7,
         " x", "x ", "\tx\n", " ", "  ", "\x1cx\x1f", "\x1c", "\x85x\xa0", "\xa0", "\u2003x\u3000", "e\u0301", "\u0301x",
         "\U0010ffff", "a\U00010000b", "\ufeffbom", "x\u2028", "\r\n", "Temperatur [\xb0C]", "\u03c9_ref", "\x7f"]
FRAME_NAME_MAX = 65524


def rand_name(r, maxlen=12):
    """a text without NUL: ASCII, white space (also at the ends / alone), controls, combining marks, 2-4 byte characters"""
    k = r.random()
    if k < 0.08:
        return r.choice(NAMES)
    n = r.randrange(0, maxlen + 1)
    pools = [WS, NOT_WS, COMBINING, BMP, ASTRAL, [chr(c) for c in range(0x21, 0x7f)]]
    w = r.choice([[1, 1, 1, 1, 1, 6], [3, 1, 1, 1, 1, 2], [1, 1, 3, 3, 3, 1], [0, 0, 0, 0, 0, 1], [1, 0, 0, 0, 0, 0]])
    s = "".join(r.choice(r.choices(pools, w)[0]) for _ in range(n))
    if r.random() < 0.06:
        s += chr(r.choice([r.randrange(1, 0xd800), r.randrange(0xe000, 0x110000)]))
    k = r.random()
    if k < 0.15:
        s = r.choice(WS) + s
    elif k < 0.30:
        s = s + r.choice(WS)
    elif k < 0.40:
        s = r.choice(WS) + s + r.choice(WS)
    return s


def long_name(r, nbytes):
    """a name whose UTF-8 encoding has exactly nbytes (>= 2) bytes, white space at both ends"""
    out, left = [], nbytes - 2
    while left > 0:
        c = r.choice(["z", "\xe9", "\u540d", "\U0001f642", "\u0301", "\t"])
        if len(c.encode()) <= left:
            out.append(c)
            left -= len(c.encode())
    s = " " + "".join(out) + "\n"
    assert len(s.encode()) == nbytes
    return s


BAD_UTF8 = [b"\xff", b"\xfe", b"\x80", b"\xbf", b"\xc3", b"\xe2\x82", b"\xf0\x9f\x99", b"\xc0\xaf", b"\xc1\xbf", b"\xc0\x80",
            b"\xe0\x80\xaf", b"\xe0\x9f\xbf", b"\xf0\x80\x80\xaf", b"\xf0\x8f\xbf\xbf", b"\xed\xa0\x80", b"\xed\xbf\xbf",
            b"\xed\xa0\xbd\xed\xb9\x82", b"\xf4\x90\x80\x80", b"\xf5\x80\x80\x80", b"\xf8\x88\x80\x80\x80", b"\xc3\x28",
            b"\xe2\x28\xa1", b"\xe2\x82\x28", b"\xf0\x28\x8c\xbc", b"\xf0\x90\x28\xbc", b"\xf0\x28\x8c\x28", b"\xc3\xc3\xa9",
            b"\xe2\x82\xac\x80", b"\xa9\xc3"]
GOOD_EDGE = [b"\x7f", b"\xc2\x80", b"\xdf\xbf", b"\xe0\xa0\x80", b"\xed\x9f\xbf", b"\xee\x80\x80", b"\xef\xbf\xbf",
             b"\xf0\x90\x80\x80", b"\xf4\x8f\xbf\xbf", b"\xf1\x80\x80\x80", b"\xec\xbf\xbf", b"\xe1\x80\x80", b"\xf3\xbf\xbf\xbf"]


def rand_bytes_utf8ish(r):
    """byte strings around the borders of well-formed UTF-8: random bytes, valid text with one byte damaged / dropped /
    inserted, lead bytes with random continuations"""
    k = r.randrange(7)
    if k == 0:
        return bytes(r.randrange(256) for _ in range(r.randrange(0, 7)))
    if k == 1:
        return bytes(r.choice([0x00, 0x41, 0x7f, 0x80, 0x8f, 0x90, 0x9f, 0xa0, 0xbf, 0xc0, 0xc1, 0xc2, 0xdf, 0xe0, 0xe1, 0xec, 0xed,
                               0xee, 0xef, 0xf0, 0xf1, 0xf3, 0xf4, 0xf5, 0xf7, 0xf8, 0xff]) for _ in range(r.randrange(1, 6)))
    if k == 2:
        lead = r.choice([0xc0, 0xc1, 0xc2, 0xdf, 0xe0, 0xe1, 0xec, 0xed, 0xee, 0xef, 0xf0, 0xf1, 0xf3, 0xf4, 0xf5])
        n = 1 if lead < 0xe0 else 2 if lead < 0xf0 else 3
        return bytes([lead] + [r.choice([0x7f, 0x80, 0x8f, 0x90, 0x9f, 0xa0, 0xbf, 0xc0]) for _ in range(r.choice([n, n, n, n - 1, n + 1]))])
    b = bytearray(rand_name(r, 6).encode() or b"a")
    if k == 3:
        b[r.randrange(len(b))] = r.randrange(256)
    elif k == 4:
        del b[r.randrange(len(b))]
    elif k == 5:
        b.insert(r.randrange(len(b) + 1), r.choice([0x80, 0xbf, 0xc3, 0xe2, 0xf0, 0xff, 0x00]))
    else:
        b = bytearray(r.choice(GOOD_EDGE + BAD_UTF8)) + b
    return bytes(b)


def _mods():
    from nxslib.proto.parse import Parser
    from nxslib.proto.parserecv import ParseRecv
    from nxslib.proto.iparserecv import ParseRecvCb
    from nxslib.proto.iframe import DParseFrame, EParseId
    from nxslib.dev import Device, DeviceChannel
    return Parser, ParseRecv, ParseRecvCb, DParseFrame, EParseId, Device, DeviceChannel


# ---------------------------------------------------------------------------------------------------------------
# whole handshakes: the real client under the virtual-time runtime against the harness-owned reference device
# ---------------------------------------------------------------------------------------------------------------

def rand_chan(r, namelen=12):
    """every byte field over its whole range 0..255"""
    return dict(en=r.random() < 0.5, type=r.randrange(256), vdim=r.randrange(256), div=r.randrange(256),
                mlen=r.randrange(256), name=rand_name(r, namelen))


def rand_chmax(r):
    k = r.random()
    return 0 if k < 0.08 else 255 if k < 0.10 else r.randrange(40, 255) if k < 0.12 else r.randrange(1, 6) if k < 0.9 else r.randrange(6, 40)


def rand_byte(r):
    """0..255 with the borders and single bits favoured"""
    return r.choice([r.randrange(256), r.randrange(256), r.choice([0, 1, 2, 3, 4, 8, 16, 32, 64, 127, 128, 252, 253, 254, 255])])


def read_description(h):
    d = h.dev
    return (d.data.chmax, d.data.flags, d.data.rxpadding, d.data.div_supported, d.data.ack_supported,
            [(c.data.chan, c.data.en, c.data._type, c.data.vdim, c.data.div, c.data.mlen, c.data.name, c.data.dtype, c.data.critical)
             for c in (d.channel_get(i) for i in range(d.data.chmax))])


def want_description(chans, flags, rxpadding):
    """the property, from the configuration alone"""
    return (len(chans), flags, rxpadding, bool(flags & 1), bool(flags & 2),
            [(i, bool(c["en"]), c["type"], c["vdim"], c["div"], c["mlen"], c["name"], c["type"] & 0x1F, bool(c["type"] & 0x80))
             for i, c in enumerate(chans)])


VARIANT_RE = re.compile(r"([cn])(\d*)(?:L(\d+))?$")
LAT = 0.04      # answer latency of the late reference device (virtual seconds)


def parse_variant(variant):
    """<c|n>[write padding already configured][L<ms>] -> (client class letter, preset padding | None, first-answer delay | None)"""
    m = VARIANT_RE.match(variant)
    if not m:
        raise ValueError(variant)
    return m.group(1), (int(m.group(2)) if m.group(2) else None), (int(m.group(3)) / 1000.0 if m.group(3) else None)


def late_device(chans, flags, rxpadding, first_delay):
    """the reference device with an answer latency: every answer reaches the client LAT seconds after the request; the
    answer to the FIRST common-info request takes `first_delay` seconds (longer than the client's 1 s time-out, so the
    client asks again and gets two common-info responses).  Both answers are correct and complete; nothing else about
    the device differs from harness/refdev.py::RefDevice."""
    import refdev

    class LateDevice(refdev.RefDevice):
        def __init__(self, *a, **kw):
            self._rx = bytearray()
            self.pending = []
            self.seq = 0
            self.first_delay = first_delay
            super().__init__(*a, **kw)

        @property
        def rx(self):
            due = [x for x in self.pending if x[0] <= self.now() + 1e-9]
            if due:
                self.pending = [x for x in self.pending if x[0] > self.now() + 1e-9]
                for _, _, data in sorted(due, key=lambda x: (x[0], x[1])):
                    self._rx += data
            return self._rx

        @rx.setter
        def rx(self, v):
            self._rx = v

        def _send(self, fid, payload):
            d = LAT
            if fid == refdev.CMNINFO and self.first_delay is not None:
                d, self.first_delay = self.first_delay, None
            self.seq += 1
            self.pending.append((self.now() + d, self.seq, self.codec.create(fid, payload)))

    return LateDevice(chans, flags=flags, rxpadding=rxpadding)


def read_description2(h):
    """the description through the accessor of the handler itself (`NxscopeHandler.dev_channel_get`) when it has one"""
    if not hasattr(h, "dev_channel_get"):
        return None
    d = h.dev
    return (d.data.chmax, d.data.flags, d.data.rxpadding, d.data.div_supported, d.data.ack_supported,
            [(c.data.chan, c.data.en, c.data._type, c.data.vdim, c.data.div, c.data.mlen, c.data.name, c.data.dtype, c.data.critical)
             for c in (h.dev_channel_get(i) for i in range(d.data.chmax))])


def connect_once(chans, flags, rxpadding, variant="c"):
    """one connect() of a fresh client (variant: see parse_variant); returns (description tuple | exception, sim errors,
    description through the handler's own channel accessor | None)"""
    import vsim
    import refdev
    res = {}
    cls, preset, late = parse_variant(variant)

    def scenario(sim):
        from nxslib.nxscope import NxscopeHandler
        from nxslib.comm import CommHandler
        from nxslib.proto.parse import Parser
        if late is None:
            dev = refdev.RefDevice(chans, flags=flags, rxpadding=rxpadding)
        else:
            dev = late_device(chans, flags, rxpadding, late)
        link = refdev.make_link(sim, dev)
        if preset is not None:
            link.write_padding = preset
        h = NxscopeHandler(link, Parser()) if cls == "n" else CommHandler(link, Parser())
        try:
            h.connect()
            res["got"] = read_description(h)
            res["got2"] = read_description2(h)
        finally:
            h.disconnect()

    rr, sim = vsim.run_sim(scenario, real_limit=30.0)
    if isinstance(rr, BaseException):
        return rr, sim.errors, None
    return res.get("got"), sim.errors, res.get("got2")


def fmt_description(d):
    chmax, flags, rxp, divs, acks, chans = d
    cs = ";".join(f"{i},{int(en)},{ty},{vdim},{div},{mlen},{hexs(name.encode('utf-8'))},{dtype},{int(crit)}"
                  for i, en, ty, vdim, div, mlen, name, dtype, crit in chans) or "-"
    return f"ok {chmax} {flags} {rxp} {int(divs)} {int(acks)} {cs}"


def parse_connect_line(t):
    """info connect <variant> <flags> <rxp> <chans>"""
    chans = []
    if t[5] != "-":
        for c in t[5].split(";"):
            en, ty, vdim, div, mlen, nh = c.split(",")
            chans.append(dict(en=bool(int(en)), type=int(ty), vdim=int(vdim), div=int(div), mlen=int(mlen),
                              name=unhex(nh).decode("utf-8")))
    return t[2], int(t[3]), int(t[4]), chans


def connect_line(variant, flags, rxp, chans):
    cs = ";".join(f"{int(c['en'])},{c['type']},{c['vdim']},{c['div']},{c['mlen']},{hexs(c['name'].encode('utf-8'))}"
                  for c in chans) or "-"
    return f"info connect {variant} {flags} {rxp} {cs}"


def session_description(seed):
    """several sessions of the SAME client object; between sessions the device is reconfigured (same or different
    channel count); every byte field of the configuration is drawn from 0..255"""
    import vsim
    import refdev
    r = random.Random(seed)
    res = {}

    def rand_chans(n):
        return [rand_chan(r, 12 if n < 50 else 3) for _ in range(n)]

    def scenario(sim):
        from nxslib.nxscope import NxscopeHandler
        from nxslib.comm import CommHandler
        from nxslib.proto.parse import Parser
        n = rand_chmax(r)
        late = r.choice([1.02, 1.06, 1.08]) if r.random() < 0.35 else None
        if late is not None:
            # a device with an answer latency whose first common-info answer comes after the client's time-out; asks
            # for no rx padding, or for exactly the padding the interface already has, half of the time
            n = max(n, 2) if n < 40 else n
            rxp = r.choice([0, 0, 8, rand_byte(r)])
            dev = late_device(rand_chans(n), rand_byte(r), rxp, late)
        else:
            rxp = rand_byte(r)
            dev = refdev.RefDevice(rand_chans(n), flags=rand_byte(r), rxpadding=rxp)
        link = refdev.make_link(sim, dev)
        if r.random() < 0.4:
            link.write_padding = r.choice([2, 8, 32, 255, rxp])   # a padding already configured on the interface
        high = r.random() < 0.5
        h = NxscopeHandler(link, Parser()) if high else CommHandler(link, Parser())
        res["history"] = [f"interface write padding before the first connect: {link.write_padding}"]
        if late is not None:
            res["history"].append(f"every answer of the device takes {LAT} s, the first common-info answer of a session {late} s")
        for session in range(r.randrange(2, 4)):
            h.connect()
            got = read_description(h)
            got2 = read_description2(h)
            want = want_description(dev.chans, dev.flags, dev.rxpadding)
            if got != want or (got2 is not None and got2 != want):
                via = "" if got != want else " (read through NxscopeHandler.dev_channel_get)"
                res["bad"] = (session, want, got if got != want else got2, ("NxscopeHandler" if high else "CommHandler") + via)
                h.disconnect()
                return
            res["history"].append(f"session {session + 1} (read correctly, then disconnect): {want!r}"[:700])
            h.disconnect()
            # the device is reconfigured / replaced between sessions (after disconnect every channel is disabled)
            m = len(dev.chans) if r.random() < 0.6 else rand_chmax(r)
            if late is not None:
                m = max(m, 2)
                dev.first_delay = late if r.random() < 0.7 else None
                dev.pending = []
            dev.chans = rand_chans(m)
            dev.flags = rand_byte(r)
            dev.rxpadding = r.choice([0, rand_byte(r), dev.rxpadding])
            dev.silent = False

    rr, sim = vsim.run_sim(scenario, real_limit=40.0)
    if isinstance(rr, BaseException) or sim.errors:
        return {"key": "session-description", "seed": seed, "case": f"session seed={seed}",
                "what": "handshake session failed: " + repr(rr)[:300] + repr([(a, repr(b)[:200]) for a, b, _ in sim.errors]),
                "expected": "-", "observed": "-"}
    if "bad" in res:
        k, want, got, cls = res["bad"]
        return {"key": "session-description", "seed": seed, "case": f"session seed={seed}",
                "what": f"after connect() number {k + 1} of the same {cls} object the reported Device/DeviceChannel data "
                        f"differ from the configuration of the (conforming reference) device: {describe_diff(want, got)}",
                "expected": repr(want)[:1500], "observed": repr(got)[:1500], "history": res.get("history", [])}
    return None


def dummy_session(seed):
    """sessions of one client object against nxslib's OWN simulated device (`intf/dummy.py::DummyDev`, i.e. the real
    device-side dispatcher and the real `frame_cmninfo_encode/frame_chinfo_encode` on long-lived `DeviceChannel`
    objects) built from a random configuration; between the connects the device's enable states / dividers change
    (written by the client before it disconnects, or set on the device's channel objects).  Judged: after every connect
    the client's description == the configuration the device holds at that moment.  Only the public constructor
    `DummyDev(chmax, flags, channels, rxpadding)` and the `.data` attributes of the channel objects handed to it are used."""
    import vsim
    r = random.Random(seed)
    res = {}

    def scenario(sim):
        from nxslib.nxscope import NxscopeHandler
        from nxslib.comm import CommHandler
        from nxslib.proto.parse import Parser
        from nxslib.intf.dummy import DummyDev
        from nxslib.dev import DeviceChannel
        n = r.choice([1, 2, 3, 4, 6, 9]) if r.random() < 0.9 else r.randrange(129, 256)
        cfg = [rand_chan(r, 12 if n < 50 else 3) for _ in range(n)]
        objs = [DeviceChannel(i, c["type"], c["vdim"], c["name"], en=c["en"], div=c["div"], mlen=c["mlen"]) for i, c in enumerate(cfg)]
        flags, rxp = rand_byte(r), rand_byte(r)
        intf = DummyDev(chmax=n, flags=flags, channels=objs, rxpadding=rxp)
        high = r.random() < 0.5
        h = NxscopeHandler(intf, Parser()) if high else CommHandler(intf, Parser())
        who = "NxscopeHandler" if high else "CommHandler"
        res["history"] = [f"DummyDev(chmax={n}, flags={flags}, rxpadding={rxp}, channels={cfg!r})"[:1200], f"client: {who}"]

        def held():
            """the configuration the device holds now: the immutable part as constructed, en / div from its channel objects"""
            return [dict(c, en=bool(o.data.en), div=int(o.data.div)) for c, o in zip(cfg, objs)]
        snaps = []
        try:
            for session in range(r.randrange(2, 5)):
                h.connect()
                got, got2 = read_description(h), read_description2(h)
                snaps.append([(bool(o.data.en), int(o.data.div)) for o in objs])
                want = want_description(held(), flags, rxp)
                if got != want or (got2 is not None and got2 != want):
                    via = "" if got != want else " (read through NxscopeHandler.dev_channel_get)"
                    res["bad"] = (session, want, got if got != want else got2, who + via)
                    return
                res["history"].append(f"connect {session + 1}: description read correctly (en/div held by the device: "
                                      f"{[(c['en'], c['div']) for c in held()][:12]})")
                k = r.random()
                if k < 0.5:
                    # the client configures channels, writes, and leaves
                    cs = sorted(set(r.randrange(n) for _ in range(r.randrange(1, 4))))
                    v = r.choice([1, 5, 128, 255])
                    try:
                        h.ch_enable(cs)
                        if flags & 1:
                            h.ch_divider(cs, v)
                        h.channels_write()
                        res["history"].append(f"client: ch_enable({cs}); " + (f"ch_divider({cs}, {v}); " if flags & 1 else "")
                                              + "channels_write(); disconnect()")
                    except Exception as e:   # the request path is C05's / C07's business, not judged here
                        res["history"].append(f"client: configuring channels {cs} raised {type(e).__name__}; disconnect()")
                    h.disconnect()
                    if r.random() < 0.5:
                        # ... and the device goes back to a state it was in at an earlier connect (the answers of that
                        # connect are then repeated byte for byte, while the client has since written into what it read)
                        back = r.choice(snaps)
                        for o, (e, d) in zip(objs, back):
                            o.data.en, o.data.div = e, d
                        res["history"].append(f"device channels set back to the (en, div) they had at an earlier connect: {back[:12]}")
                else:
                    h.disconnect()
                    # the device's state changes while nobody is connected
                    ch = []
                    for i in sorted(set(r.randrange(n) for _ in range(r.randrange(1, 4)))):
                        objs[i].data.en = r.random() < 0.7
                        objs[i].data.div = r.choice([0, 1, 5, 128, 255])
                        ch.append((i, objs[i].data.en, objs[i].data.div))
                    res["history"].append(f"disconnect(); device channel (id, en, div) set to {ch}")
        finally:
            try:
                h.disconnect()
            finally:
                intf.stop = lambda: None      # a late __del__ must not touch the simulation's primitives

    rr, sim = vsim.run_sim(scenario, real_limit=40.0)
    if isinstance(rr, BaseException) or sim.errors:
        return {"key": "dummy-session-description", "seed": seed, "case": f"dummy session seed={seed}",
                "what": "handshake session against DummyDev failed: " + repr(rr)[:300] + repr([(a, repr(b)[:200]) for a, b, _ in sim.errors]),
                "expected": "-", "observed": "-", "history": res.get("history", [])}
    if "bad" in res:
        k, want, got, cls = res["bad"]
        return {"key": "dummy-session-description", "seed": seed, "case": f"dummy session seed={seed}",
                "what": f"after connect() number {k + 1} of the same {cls} object to nxslib's simulated device (DummyDev) the "
                        f"reported Device/DeviceChannel data differ from the configuration the device holds: {describe_diff(want, got)}",
                "expected": repr(want)[:1500], "observed": repr(got)[:1500], "history": res.get("history", [])}
    return None


def mutated_redecode(seed):
    """ONE Parser decodes a channel-info response, the caller assigns the two writable fields of the record it got
    (enable, divider — what the client itself does after an acknowledged request), and the SAME response is decoded
    again: the second result must again be what is on the wire, and a record handed out earlier must not change."""
    Parser, ParseRecv, ParseRecvCb, _, _, _, DeviceChannel = _mods()
    r = random.Random(seed)
    from nxslib.proto.serialframe import SerialFrame
    ps = Parser()
    nop = lambda d: None   # noqa: E731
    R = ParseRecv(ParseRecvCb(nop, nop, nop, nop, nop))
    sf = SerialFrame()
    for k in range(12):
        c = rand_chan(r, 8)
        chan = r.randrange(0, 4)
        enc = R.frame_chinfo_encode(DeviceChannel(chan, c["type"], c["vdim"], c["name"], en=c["en"], div=c["div"], mlen=c["mlen"]))
        fr = sf.frame_decode(enc)
        a = ps.frame_chinfo_decode(fr, chan)
        if a is None:
            continue
        first = (bool(a.data.en), int(a.data.div))
        new_en, new_div = (not first[0]), (first[1] + 1 + r.randrange(200)) % 256
        a.data.en, a.data.div = new_en, new_div
        b = ps.frame_chinfo_decode(sf.frame_decode(enc), chan)
        second = None if b is None else (bool(b.data.en), int(b.data.div))
        if second != first:
            return {"key": "redecode-after-assignment", "seed": seed, "case": f"redecode seed={seed} step={k}",
                    "what": f"one Parser decoded the channel-info response {hexs(enc)} for channel {chan} as (en, div) = {first}; the "
                            f"caller assigned en={new_en}, div={new_div} to the record it was given; the same response decoded "
                            "again by the same Parser no longer gives what is on the wire",
                    "expected": repr(first), "observed": repr(second)}
        if (bool(a.data.en), int(a.data.div)) != (new_en, new_div):
            return {"key": "redecode-after-assignment", "seed": seed, "case": f"redecode seed={seed} step={k}",
                    "what": "decoding a response changed a record handed out by an earlier decode",
                    "expected": repr((new_en, new_div)), "observed": repr((bool(a.data.en), int(a.data.div)))}
    return None


def describe_diff(want, got):
    names = ["chmax", "flags", "rxpadding", "div_supported", "ack_supported"]
    out = [f"{n}: configured {w!r}, client reports {g!r}" for n, w, g in zip(names, want[:5], got[:5]) if w != g]
    fn = ["chan", "en", "type", "vdim", "div", "mlen", "name", "dtype", "critical"]
    if len(want[5]) != len(got[5]):
        out.append(f"{len(want[5])} channels configured, {len(got[5])} reported")
    for cw, cg in zip(want[5], got[5]):
        for n, w, g in zip(fn, cw, cg):
            if w != g:
                out.append(f"channel {cw[0]} {n}: configured {w!r}, client reports {g!r}")
    return "; ".join(out[:4])


class C06(Prop):
    id = "C06"
    lean_module = "NxsModel.Props.C06"
    rule = ("cmninfo / chinfo / ack encode (device side) and decode (client side): all 256 values of each one-byte "
            "field with the others random, names = random texts (ASCII, white space also at the ends or alone, C0 "
            "controls, NEL/NBSP, combining marks, 2-4 byte characters, long to the frame limit) as bytes and as code "
            "points, with or without NUL terminator / padding / text after the NUL, name fields that are not "
            "well-formed UTF-8 (bad lead / continuation bytes, truncated, overlong, surrogates, > U+10FFFF, also after "
            "the NUL), validUtf8 / utf8Encode against CPython on random + structured strings, boundary and random "
            "32-bit return codes, short / wrong-kind frames, whole connect() handshakes of the real client against the "
            "reference device with every configuration byte from 0..255 (one device with 129..255 channels also in quick; a "
            "device with an answer latency whose first common-info answer comes after the client's time-out), sessions of one "
            "client object against the reconfigured reference device and against nxslib's own DummyDev whose enable states / "
            "dividers change between the connects, read through Device.channel_get and NxscopeHandler.dev_channel_get; "
            "channel-info responses are judged by the values an independent decoder and the client read from them (a NUL "
            "terminator after the name is allowed), not byte by byte; distinct = distinct (op,input); non-trivial = all")

    def __init__(self):
        Parser, ParseRecv, ParseRecvCb, self.DParseFrame, self.EParseId, self.Device, self.DeviceChannel = _mods()
        self.P = Parser()
        n = lambda d: None
        self.R = ParseRecv(ParseRecvCb(n, n, n, n, n))

    def cases(self, rng, tier):
        T = tier == "thorough"
        for v in range(256):
            a, b = rng.randrange(256), rng.randrange(256)
            yield f"info cmn {v} {a} {b}", "cmn"
            yield f"info cmn {a} {v} {b}", "cmn"
            yield f"info cmn {a} {b} {v}", "cmn"
            yield f"info dcmn 2 {hexs(bytes([v, a, b]))}", "dcmn"
            yield f"info dcmn 2 {hexs(bytes([a, v, b]))}", "dcmn"
            yield f"info dcmn 2 {hexs(bytes([a, b, v]))}", "dcmn"
        for line in ["info cmn 256 0 0", "info cmn -1 0 0", "info dcmn 2 0102", "info dcmn 2 -", "info dcmn 3 010203",
                     "info dcmn 2 01020304", "info dch 2 0102030405", "info dch 3 01020304", "info dch 3 -",
                     "info dack 4 010203", "info dack 4 0102030405", "info dack 5 01020304", "info dack 4 -"]:
            yield line, "malformed"
        for field in range(5):
            for v in range(256):
                vals = [rng.randrange(2), rng.randrange(256), rng.randrange(256), rng.randrange(256), rng.randrange(256)]
                vals[field] = v if field else v % 2
                name = rand_name(rng)
                nb = name.encode()
                yield f"info ch {vals[0]} {vals[1]} {vals[2]} {vals[3]} {vals[4]} {hexs(nb)}", "ch"
                yield (f"info cht {vals[0]} {vals[1]} {vals[2]} {vals[3]} {vals[4]} "
                       f"{','.join(str(ord(c)) for c in name) or '-'}"), "cht"
                tail = rng.choice([b"", b"", b"\0", b"\0\0\0", b"\0" + rand_name(rng, 4).encode(), b"\0x\0y"])
                raw = bytes([v if field == 0 else vals[0]] + vals[1:]) + nb + tail
                yield f"info dch 3 {hexs(raw)}", "dch"
        longs = [long_name(rng, 1000), "\xe9" * 3000, long_name(rng, FRAME_NAME_MAX), " " * FRAME_NAME_MAX,
                 "z" * FRAME_NAME_MAX, "\U0001f642" * (FRAME_NAME_MAX // 4)] + (["z" * (FRAME_NAME_MAX + 1), long_name(rng, 40000)] if T else [])
        for name in NAMES + longs:
            nb = name.encode()
            yield f"info ch 1 138 3 200 1 {hexs(nb)}", "ch-name"
            yield f"info dch 3 {hexs(bytes([1, 138, 3, 200, 1]) + nb)}", "dch-name"
            yield f"info dch 3 {hexs(bytes([1, 138, 3, 200, 1]) + nb + b'\\0')}", "dch-name-nul"
        # name fields that are not (or just are) well-formed UTF-8, alone / inside a name / after the NUL
        hdr = bytes([1, 138, 3, 200, 1])
        for bad in BAD_UTF8 + GOOD_EDGE:
            for pre, post in ((b"", b""), (b"ab", b"cd"), (b"ok\0", b""), (b"\xc3\xa9\0\0", b"\0"), (b"", b"\0tail")):
                yield f"info dch 3 {hexs(hdr + pre + bad + post)}", "dch-utf8"
        for _ in range(600 if T else 150):
            yield f"info dch 3 {hexs(hdr + rand_bytes_utf8ish(rng))}", "dch-utf8"
        # the validator and the encoder themselves against CPython's codec
        for b in BAD_UTF8 + GOOD_EDGE:
            yield f"info utf8 {hexs(b)}", "utf8"
        for lead in range(0x80, 0x100):
            for c1 in (0x7f, 0x80, 0x8f, 0x90, 0x9f, 0xa0, 0xbf, 0xc0):
                yield f"info utf8 {hexs(bytes([lead, c1, 0x80, 0x80]))}", "utf8"
                yield f"info utf8 {hexs(bytes([lead, c1, 0xbf])[:2 + (lead >= 0xe0)])}", "utf8"
        for _ in range(6000 if T else 2500):
            yield f"info utf8 {hexs(rand_bytes_utf8ish(rng))}", "utf8"
        cps = [0, 1, 0x7f, 0x80, 0x7ff, 0x800, 0xfff, 0x1000, 0xd7ff, 0xd800, 0xdbff, 0xdc00, 0xdfff, 0xe000, 0xfffd, 0xffff,
               0x10000, 0x3ffff, 0x40000, 0xfffff, 0x100000, 0x10ffff]
        for cp in cps + [rng.randrange(0x110000) for _ in range(400 if T else 150)]:
            yield f"info enc {cp}", "enc"
            yield f"info enc 97,{cp},{rng.choice(cps)}", "enc"
        for line in ["info ch 1 256 0 0 0 -", "info ch 1 0 256 0 0 -", "info ch 1 0 0 -1 0 -", "info ch 1 0 0 0 300 -",
                     "info cht 1 2 3 4 5 97,55296", "info cht 1 2 3 4 5 56320,97", "info cht 1 2 3 4 5 97,0,98",
                     "info cht 1 256 0 0 0 97"]:
            yield line, "malformed"
        rs = [0, 1, -1, 2, -2, 127, 128, 255, 256, 32767, 32768, 65535, 65536, 2**31 - 1, -2**31, 2**31, -2**31 - 1, 22, -22]
        rs += [rng.randrange(-2**31, 2**31) for _ in range(300 if T else 60)]
        for r in rs:
            yield f"info ack {r}", "ack"
            if -2**31 <= r < 2**31:
                yield f"info dack 4 {hexs(struct.pack('<i', r))}", "dack"
        # whole handshakes: every configuration byte from 0..255
        for k in range(80 if T else 16):
            # k = 3: a device with more than 128 channels (channel ids with the top bit set) also in the quick tier
            n = [0, 1, 2, 255 if T else rng.randrange(129, 256)][k] if k < 4 else rand_chmax(rng)
            if n > 40 and not T and k >= 4:
                n = 7
            chans = [rand_chan(rng, 12 if n < 50 else 3) for _ in range(n)]
            if k == 5 and chans:
                chans[0]["name"] = long_name(rng, FRAME_NAME_MAX)
            variant = rng.choice(["c", "n"]) + rng.choice(["", "", "", "8", "255"])
            yield connect_line(variant, rand_byte(rng), rand_byte(rng), chans), "connect"
        # a device that asks for no rx padding behind an interface that already has a write padding (left over from
        # an earlier device / set by the user), and one that asks for exactly the padding already set
        for variant, rxp in (("c8", 0), ("n255", 0), ("c16", 16), ("n3", 200)):
            yield connect_line(variant, rand_byte(rng), rxp, [rand_chan(rng) for _ in range(rng.randrange(0, 3))]), "connect-preset-padding"
        # a device with an answer latency of LAT whose answer to the first common-info request comes after the client's
        # 1 s time-out (so that two common-info responses arrive), for the paddings above and an ordinary one
        for variant, rxp in (("cL1020", 0), ("nL1060", 0), ("c16L1080", 16), ("n8L1020", 0), ("cL1060", 32), ("nL1200", 0)) + \
                ((("c", 0), ("n", 0)) if not T else tuple((rng.choice("cn") + rng.choice(["", "8", "77"]) + f"L{rng.choice([1020, 1060, 1080, 1200])}",
                                                            rng.choice([0, 0, 8, 77, rand_byte(rng)])) for _ in range(30))):
            yield connect_line(variant, rand_byte(rng), rxp, [rand_chan(rng) for _ in range(rng.randrange(2, 6))]), "connect-late-answer"
        for v in ([1, 2, 4, 8, 16, 32, 64, 128, 255] if not T else range(0, 256, 5)):
            yield connect_line("c", v, 0, [rand_chan(rng)]), "connect-flags"
            yield connect_line("n", 3, v, [rand_chan(rng)]), "connect-rxpadding"

    def impl(self, line):
        t = line.split(" ")
        try:
            if t[1] == "utf8":
                # CPython's strict decoder itself (not nxslib): the reference `validUtf8` is validated against
                try:
                    unhex(t[2]).decode("utf-8", "strict")
                    return "ok 1"
                except UnicodeDecodeError:
                    return "ok 0"
            if t[1] == "enc":
                return "ok " + hexs("".join(chr(int(c)) for c in t[2].split(",")).encode("utf-8", "strict"))
            if t[1] == "connect":
                variant, flags, rxp, chans = parse_connect_line(t)
                got, errs, _ = connect_once(chans, flags, rxp, variant)
                if isinstance(got, BaseException):
                    return "err " + exc_name(got)
                if errs:
                    return "err thread:" + exc_name(errs[0][1])
                return fmt_description(got)
            if t[1] == "cmn":
                # Device asserts len(channels) == chmax; bypass with a light stand-in carrying .data
                class D:
                    pass
                d = D()
                d.data = D()
                d.data.chmax, d.data.flags, d.data.rxpadding = int(t[2]), int(t[3]), int(t[4])
                return "ok " + hexs(self.R.frame_cmninfo_encode(d))
            if t[1] in ("ch", "cht"):
                if t[1] == "ch":
                    name = unhex(t[7]).decode("utf-8")
                else:
                    name = "" if t[7] == "-" else "".join(chr(int(c)) for c in t[7].split(","))
                c = self.DeviceChannel(0, int(t[3]), int(t[4]), name, en=bool(int(t[2])), div=int(t[5]), mlen=int(t[6]))
                return "ok " + hexs(self.R.frame_chinfo_encode(c))
            if t[1] == "ack":
                return "ok " + hexs(self.R.frame_ack_encode(int(t[2])))
            fr = self.DParseFrame(int(t[2]) if int(t[2]) > 8 else self.EParseId(int(t[2])), unhex(t[3]))
            if t[1] == "dcmn":
                r = self.P.frame_cmninfo_decode(fr)
                if r is None:
                    return "ok none"
                from nxslib.dev import DDeviceData
                dd = DDeviceData(r.chmax, r.flags, r.rxpadding)
                return f"ok {r.chmax} {r.flags} {r.rxpadding} {int(dd.div_supported)} {int(dd.ack_supported)}"
            if t[1] == "dch":
                r = self.P.frame_chinfo_decode(fr, 0)
                if r is None:
                    return "ok none"
                d = r.data
                assert type(d.en) is bool and type(d.critical) is bool
                return (f"ok {int(d.en)} {d._type} {d.vdim} {d.div} {d.mlen} {hexs(d.name.encode('utf-8'))} {d.dtype} "
                        f"{int(d.critical)} {d.type_res} {int(d.is_valid)} {int(d.is_numerical)}")
            if t[1] == "dack":
                r = self.P.frame_ack_decode(fr)
                if r is None:
                    return "ok none"
                assert type(r.state) is bool
                return f"ok {int(r.state)} {r.retcode}"
        except Exception as e:
            return "err " + exc_name(e)
        raise ValueError(line)

    def extra_checks(self, rng, tier, ev):
        """whole handshakes under the virtual-time runtime: the description the client reports after connect
        equals the reference device's configuration — also on a reconnect of the SAME client object after the
        device's configuration (same or different channel count, rx padding) changed, and with a write padding
        already configured on the interface; every configuration byte from 0..255"""
        viol = []
        n = 0
        for _ in range(60 if tier == "thorough" else 14):
            v = session_description(rng.randrange(1 << 30))
            n += 1
            if v:
                viol.append(v)
                if len(viol) >= 3:
                    break
        ev["coverage"]["description_sessions"] = n
        # the same against nxslib's own simulated device (real device-side encoders on long-lived channel objects)
        n = 0
        for _ in range(40 if tier == "thorough" else 10):
            v = dummy_session(rng.randrange(1 << 30))
            n += 1
            if v:
                viol.append(v)
                if len([x for x in viol if x["key"] == v["key"]]) >= 3:
                    break
        ev["coverage"]["description_sessions_dummydev"] = n
        n = 0
        for _ in range(40 if tier == "thorough" else 10):
            v = mutated_redecode(rng.randrange(1 << 30))
            n += 1
            if v:
                viol.append(v)
                break
        ev["coverage"]["redecode_after_assignment_runs"] = n
        return viol

    def replay(self, obj):
        if obj.get("key") == "session-description":
            return session_description(obj["seed"])
        if obj.get("key") == "dummy-session-description":
            return dummy_session(obj["seed"])
        if obj.get("key") == "redecode-after-assignment":
            return mutated_redecode(obj["seed"])
        return self.oracle(obj["case"])

    def oracle(self, line, impl_out=None):
        """device-side encode -> client-side decode gives the configured values; responses are the NxScope encoding;
        after connect() the Device / DeviceChannel data are the configuration"""
        t = line.split(" ")
        Parser, ParseRecv, ParseRecvCb, DParseFrame, EParseId, Device, DeviceChannel = _mods()
        P = Parser()
        n = lambda d: None
        R = ParseRecv(ParseRecvCb(n, n, n, n, n))

        def bad(key, what, exp, obs):
            return {"key": key, "what": what, "expected": str(exp)[:1500], "observed": str(obs)[:1500]}
        if t[1] == "utf8":
            # judged as the name field of a channel-info response
            t = ["info", "dch", "3", hexs(bytes([1, 0x2a, 3, 200, 1]) + unhex(t[2]))]
        elif t[1] == "enc":
            t = ["info", "cht", "1", "202", "3", "200", "1", t[2]]
        try:
            if t[1] == "connect":
                variant, flags, rxp, chans = parse_connect_line(t)
                if not (0 <= flags <= 255 and 0 <= rxp <= 255 and len(chans) <= 255):
                    return None
                got, errs, got2 = connect_once(chans, flags, rxp, variant)
                want = want_description(chans, flags, rxp)
                cls, preset, late = parse_variant(variant)
                who = "NxscopeHandler" if cls == "n" else "CommHandler"
                dev = "the conforming device" + (f" (interface write padding already {preset})" if preset is not None else "") + \
                    (f" whose answers take {LAT} s and whose first common-info answer takes {late} s" if late is not None else "")
                if isinstance(got, BaseException) or errs:
                    return bad("connect-description", f"{who}.connect()/disconnect() against {dev} failed: "
                               f"{got!r} {[(a, repr(b)[:200]) for a, b, _ in errs]}", want, "-")
                if got != want:
                    return bad("connect-description", f"Device/DeviceChannel data after {who}.connect() against {dev} differ from "
                               f"the device's configuration: {describe_diff(want, got)}", want, got)
                if got2 is not None and got2 != want:
                    return bad("connect-description", f"channel data read through {who}.dev_channel_get() after connect() against "
                               f"{dev} differ from the device's configuration: {describe_diff(want, got2)}", want, got2)
            elif t[1] == "cmn":
                vals = [int(x) for x in t[2:5]]
                if not all(0 <= v <= 255 for v in vals):
                    return None
                class D:
                    pass
                d = D(); d.data = D()
                d.data.chmax, d.data.flags, d.data.rxpadding = vals
                f = R.frame_cmninfo_encode(d)
                if f != ref_frame(2, bytes(vals)):
                    return bad("cmninfo-bytes", "cmninfo response bytes", hexs(ref_frame(2, bytes(vals))), hexs(f))
                r = P.frame_cmninfo_decode(P.frame.frame_decode(f))
                if (r.chmax, r.flags, r.rxpadding) != tuple(vals):
                    return bad("cmninfo-rt", "cmninfo round trip", vals, (r.chmax, r.flags, r.rxpadding))
            elif t[1] == "dcmn" and int(t[2]) == 2:
                raw = unhex(t[3])
                if len(raw) != 3:
                    return None
                r = P.frame_cmninfo_decode(DParseFrame(EParseId(2), raw))
                from nxslib.dev import DDeviceData
                dd = DDeviceData(r.chmax, r.flags, r.rxpadding)
                got = (r.chmax, r.flags, r.rxpadding, dd.div_supported, dd.ack_supported)
                want = (raw[0], raw[1], raw[2], bool(raw[1] & 1), bool(raw[1] & 2))
                if got != want:
                    return bad("cmninfo-decode", "cmninfo decode (fields and divider / ACK support)", want, got)
            elif t[1] in ("ch", "cht"):
                en, ty, vdim, div, mlen = [int(x) for x in t[2:7]]
                if t[1] == "ch":
                    nb = unhex(t[7])
                    if 0 in nb:
                        return None
                    try:
                        name = nb.decode()
                    except UnicodeDecodeError:
                        return None
                else:
                    cps = [] if t[7] == "-" else [int(c) for c in t[7].split(",")]
                    if any(c == 0 or 0xd800 <= c < 0xe000 or c >= 0x110000 for c in cps):
                        return None       # not "a text without NUL"
                    name = "".join(chr(c) for c in cps)
                    nb = name.encode("utf-8")
                if not all(0 <= v <= 255 for v in (ty, vdim, div, mlen)) or len(nb) > FRAME_NAME_MAX:
                    return None
                c = DeviceChannel(7, ty, vdim, name, en=bool(en), div=div, mlen=mlen)
                want = (7, bool(en), ty, vdim, div, mlen, name, ty & 0x1F, bool(ty & 0x80))
                try:
                    f = R.frame_chinfo_encode(c)
                except Exception as e:
                    if len(nb) == FRAME_NAME_MAX:
                        return bad("chinfo-name-at-frame-limit", f"a channel whose name fills the frame exactly ({FRAME_NAME_MAX} "
                                   f"bytes of UTF-8, no room for a NUL terminator) cannot be described: the device-side encoder "
                                   f"raised {type(e).__name__}: {e}", "a channel-info response", exc_name(e))
                    raise
                # the response is judged by what it MEANS (the property allows a NUL terminator after the name), not byte by
                # byte: (1) read by the harness's own codec, (2) read by the client
                from refdev import SerialCodec
                fr = SerialCodec().decode_at(bytes(f), 0)
                if fr is None or fr[2] != len(f) or fr[0] != 3 or len(fr[1]) < 5:
                    return bad("chinfo-wire", "chinfo response is not one well-formed channel-info frame (start byte, length, "
                               "id 3, CRC, at least the five fixed bytes)", hexs(ref_frame(3, bytes([int(bool(en)), ty, vdim, div, mlen]) + nb))[:80],
                               hexs(f)[:80])
                pl = fr[1]
                try:
                    wire_name = pl[5:].decode("utf-8", "strict").split("\0")[0]
                except UnicodeDecodeError:
                    wire_name = None
                wire = (pl[0] != 0, pl[1], pl[2], pl[3], pl[4], wire_name)
                if wire != (bool(en), ty, vdim, div, mlen, name):
                    return bad("chinfo-wire", "chinfo response read by an independent decoder (five bytes, then the name as UTF-8 "
                               "up to a NUL terminator if there is one): (en, type, vdim, div, mlen, name)",
                               repr((bool(en), ty, vdim, div, mlen, name))[:700], repr(wire)[:700] + " from payload " + hexs(pl)[:80])
                r = P.frame_chinfo_decode(P.frame.frame_decode(f), 7).data
                got = (r.chan, r.en, r._type, r.vdim, r.div, r.mlen, r.name, r.dtype, r.critical)
                if got != want:
                    return bad("chinfo-rt", "chinfo round trip (fields and derived attributes)", want, got)
            elif t[1] == "dch" and int(t[2]) == 3:
                raw = unhex(t[3])
                if len(raw) < 5:
                    return None
                body = raw[5:]
                try:
                    text = body.decode("utf-8", "strict")
                except UnicodeDecodeError:
                    return None               # the name field is not a text: outside the property's quantifier
                nm = text.split("\0")[0]      # the name ends at the NUL terminator when there is one
                r = P.frame_chinfo_decode(DParseFrame(EParseId(3), raw), 1).data
                got = (r.en, r._type, r.vdim, r.div, r.mlen, r.name, r.dtype, r.critical)
                want = (raw[0] != 0, raw[1], raw[2], raw[3], raw[4], nm, raw[1] & 0x1F, bool(raw[1] & 0x80))
                if got != want:
                    return bad("chinfo-decode", "chinfo decode", want, got)
            elif t[1] == "ack":
                r = int(t[2])
                if not -2**31 <= r < 2**31:
                    return None
                f = R.frame_ack_encode(r)
                if f != ref_frame(4, struct.pack("<i", r)):
                    return bad("ack-bytes", "ack bytes", hexs(ref_frame(4, struct.pack("<i", r))), hexs(f))
                a = P.frame_ack_decode(P.frame.frame_decode(f))
                if (a.state, a.retcode) != ((r == 0), r):
                    return bad("ack-rt", "ack round trip", ((r == 0), r), (a.state, a.retcode))
            elif t[1] == "dack" and int(t[2]) == 4:
                raw = unhex(t[3])
                if len(raw) != 4:
                    return None
                r = struct.unpack("<i", raw)[0]
                a = P.frame_ack_decode(DParseFrame(EParseId(4), raw))
                if (a.state, a.retcode) != ((r == 0), r):
                    return bad("ack-decode", "ack decode", ((r == 0), r), (a.state, a.retcode))
        except Exception as e:
            return bad("raises", f"{type(e).__name__}: {e}", "no exception", exc_name(e))
        return None


PROP = C06()
