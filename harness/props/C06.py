"""C06 — the device description read by the client equals the device's configuration."""
import struct
from common import Prop, hexs, unhex, exc_name
from ref import ref_frame

NAMES = ["", "a", "chan0", "x" * 64, "é", "ñandú", "名前", "🙂ok", "a b\tc", "tab\x01ctl", "ÿ" * 7]


def _mods():
    from nxslib.proto.parse import Parser
    from nxslib.proto.parserecv import ParseRecv
    from nxslib.proto.iparserecv import ParseRecvCb
    from nxslib.proto.iframe import DParseFrame, EParseId
    from nxslib.dev import Device, DeviceChannel
    return Parser, ParseRecv, ParseRecvCb, DParseFrame, EParseId, Device, DeviceChannel


def session_description(seed):
    import random
    import vsim
    import refdev
    r = random.Random(seed)
    res = {}

    def rand_chans(n):
        out = []
        for i in range(n):
            t = r.choice([2, 3, 6, 10, 11, 12, 17, 18]) | r.choice([0, 0, 0x80, 0x20, 0x40, 0xE0])
            out.append(dict(en=r.random() < 0.4, type=t, vdim=r.randrange(1, 9), div=r.choice([0, 0, 5, 200, 255]),
                            mlen=r.choice([0, 0, 1, 4, 16]), name=r.choice(NAMES)[:20]))
        return out

    def scenario(sim):
        from nxslib.nxscope import NxscopeHandler
        from nxslib.comm import CommHandler
        from nxslib.proto.parse import Parser
        n = r.randrange(1, 6)
        dev = refdev.RefDevice(rand_chans(n), flags=r.randrange(4), rxpadding=r.choice([0, 0, 4, 16]))
        link = refdev.make_link(sim, dev)
        if r.random() < 0.4:
            link.write_padding = r.choice([2, 8, 32])        # a padding already configured on the interface
        high = r.random() < 0.5
        h = NxscopeHandler(link, Parser()) if high else CommHandler(link, Parser())
        for session in range(r.randrange(2, 4)):
            h.connect()
            d = h.dev
            got = (d.data.chmax, d.data.flags, d.data.rxpadding,
                   [(c.data.en, c.data._type, c.data.vdim, c.data.div, c.data.mlen, c.data.name, c.data.dtype, c.data.critical)
                    for c in (d.channel_get(i) for i in range(d.data.chmax))])
            want = (len(dev.chans), dev.flags, dev.rxpadding,
                    [(bool(c["en"]), c["type"], c["vdim"], c["div"], c["mlen"], c["name"], c["type"] & 0x1F, bool(c["type"] & 0x80))
                     for c in dev.chans])
            if got != want:
                res["bad"] = (session, want, got)
                h.disconnect()
                return
            h.disconnect()
            # the device is reconfigured / replaced between sessions (after disconnect every channel is disabled)
            m = len(dev.chans) if r.random() < 0.6 else r.randrange(1, 6)
            dev.chans = rand_chans(m)
            dev.flags = r.randrange(4)
            dev.rxpadding = r.choice([0, 0, 4, 16, dev.rxpadding])
            dev.silent = False

    rr, sim = vsim.run_sim(scenario, real_limit=30.0)
    if isinstance(rr, BaseException) or sim.errors:
        return {"key": "session-description", "seed": seed, "case": f"session seed={seed}",
                "what": "handshake session failed: " + repr(rr)[:300] + repr([(a, repr(b)[:200]) for a, b, _ in sim.errors]),
                "expected": "-", "observed": "-"}
    if "bad" in res:
        k, want, got = res["bad"]
        return {"key": "session-description", "seed": seed, "case": f"session seed={seed}",
                "what": f"in session {k + 1} of the same client object the reported description differs from the device's configuration",
                "expected": repr(want)[:600], "observed": repr(got)[:600]}
    return None


class C06(Prop):
    id = "C06"
    lean_module = "NxsModel.Props.C06"
    rule = ("cmninfo / chinfo / ack encode (device side) and decode (client side): all 256 values of each one-byte "
            "field with the others random, names from ASCII / 2-4 byte UTF-8 / long (to the frame limit), with or "
            "without trailing NUL, boundary and random 32-bit return codes, short / wrong-kind frames; "
            "distinct = distinct (op,input); non-trivial = all")

    def __init__(self):
        Parser, ParseRecv, ParseRecvCb, self.DParseFrame, self.EParseId, self.Device, self.DeviceChannel = _mods()
        self.P = Parser()
        n = lambda d: None
        self.R = ParseRecv(ParseRecvCb(n, n, n, n, n))

    def cases(self, rng, tier):
        T = tier == "thorough"
        for v in range(256):
            a, b = rng.randrange(256), rng.randrange(256)
            yield f"info cmn {v} {a} {b}", "cmn"
            yield f"info cmn {a} {v} {b}", "cmn"
            yield f"info cmn {a} {b} {v}", "cmn"
            yield f"info dcmn 2 {hexs(bytes([v, a, b]))}", "dcmn"
            yield f"info dcmn 2 {hexs(bytes([a, v, b]))}", "dcmn"
        for line in ["info cmn 256 0 0", "info cmn -1 0 0", "info dcmn 2 0102", "info dcmn 2 -", "info dcmn 3 010203",
                     "info dcmn 2 01020304", "info dch 2 0102030405", "info dch 3 01020304", "info dch 3 -",
                     "info dack 4 010203", "info dack 4 0102030405", "info dack 5 01020304", "info dack 4 -"]:
            yield line, "malformed"
        for field in range(5):
            for v in range(256):
                vals = [rng.randrange(2), rng.randrange(256), rng.randrange(256), rng.randrange(256), rng.randrange(256)]
                vals[field] = v if field else v % 2
                name = rng.choice(NAMES).encode()
                yield f"info ch {vals[0]} {vals[1]} {vals[2]} {vals[3]} {vals[4]} {hexs(name)}", "ch"
                raw = bytes([v if field == 0 else vals[0]] + vals[1:]) + name + bytes(rng.choice([0, 0, 1, 3]))
                yield f"info dch 3 {hexs(raw)}", "dch"
        for name in NAMES + ["n" * 1000, "é" * 3000] + (["z" * 65524, "z" * 65525] if T else ["z" * 65524]):
            nb = name.encode()
            yield f"info ch 1 138 3 200 1 {hexs(nb)}", "ch-name"
            yield f"info dch 3 {hexs(bytes([1, 138, 3, 200, 1]) + nb)}", "dch-name"
            yield f"info dch 3 {hexs(bytes([1, 138, 3, 200, 1]) + nb + b'\\0')}", "dch-name-nul"
        for line in ["info ch 1 256 0 0 0 -", "info ch 1 0 256 0 0 -", "info ch 1 0 0 -1 0 -", "info ch 1 0 0 0 300 -"]:
            yield line, "malformed"
        rs = [0, 1, -1, 2, -2, 127, 128, 255, 256, 32767, 32768, 65535, 65536, 2**31 - 1, -2**31, 2**31, -2**31 - 1, 22, -22]
        rs += [rng.randrange(-2**31, 2**31) for _ in range(300 if T else 60)]
        for r in rs:
            yield f"info ack {r}", "ack"
            if -2**31 <= r < 2**31:
                yield f"info dack 4 {hexs(struct.pack('<i', r))}", "dack"

    def impl(self, line):
        t = line.split(" ")
        try:
            if t[1] == "cmn":
                ch = [self.DeviceChannel(i, 2, 1, "c") for i in range(0)]
                # Device asserts len(channels) == chmax; bypass with a light stand-in carrying .data
                class D:
                    pass
                d = D()
                d.data = D()
                d.data.chmax, d.data.flags, d.data.rxpadding = int(t[2]), int(t[3]), int(t[4])
                return "ok " + hexs(self.R.frame_cmninfo_encode(d))
            if t[1] == "ch":
                name = unhex(t[7]).decode("utf-8")
                c = self.DeviceChannel(0, int(t[3]), int(t[4]), name, en=bool(int(t[2])), div=int(t[5]), mlen=int(t[6]))
                return "ok " + hexs(self.R.frame_chinfo_encode(c))
            if t[1] == "ack":
                return "ok " + hexs(self.R.frame_ack_encode(int(t[2])))
            fr = self.DParseFrame(int(t[2]) if int(t[2]) > 8 else self.EParseId(int(t[2])), unhex(t[3]))
            if t[1] == "dcmn":
                r = self.P.frame_cmninfo_decode(fr)
                if r is None:
                    return "ok none"
                from nxslib.dev import DDeviceData
                dd = DDeviceData(r.chmax, r.flags, r.rxpadding)
                return f"ok {r.chmax} {r.flags} {r.rxpadding} {int(dd.div_supported)} {int(dd.ack_supported)}"
            if t[1] == "dch":
                r = self.P.frame_chinfo_decode(fr, 0)
                if r is None:
                    return "ok none"
                d = r.data
                assert type(d.en) is bool and type(d.critical) is bool
                return (f"ok {int(d.en)} {d._type} {d.vdim} {d.div} {d.mlen} {hexs(d.name.encode('utf-8'))} {d.dtype} "
                        f"{int(d.critical)} {d.type_res} {int(d.is_valid)} {int(d.is_numerical)}")
            if t[1] == "dack":
                r = self.P.frame_ack_decode(fr)
                if r is None:
                    return "ok none"
                assert type(r.state) is bool
                return f"ok {int(r.state)} {r.retcode}"
        except Exception as e:
            return "err " + exc_name(e)
        raise ValueError(line)

    def extra_checks(self, rng, tier, ev):
        """whole handshakes under the virtual-time runtime: the description the client reports after connect
        equals the reference device's configuration — also on a reconnect of the SAME client object after the
        device's configuration (same or different channel count, rx padding) changed, and with a write padding
        already configured on the interface"""
        viol = []
        n = 0
        for _ in range(60 if tier == "thorough" else 12):
            v = session_description(rng.randrange(1 << 30))
            n += 1
            if v:
                viol.append(v)
                if len(viol) >= 3:
                    break
        ev["coverage"]["description_sessions"] = n
        return viol

    def replay(self, obj):
        if obj.get("key") == "session-description":
            return session_description(obj["seed"])
        return self.oracle(obj["case"])

    def oracle(self, line, impl_out=None):
        """device-side encode -> client-side decode gives the configured values; responses are the NxScope encoding"""
        t = line.split(" ")
        Parser, ParseRecv, ParseRecvCb, DParseFrame, EParseId, Device, DeviceChannel = _mods()
        P = Parser()
        n = lambda d: None
        R = ParseRecv(ParseRecvCb(n, n, n, n, n))

        def bad(key, what, exp, obs):
            return {"key": key, "what": what, "expected": str(exp), "observed": str(obs)}
        try:
            if t[1] == "cmn":
                vals = [int(x) for x in t[2:5]]
                if not all(0 <= v <= 255 for v in vals):
                    return None
                class D:
                    pass
                d = D(); d.data = D()
                d.data.chmax, d.data.flags, d.data.rxpadding = vals
                f = R.frame_cmninfo_encode(d)
                if f != ref_frame(2, bytes(vals)):
                    return bad("cmninfo-bytes", "cmninfo response bytes", hexs(ref_frame(2, bytes(vals))), hexs(f))
                r = P.frame_cmninfo_decode(P.frame.frame_decode(f))
                if (r.chmax, r.flags, r.rxpadding) != tuple(vals):
                    return bad("cmninfo-rt", "cmninfo round trip", vals, (r.chmax, r.flags, r.rxpadding))
            elif t[1] == "ch":
                en, ty, vdim, div, mlen = [int(x) for x in t[2:7]]
                nb = unhex(t[7])
                if not all(0 <= v <= 255 for v in (ty, vdim, div, mlen)) or len(nb) > 65524 or 0 in nb:
                    return None
                name = nb.decode()
                c = DeviceChannel(7, ty, vdim, name, en=bool(en), div=div, mlen=mlen)
                f = R.frame_chinfo_encode(c)
                exp = ref_frame(3, bytes([int(bool(en)), ty, vdim, div, mlen]) + nb)
                if f != exp:
                    return bad("chinfo-bytes", "chinfo response bytes", hexs(exp)[:80], hexs(f)[:80])
                r = P.frame_chinfo_decode(P.frame.frame_decode(f), 7).data
                got = (r.en, r._type, r.vdim, r.div, r.mlen, r.name, r.dtype, r.critical)
                want = (bool(en), ty, vdim, div, mlen, name, ty & 0x1F, bool(ty & 0x80))
                if got != want:
                    return bad("chinfo-rt", "chinfo round trip (fields and derived attributes)", want, got)
            elif t[1] == "dch" and int(t[2]) == 3:
                raw = unhex(t[3])
                if len(raw) < 5:
                    return None
                body = raw[5:]
                nm = body.split(b"\0")[0]
                try:
                    body.decode()
                except UnicodeDecodeError:
                    return None
                r = P.frame_chinfo_decode(DParseFrame(EParseId(3), raw), 1).data
                got = (r.en, r._type, r.vdim, r.div, r.mlen, r.name, r.dtype, r.critical)
                want = (raw[0] != 0, raw[1], raw[2], raw[3], raw[4], nm.decode(), raw[1] & 0x1F, bool(raw[1] & 0x80))
                if got != want:
                    return bad("chinfo-decode", "chinfo decode", want, got)
            elif t[1] == "ack":
                r = int(t[2])
                if not -2**31 <= r < 2**31:
                    return None
                f = R.frame_ack_encode(r)
                if f != ref_frame(4, struct.pack("<i", r)):
                    return bad("ack-bytes", "ack bytes", hexs(ref_frame(4, struct.pack("<i", r))), hexs(f))
                a = P.frame_ack_decode(P.frame.frame_decode(f))
                if (a.state, a.retcode) != ((r == 0), r):
                    return bad("ack-rt", "ack round trip", ((r == 0), r), (a.state, a.retcode))
        except Exception as e:
            return bad("raises", f"{type(e).__name__}: {e}", "no exception", exc_name(e))
        return None


PROP = C06()
