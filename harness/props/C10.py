"""C10 — connect and disconnect always terminate, whatever the link does."""
import struct
from common import Prop, exc_name
import vsim
import refdev
import sessionlib as sl

RESP = {"o": "ack", "s": "lost", "w": "wrong-frame", "h": "short"}


class ScriptPolicy:
    """per info request (cmninfo/chinfo, in order of arrival) the scripted response; other requests are acked"""

    def __init__(self, script, dflt):
        self.script = list(script)
        self.dflt = dflt

    def __call__(self, dev, kind, req):
        if kind in ("cmninfo", "chinfo"):
            c = self.script.pop(0) if self.script else self.dflt
            return RESP[c]
        return "ack"


def decode_writes(writes):
    out = []
    for w in writes:
        if not any(w):
            out.append(f"P{len(w)}")
            continue
        w = sl.strip_pad(w)
        fid = w[3]
        if fid == 5:
            out.append("S" if w[4] == 0 else "T")
        elif fid == 2:
            out.append("C")
        elif fid == 3:
            out.append(f"I{w[4]}")
        else:
            out.append(f"?{fid}")
    return out


def bound_tenths(chmax):
    return 8 + 6 * (10 + 8 + chmax * 6 * 10)


def run_connect(chmax, flags, rxp, script, dflt, high_level=False, link_hook=None, time_limit=20000.0):
    """returns dict(outcome, t, thr, intf, sent, t2, thr2, intf2, errors, exc)"""
    res = {}

    def scenario(sim):
        from nxslib.comm import CommHandler
        from nxslib.nxscope import NxscopeHandler
        from nxslib.proto.parse import Parser
        dev = refdev.RefDevice(sl.mk_chans([False] * chmax, [0] * chmax), flags=flags, rxpadding=rxp,
                               policy=ScriptPolicy(script, dflt))
        link = refdev.make_link(sim, dev)
        if link_hook:
            link_hook(sim, dev, link)
        h = NxscopeHandler(link, Parser()) if high_level else CommHandler(link, Parser())
        try:
            h.connect()
            d = h.dev.data
            res["outcome"] = f"connected {d.chmax} {d.flags} {d.rxpadding}"
        except (vsim.RealTimeLimit, vsim.TimeLimit, vsim.Spin, vsim.Deadlock):
            raise            # the simulation's own verdict (non-termination), not an outcome of connect
        except Exception as e:
            res["outcome"] = "raised " + exc_name(e)
        res["t"] = sim.now
        res["thr"] = int(bool(sim.live_tasks()))
        res["intf"] = int(link.started - link.stopped > 0)
        res["sent"] = decode_writes(link.writes)
        try:
            h.disconnect()
        except (vsim.RealTimeLimit, vsim.TimeLimit, vsim.Spin, vsim.Deadlock):
            raise
        except Exception as e:
            res["disc_exc"] = exc_name(e)
        res["t2"] = sim.now
        res["thr2"] = int(bool(sim.live_tasks()))
        res["intf2"] = int(link.started - link.stopped > 0)
        res["live"] = [t.name for t in sim.live_tasks()]

    r, sim = vsim.run_sim(scenario, time_limit=time_limit, real_limit=20.0)
    res["errors"] = [(n, repr(e)) for n, e, _ in sim.errors]
    if isinstance(r, BaseException):
        res["exc"] = f"{type(r).__name__}: {r}"
    return res


class C10(Prop):
    id = "C10"
    lean_module = "NxsModel.Props.C10"
    rule = ("fault scripts on the real CommHandler under the virtual-time runtime: per info request of the handshake the "
            "reference device answers correctly / stays silent / answers a wrong-kind frame / answers a short frame; "
            "exhaustive over the fault point and kind for device sizes 1..4 (thorough: ..6), all-silent, silent-from-k, "
            "rx padding; outcome, virtual elapsed time, request log, thread and interface state after connect and after "
            "disconnect are compared with the model.  extra_checks: residues of 1..3 header bytes, seeded noise, poison "
            "headers, at both handler levels, judged by the termination oracle (bounded virtual time, no live thread, "
            "no spin); distinct = distinct line; non-trivial = script with at least one fault")
    assumptions = ["time is virtual (timeout units); real elapsed time and blocking inside pyserial are outside the model",
                   "fault classes: finitely many bytes per request (a device streaming forever while ignoring stop is not covered)"]

    def cases(self, rng, tier):
        T = tier == "thorough"
        for chmax in range(1, (7 if T else 5)):
            nreq = 1 + chmax
            yield f"hs connect {chmax} 3 0 - o", "clean"
            yield f"hs connect {chmax} 3 0 - s", "all-silent"
            yield f"hs connect {chmax} 3 0 - w", "all-wrong"
            for k in range(nreq + 1):
                for f in "swh":
                    yield f"hs connect {chmax} 3 0 {'o' * k + f} o", f"one-fault-{f}"
                    yield f"hs connect {chmax} 3 0 {'o' * k or '-'} {f}", f"from-k-{f}"
                    yield f"hs connect {chmax} 3 8 {'o' * k + f + f} o", f"two-faults-{f}-pad"
        for _ in range(300 if T else 60):
            chmax = rng.randrange(1, 7)
            script = "".join(rng.choice("ooooswwh" if rng.random() < 0.7 else "oos") for _ in range(rng.randrange(0, 30)))
            yield f"hs connect {chmax} {rng.randrange(4)} {rng.choice([0, 0, 4, 16])} {script or '-'} {rng.choice('ooosw')}", "random"
        yield "hs connect 40 3 0 - o", "big"
        yield "hs connect 40 3 0 ooooooooooss s", "big-silent"

    def impl(self, line):
        t = line.split(" ")
        chmax, flags, rxp = int(t[2]), int(t[3]), int(t[4])
        script = "" if t[5] == "-" else t[5]
        r = run_connect(chmax, flags, rxp, script, t[6])
        if "exc" in r or r["errors"]:
            return "sim-failure " + r.get("exc", "") + repr(r["errors"])
        return (f"{r['outcome']} t={round(r['t'] * 10)} thr={r['thr']} intf={r['intf']} sent={' '.join(r['sent'][:len(r['sent'])])}"
                f" | t={round(r['t2'] * 10)} thr={r['thr2']} intf={r['intf2']} bound={bound_tenths(chmax)}")

    def nontrivial(self, line, out):
        t = line.split(" ")
        return any(c in t[5] + t[6] for c in "swh")

    def oracle(self, line, impl_out=None):
        t = line.split(" ")
        chmax, flags, rxp = int(t[2]), int(t[3]), int(t[4])
        script = "" if t[5] == "-" else t[5]
        r = run_connect(chmax, flags, rxp, script, t[6], time_limit=bound_tenths(chmax) / 10 + 50)
        return judge(r, chmax, f"script={t[5]} default={t[6]}")

    def extra_checks(self, rng, tier, ev):
        T = tier == "thorough"
        viol = []
        n = 0
        scen = []
        # residues: the link delivers 1..3 bytes of a header at some read and then behaves as scripted
        for chmax in (1, 3):
            for residue in (b"\x55", b"\x55\x06", b"\x55\x06\x00", b"\x00\x55", b"\x00\x00\x55"):
                for at_read in (0, 1, 2, 5):
                    for dflt in ("s", "o"):
                        for high in (False, True):
                            scen.append({"kind": "residue", "chmax": chmax, "blob": residue.hex(), "at": at_read,
                                         "dflt": dflt, "high": high, "prepend": True})
        # seeded noise and poison headers injected at the first reads
        for it in range(120 if T else 30):
            poison = it % 3 == 0
            blob = (bytes([0x55, rng.randrange(7, 256), rng.randrange(0, 3), rng.randrange(0, 9)]) if poison
                    else bytes(rng.choice([0x55, 0, 6, 7, rng.randrange(256)]) for _ in range(rng.randrange(1, 40))))
            scen.append({"kind": "poison" if poison else "noise", "chmax": rng.randrange(1, 5), "blob": blob.hex(),
                         "at": rng.randrange(0, 12), "dflt": rng.choice("oos"), "high": bool(it & 1), "prepend": False})
        for sc in scen:
            n += 1
            v = run_scenario(sc)
            if v and len(viol) < 5:
                viol.append(v)
        ev["coverage"]["fault_scenarios"] = n
        return viol

    def replay(self, obj):
        if "scenario_params" in obj:
            return run_scenario(obj["scenario_params"])
        return self.oracle(obj["case"])


def run_scenario(sc):
    """one termination scenario (bytes injected into the link at a given read), judged by the property"""
    blob = bytes.fromhex(sc["blob"])

    def hook(sim, dev, link):
        orig = link._read
        state = {"n": 0}

        def rd():
            state["n"] += 1
            if state["n"] == sc["at"] + 1:
                if sc["prepend"]:
                    dev.rx[0:0] = blob
                else:
                    dev.rx += blob
            return orig()
        link._read = rd
        link._fread = rd
    r = run_connect(sc["chmax"], 3, 0, "", sc["dflt"], high_level=sc["high"], link_hook=hook,
                    time_limit=bound_tenths(sc["chmax"]) / 10 + 50)
    v = judge(r, sc["chmax"], f"{sc['kind']}={sc['blob']} at read {sc['at']} default={sc['dflt']} high={sc['high']}")
    if v:
        v["scenario_params"] = sc
    return v


def judge(r, chmax, what, must_connect=False):
    """the property itself: bounded, no thread left, no spin"""
    if "exc" in r:
        return {"key": "does-not-terminate", "what": f"connect/disconnect did not terminate in the time budget ({what}): {r['exc']}",
                "expected": f"return or raise within {bound_tenths(chmax) / 10} s + disconnect", "observed": r["exc"], "scenario": what}
    if r["errors"] and any(k in r["errors"][0][1] for k in ("TimeLimit", "Spin", "Deadlock")):
        return {"key": "does-not-terminate", "what": f"connect/disconnect did not terminate in the time budget ({what}): {r['errors'][0]}",
                "expected": f"return or raise within {bound_tenths(chmax) / 10} s + disconnect", "observed": repr(r["errors"][0]), "scenario": what}
    if r["errors"]:
        return {"key": "thread-died", "what": f"library thread died ({what}): {r['errors'][0]}", "expected": "-", "observed": repr(r["errors"][0]), "scenario": what}
    if r["t"] * 10 > bound_tenths(chmax) + 1:
        return {"key": "connect-too-long", "what": f"connect took {r['t']:.1f} s ({what})", "expected": f"<= {bound_tenths(chmax) / 10}", "observed": r["t"], "scenario": what}
    if r["t2"] - r["t"] > 6.0:
        return {"key": "disconnect-too-long", "what": f"disconnect took {r['t2'] - r['t']:.1f} s ({what})", "expected": "<= 6 s", "observed": r["t2"] - r["t"], "scenario": what}
    if r["thr2"] or r["live"]:
        return {"key": "thread-left", "what": f"library thread left alive after disconnect ({what}): {r['live']}", "expected": "none", "observed": r["live"], "scenario": what}
    if r["outcome"].startswith("raised") and r["thr"]:
        return {"key": "thread-left-after-failed-connect", "what": f"receive thread running after connect raised ({what})",
                "expected": "none", "observed": "running", "scenario": what}
    return None


PROP = C10()
