"""C10 — connect and disconnect always terminate, whatever the link does.

Two kinds of cases:
 * driver lines (`hs connect …`, `hs sess …`): run on the real handlers under the virtual-time runtime AND on the Lean model
   (`Handshake.lean`), outputs compared (K); the same lines are judged by the termination oracle (`judge_session`, `judge`);
 * scenarios (`extra_checks`, dicts): faults the model does not predict exactly (sustained noise, residues at every request,
   chunking + noise, slow links, streaming devices), judged by the termination oracle only.
"""
import random
import struct
from common import Prop, exc_name
import vsim
import refdev
import sessionlib as sl

# script letters: what the device does with ONE request the client waits an answer for
#   o answer correctly / ACK        s nothing                       w a well-formed frame of another kind
#   h right kind, payload too short g the reference device's garbage blob (contains the decodable header 55 01 ff 00:
#   n an ACK frame with a non-zero code (NACK)                        a 65281-byte frame is announced, everything later is its body)
#   x noise without a start byte    u channel-info whose name is not UTF-8 (any other request: answered correctly)
#   r a well-formed STREAM frame without samples (the "wrong frame" that lands in the OTHER queue: R4-C-L1)
RESP = {"o": "ack", "s": "lost", "w": "wrong-frame", "h": "short", "g": "garbage", "n": "nack", "x": "noise", "u": "badname",
        "r": "wrong-stream"}
NOISE_X = bytes([0x13, 0x37, 0x00, 0xFF, 0x54])

LIB_THREADS = ("recv", "stream")


class ScriptPolicy:
    """per request the client WAITS on (cmninfo/chinfo always; start/enable/div only while `await_acks`, i.e. while the
    client knows the device and the device supports ACK) the next script letter; everything else is acknowledged.
    `inject[k] = (blob, where)`: when the k-th request (all kinds, from 0) arrives, `blob` is put on the wire
    before ('pre': in front of everything pending, 'mid': just before the answer) or after ('post') the answer."""

    def __init__(self, script, dflt, inject=None):
        self.script = list(script)
        self.dflt = dflt
        self.await_acks = False
        self.inject = dict(inject or {})
        self.nreq = 0
        self.post = None
        self.used = []          # letters consumed so far

    def letter(self):
        c = self.script.pop(0) if self.script else self.dflt
        self.used.append(c)
        return c

    def __call__(self, dev, kind, req):
        k = self.nreq
        self.nreq += 1
        inj = self.inject.get(k)
        if inj and inj[1] == "pre":
            dev.rx[0:0] = inj[0]
        elif inj and inj[1] == "mid":
            dev.rx += inj[0]
        act = self.action(dev, kind, req)
        if inj and inj[1] == "post":
            # the device object appends its answer after we return: remember the tail and let the link add it
            self.post = inj[0]
        return act

    def action(self, dev, kind, req):
        info = kind in ("cmninfo", "chinfo")
        if not info and not (self.await_acks and dev.ack_supported()):
            return "ack"
        c = self.letter()
        if c == "n":
            if info:
                dev._send(refdev.ACK, struct.pack("<i", 5))
                return "lost"
            return ("nack", 5)
        if c == "x":
            dev.rx += NOISE_X
            return "lost"
        if c == "r":
            dev._send(refdev.STREAM, b"\x00")          # flags byte only: decodes to no samples for any device
            return "lost"
        if c == "u":
            if kind == "chinfo":
                dev._send(refdev.CHINFO, bytes([0, 10, 1, 0, 0]) + b"temp\xb0C")
                return "lost"
            return "ack"
        return RESP[c]


def decode_writes(writes):
    out = []
    for w in writes:
        if not any(w):
            out.append(f"P{len(w)}")
            continue
        w = sl.strip_pad(w)
        fid = w[3]
        if fid == 5:
            out.append("S" if w[4] == 0 else "T")
        elif fid == 2:
            out.append("C")
        elif fid == 3:
            out.append(f"I{w[4]}")
        elif fid == 6:
            out.append("E")
        elif fid == 7:
            out.append("D")
        else:
            out.append(f"?{fid}")
    return out


# ---- the source's own time-outs -------------------------------------------------------------------------------------------
# The property says "within a bounded time"; it names no number.  What the calls may take is therefore computed from the
# time-outs and retry counters the code under test itself contains (read the way the translator reads them for
# `Gen/Comm.lean`); a site the translator cannot read gets a generous ceiling.  A tunable that is changed (ACK wait 1 s -> 2 s)
# moves the bound with it: only a call that does not come back within what its OWN waits add up to (plus slack) is judged.

CEIL = {"connectAttempts": 20, "chinfoAttempts": 20, "cmninfoTimeout": 100, "chinfoTimeout": 100, "ackTimeoutEnable": 100,
        "ackTimeoutDiv": 100, "ackTimeoutStart": 100, "ackTimeoutStop": 100, "streamDataTimeout": 100, "drainPolls": 10,
        "drainPollTime": 5, "drainStreamPolls": 10, "drainStreamPollTime": 5}
_SRC = {}


def src_consts():
    """time-outs (tenths of a second) and counters of the code under test; ceiling where the site is not a literal"""
    if not _SRC:
        facts = {}
        try:
            import common
            import translate
            facts = translate.gen_comm(common.REPO).facts
        except Exception:  # noqa: BLE001 - the translator's problems are reported by the translate step
            facts = {}
        for k, ceil in CEIL.items():
            try:
                _SRC[k] = int(facts.get(k))
            except (TypeError, ValueError):
                _SRC[k] = ceil
    return _SRC


def drain_tenths():
    c = src_consts()
    return c["drainPolls"] * c["drainPollTime"] + c["drainStreamPolls"] * c["drainStreamPollTime"]


def bound_tenths(chmax):
    """first drain + attempts x (cmninfo wait + drain + channels x tries x chinfo wait) — 8 + 6 * (10 + 8 + chmax * 60) today"""
    c = src_consts()
    return drain_tenths() + c["connectAttempts"] * (c["cmninfoTimeout"] + drain_tenths()
                                                    + chmax * c["chinfoAttempts"] * c["chinfoTimeout"])


def slack(b):
    """a bound with slack: the property demands boundedness, not a particular figure"""
    return 1.25 * b + 1.0


# ---- one session on the real handlers ---------------------------------------------------------------------------------

SERIAL_CALL_COST = 0.005


def make_serial_link(sim, dev):
    """the REAL `nxslib.intf.serial.SerialDevice`, built by its own constructor, over a port object with pyserial's blocking
    semantics in virtual time (the way C18's harness swaps the name `serial` in `nxslib.intf.serial`):
      `read(n)`, n > 0: returns as soon as n bytes wait, else after the port time-out the constructor asked for, with what is there;
      `read(0)`: returns b"" at once — charged SERIAL_CALL_COST virtual seconds, so that time advances while the receive thread
      busy-polls an idle port (the unmodified `_read` is `read(in_waiting)`); `write`: handed to the reference device.
    What the far end sends (answers, line noise) is `dev.rx`."""
    import types
    import nxslib.intf.serial as ns

    class VSerial:
        def __init__(self, *args, **kw):
            self.args, self.kw = args, kw
            self.timeout = kw.get("timeout")
            self.is_open = True
            self.writes = []
            self.nreads = 0

        @property
        def in_waiting(self):
            return len(dev.rx)

        def read(self, size=1):
            self.nreads += 1
            if size <= 0:
                sim.block(lambda: False, SERIAL_CALL_COST, "serial-idle-call")
                return b""
            if len(dev.rx) < size and self.timeout != 0:
                sim.block(lambda: len(dev.rx) >= size, self.timeout, "serial-read")
            out = bytes(dev.rx[:size])
            del dev.rx[:size]
            return out

        def write(self, data):
            self.writes.append(bytes(data))
            sim.yield_("serial-write")
            dev.on_write(bytes(data))
            return len(data)

        def close(self):
            self.is_open = False

    real = ns.serial
    ns.serial = types.SimpleNamespace(Serial=VSerial, SerialException=real.SerialException)
    try:
        link = ns.SerialDevice("/dev/virtual-port", 115200)
    finally:
        ns.serial = real
    port = link._ser
    assert isinstance(port, VSerial)
    # bookkeeping the session runner reads (SerialDevice.start / stop only log)
    link.started = link.stopped = 0
    start0, stop0 = link.start, link.stop

    def start():
        link.started += 1
        return start0()

    def stop():
        link.stopped += 1
        return stop0()
    link.start, link.stop = start, stop
    link.writes = port.writes
    link.reads = lambda: port.nreads
    dev.now = lambda: sim.now
    return link


def has_header(blob):
    """can the periodic repetition of `blob` (or the blob itself) contain a decodable serial header?
    (start byte, any length, frame id 0..8 three bytes later)"""
    s = blob * 3 if len(blob) < 8 else blob + blob[:8]
    return any(s[i] == 0x55 and s[i + 3] <= 8 for i in range(len(s) - 3))


def session_defaults(p):
    q = {"level": "l", "chmax": 2, "flags": 3, "rxp": 0, "script": "", "dflt": "o", "ops": "cd", "chunk": 0, "poll": 0.01,
         "noise": [], "inject": {}, "read_inject": {}, "stream_every": 0, "en": False, "seed": 0, "port": "sim", "backlog": None}
    q.update(p)
    return q


def run_session(p, time_limit=None, real_limit=20.0):
    """run the op string on one handler object; returns dict(ops=[…], sent, errors, exc, …).
    ops: c connect, s stream_start, t stream_stop, d disconnect, p pause 0.3 s (virtual)"""
    p = session_defaults(p)
    res = {"ops": [], "params": p}
    rng = random.Random(p["seed"])

    def lib_tasks(sim):
        return [t.name for t in sim.live_tasks() if t.name in LIB_THREADS]

    def scenario(sim):
        from nxslib.comm import CommHandler
        from nxslib.nxscope import NxscopeHandler
        from nxslib.proto.parse import Parser
        chmax = p["chmax"]
        inject = {int(k): (bytes.fromhex(v[0]), v[1]) for k, v in p["inject"].items()}
        if p["backlog"]:
            # the device flushes `n` well-formed STREAM frames (a sample of every channel) when request `at` arrives
            bl = p["backlog"]
            assert int(bl["at"]) not in inject
            inject[int(bl["at"])] = (bytes.fromhex(stream_frame_hex(chmax)) * int(bl["n"]), bl.get("where", "mid"))
        pol = ScriptPolicy(p["script"], p["dflt"], inject)
        dev = refdev.RefDevice(sl.mk_chans([p["en"]] * chmax, [0] * chmax), flags=p["flags"], rxpadding=p["rxp"], policy=pol)
        chunk = p["chunk"]
        if p["port"] == "serial":
            link = make_serial_link(sim, dev)
        else:
            link = refdev.make_link(sim, dev, poll=p["poll"], chunker=(lambda n: chunk) if chunk else None,
                                    stream_every=p["stream_every"] or None)
        # bytes injected at the n-th read of the link / after an answer
        rinj = {int(k): (bytes.fromhex(v[0]), v[1]) for k, v in p["read_inject"].items()}
        orig_read = link._read
        state = {"n": 0}

        def rd():
            if pol.post is not None:
                dev.rx += pol.post
                pol.post = None
            b = rinj.get(state["n"])
            state["n"] += 1
            if b:
                if b[1] == "pre":
                    dev.rx[0:0] = b[0]
                else:
                    dev.rx += b[0]
            return orig_read()
        if rinj or inject:
            link._read = rd
            link._fread = rd
        stop_noise = {"v": False, "events": 0}

        def spawn_noise(nz):
            blob = None if nz["blob"] == "random" else bytes.fromhex(nz["blob"])
            period = nz["period"]
            count = nz.get("n", 10 ** 9)

            def noise():
                k = 0
                while k < count and not stop_noise["v"]:
                    sim.block(lambda: False, period, "noise-source")
                    dev.rx += blob if blob is not None else bytes(rng.choice([0x55, 0x55, 0, 6, 7, rng.randrange(256)])
                                                                  for _ in range(rng.randrange(1, 9)))
                    k += 1
                    stop_noise["events"] += 1
            sim.spawn(noise, "hx-noise")
        for nz in p["noise"]:
            if nz.get("start", "0") == "0":
                spawn_noise(nz)
        done = {"v": False}

        def watchdog():
            # vsim raises TimeLimit once, in whichever task happens to advance the clock past the limit (often the receive
            # thread) and then disarms it; re-arm it until the MAIN task gets the verdict, so that a call that never returns
            # ends the scenario in milliseconds instead of running into the real-time limit.  No event before the limit.
            try:
                sim.block(lambda: done["v"], budget + 0.001, "watchdog")
            except vsim.TimeLimit:
                pass
            while not done["v"]:
                m = sim.tasks[0]
                if m.state == "blocked" and m.deadline is None:
                    # the call waits WITHOUT a time-out (a lock it holds itself, join() of a wedged thread, put() on a full
                    # queue): the main task never advances the clock, so it can never be handed the TimeLimit verdict, and
                    # with this watchdog (or a noise source) alive vsim does not see the deadlock either.  The budget is over:
                    # end the simulation the way vsim ends a deadlock noticed at a task's exit (main gets `Killed`,
                    # `run_sim` reports Deadlock with the task table).
                    sim.errors.append(("hx-watchdog", vsim.Deadlock(
                        f"past its time budget (t={sim.now:.2f}) the call is blocked without a time-out on '{m.what}': "
                        + repr(sim.tasks)), "watchdog"))
                    stop_noise["v"] = True
                    sim._wake_main()
                    return
                if sim.time_limit == float("inf"):
                    sim.time_limit = sim.now
                try:
                    sim.block(lambda: done["v"], 0.5, "watchdog")
                except vsim.TimeLimit:
                    pass
        sim.spawn(watchdog, "hx-watchdog")
        h = NxscopeHandler(link, Parser()) if p["level"] == "h" else CommHandler(link, Parser())
        res["handler"] = h
        nconn = 0
        for op in p["ops"]:
            pol.await_acks = op != "c" and h.dev is not None
            rec = {"op": op, "t0": sim.now, "was_connected": h.dev is not None}
            used0 = len(pol.used)
            ev0 = stop_noise["events"]
            try:
                if op == "c":
                    h.connect()
                    d = h.dev.data
                    rec["res"] = f"connected:{d.chmax}:{d.flags}:{d.rxpadding}"
                    nconn += 1
                    if nconn == 1:
                        for nz in p["noise"]:
                            if nz.get("start") == "c":
                                spawn_noise(nz)
                elif op == "d":
                    h.disconnect()
                    rec["res"] = "ok"
                elif op == "s":
                    r = h.stream_start()
                    rec["res"] = "ok" if p["level"] == "h" else ("ack" if r.state else "noack")
                elif op == "t":
                    r = h.stream_stop()
                    rec["res"] = "ok" if p["level"] == "h" else ("ack" if r.state else "noack")
                elif op == "p":
                    sim.block(lambda: False, 0.3, "pause")
                    rec["res"] = "ok"
                else:
                    raise ValueError(op)
            except (vsim.RealTimeLimit, vsim.TimeLimit, vsim.Spin, vsim.Deadlock, vsim.Killed):
                rec["res"] = "never-returned"
                rec["t1"] = sim.now
                rec["thr"] = lib_tasks(sim)
                res["ops"].append(rec)
                raise            # the simulation's own verdict (non-termination), not an outcome of the call
            except Exception as e:
                rec["res"] = "raised:" + exc_name(e)
            if sim.killed:
                # the real-time watchdog fired while this call was running (a library thread loops without ever reaching
                # a switch point); whatever the call did with the watchdog's exception is not an outcome of the call
                rec["res"] = "never-returned"
                rec["t1"] = sim.now
                rec["thr"] = lib_tasks(sim)
                res["ops"].append(rec)
                raise vsim.RealTimeLimit(f"real-time budget exceeded during this call at virtual t={sim.now:.2f}; tasks: {sim.tasks!r}")
            rec["t1"] = sim.now
            rec["thr"] = lib_tasks(sim)
            rec["intf"] = int(link.started - link.stopped > 0)
            rec["letters"] = "".join(pol.used[used0:])
            rec["noise_events"] = stop_noise["events"] - ev0
            res["ops"].append(rec)
        stop_noise["v"] = True
        done["v"] = True
        res["sent"] = decode_writes(link.writes)
        res["reads"] = link.reads() if callable(link.reads) else link.reads

    def neutralize():
        # the handlers' destructors call disconnect(): they must not run inside a LATER simulation
        h = res.pop("handler", None)
        for o in (h, getattr(h, "_comm", None)):
            if o is not None:
                o.disconnect = lambda: None

    budget = time_limit if time_limit is not None else session_budget(p) + 30.0
    try:
        # a burst of n frames is n x (a few dozen) primitive operations of finite work at one instant of virtual time
        # (the stream thread decodes the whole backlog without waiting): not a spin
        spin = 50000 + 200 * int((p["backlog"] or {}).get("n", 0))
        r, sim = vsim.run_sim(scenario, time_limit=budget, real_limit=real_limit, spin_limit=spin)
    finally:
        neutralize()
    res["errors"] = [(n, repr(e)) for n, e, _ in sim.errors]
    res["t_end"] = sim.now
    if isinstance(r, BaseException):
        res["exc"] = f"{type(r).__name__}({r})"
        if len(res["ops"]) < len(p["ops"]) and (not res["ops"] or res["ops"][-1]["res"] != "never-returned"):
            res["ops"].append({"op": p["ops"][len(res["ops"])], "res": "never-returned", "t0": None, "t1": sim.now,
                               "thr": [t.name for t in sim.live_tasks() if t.name in LIB_THREADS]})
    return res


def stop_latency(p):
    """how long the receive thread may take to see a stop request (virtual seconds).  One invocation of its body makes at
    most 2·hdr_len − 1 = 7 reads plus, if a header was decoded, one read per missing byte of the declared frame (≤ 65531);
    every read returns within the link's idle timeout `poll`, and the invocation ends at the first EMPTY read.  So without
    a sustained source faster than `poll` the body is back after two read timeouts; with one (period P ≤ poll, blobs of n
    bytes) after at most 8 reads if nothing on the wire can look like a header, else after (8 + 65531/n) reads of ≤ P each
    (a noise `55` in front of an answer `55 09 00 02 …` IS the header of a 2389-byte frame)."""
    p = session_defaults(p)
    poll = p["poll"]
    if p["port"] == "serial":
        # `poll` is the port time-out (what SerialDevice passes to serial.Serial: 1 s): a read may block that long, whatever
        # `_read` asks for; the scenarios' line noise contains no start byte, so the body is back after at most 8 reads
        assert not any(nz["blob"] == "random" or has_header(bytes.fromhex(nz["blob"])) for nz in p["noise"])
        return 10 * poll + 0.05
    fast = [nz for nz in p["noise"] if nz["period"] <= poll]
    if not fast:
        return 2 * poll + 0.05
    period = max(nz["period"] for nz in fast)
    blobs = [None if nz["blob"] == "random" else bytes.fromhex(nz["blob"]) for nz in fast]
    silent_dev = all(c in "sx" for c in p["script"] + p["dflt"]) and not p["inject"] and not p["read_inject"]
    header_free = all(b is not None and not has_header(b) for b in blobs)
    if silent_dev and header_free:
        return 8 * period + 2 * poll + 0.05
    n = min(1 if b is None else len(b) for b in blobs)
    return (8 + 65531 // n + 1) * period + 2 * poll + 0.05


def op_bound(p, op):
    p = session_defaults(p)
    high = p["level"] == "h"
    lat = stop_latency(p)
    c = src_consts()
    if op == "c":
        return bound_tenths(p["chmax"]) / 10 + lat
    if op == "d":
        hl = c["ackTimeoutStop"] + c["streamDataTimeout"] + c["ackTimeoutDiv"] + c["ackTimeoutEnable"]
        return ((hl if high else 0) + drain_tenths()) / 10 + lat
    if op == "s":
        return ((c["ackTimeoutDiv"] + c["ackTimeoutEnable"] if high else 0) + c["ackTimeoutStart"]) / 10
    if op == "t":
        return (c["ackTimeoutStop"] + (c["streamDataTimeout"] if high else 0)) / 10
    return 0.3


def op_limit(p, op):
    """what the oracle allows a call: the sum of the call's own waits, with slack"""
    return slack(op_bound(p, op))


def session_budget(p):
    return sum(op_limit(p, op) for op in session_defaults(p)["ops"])


def describe(p):
    p = session_defaults(p)
    d = {k: v for k, v in p.items() if v != session_defaults({}).get(k) or k in ("level", "chmax", "ops", "script", "dflt")}
    return " ".join(f"{k}={v}" for k, v in d.items())


def judge_session(r, p=None):
    """the property itself: every connect / disconnect (and stream start / stop) call returns or raises within its bound,
    no library thread dies, a connect that raised and a disconnect that returned leave no library thread and no started
    interface behind, never two receive threads.  (struct.error out of an ACK wait — an ACK frame of the wrong size —
    is outside the property's fault classes: such sessions are not judged for what they leave behind.)"""
    p = session_defaults(p or r["params"])
    what = describe(p)
    ops = r["ops"]
    sim_verdict = [e for e in r["errors"] if any(k in e[1] for k in ("TimeLimit", "Spin", "Deadlock"))]
    if "exc" in r or any(o["res"] == "never-returned" for o in ops) or sim_verdict:
        last = ops[-1] if ops else {"op": "?", "t1": 0}
        if sim_verdict and "exc" not in r:
            # the budget ran out inside a library / noise task while a call was waiting: name the call that overran
            over = [o for o in ops if o["t1"] - o["t0"] > op_limit(p, o["op"]) + 0.051]
            last = over[0] if over else last
            r = dict(r, exc=sim_verdict[0][1], ops=ops[:ops.index(last) + 1])
            ops = r["ops"]
        names = {"c": "connect", "d": "disconnect", "s": "stream_start", "t": "stream_stop", "p": "pause"}
        return {"key": "does-not-terminate",
                "what": f"{names.get(last['op'], last['op'])}() (op {len(ops)} of '{p['ops']}') did not return or raise: "
                        f"{r.get('exc', '')[:300]} ({what})",
                "expected": f"return or raise within {op_limit(p, last['op']):.2f} s (virtual; the call's own time-outs add up to "
                            f"{op_bound(p, last['op']):.2f} s)",
                "observed": f"still running at t={r.get('t_end', 0):.2f} s, library threads alive: {last.get('thr')}",
                "scenario": what}
    if r["errors"]:
        if r["errors"][0][0] not in LIB_THREADS:
            raise RuntimeError(f"harness task failed: {r['errors'][0]}")
        return {"key": "thread-died", "what": f"library thread died ({what}): {r['errors'][0]}", "expected": "-",
                "observed": repr(r["errors"][0]), "scenario": what}
    ack_struct = any(o["op"] != "c" and o["res"] == "raised:struct" for o in ops)
    # nothing but the device's scripted answers on the wire, apart from noise events (counted per call)
    clean_link = not p["inject"] and not p["read_inject"] and not p["stream_every"]
    for i, o in enumerate(ops):
        dt = o["t1"] - o["t0"]
        b = op_limit(p, o["op"])
        where = f"op {i + 1} '{o['op']}' of '{p['ops']}' ({what})"
        if dt > b + 0.051:
            key = {"c": "connect-too-long", "d": "disconnect-too-long"}.get(o["op"], "call-too-long")
            return {"key": key, "what": f"{where} took {dt:.2f} s", "expected": f"<= {b:.2f} s (the call's own time-outs add up to {op_bound(p, o['op']):.2f} s)", "observed": dt,
                    "scenario": what}
        if o["thr"].count("recv") > 1:
            return {"key": "two-recv-threads", "what": f"two receive threads alive after {where}", "expected": "at most one",
                    "observed": o["thr"], "scenario": what}
        if ack_struct:
            continue
        if o["op"] == "c" and o["res"].startswith("raised") and (o["thr"] or o["intf"]):
            # connect on an already connected handler cannot raise; a raise means this call started things
            return {"key": "thread-left-after-failed-connect",
                    "what": f"connect raised ({o['res']}) but left {o['thr'] or 'the interface'} running: {where}",
                    "expected": "no library thread, interface stopped", "observed": {"threads": o["thr"], "intf": o["intf"]},
                    "scenario": what}
        if o["op"] == "c" and o["res"].startswith("raised") and clean_link and not o.get("noise_events") and \
                o.get("letters") and set(o["letters"]) == {"o"}:
            return {"key": "connect-fails-on-healthy-link",
                    "what": f"connect raised ({o['res']}) although the device answered every request of this call correctly and "
                            f"nothing else was on the wire during it: {where} (what an earlier session left behind must not "
                            f"make a later connect fail: F21)",
                    "expected": "connected", "observed": o["res"], "scenario": what}
        if o["op"] == "d" and o["res"] == "ok" and (o["thr"] or o["intf"]):
            return {"key": "thread-left", "what": f"library thread / interface left running after disconnect returned: {where}: "
                                                  f"{o['thr']} intf={o['intf']}",
                    "expected": "none", "observed": {"threads": o["thr"], "intf": o["intf"]}, "scenario": what}
        if o["op"] == "d" and o["res"].startswith("raised"):
            return {"key": "disconnect-raised", "what": f"disconnect raised {o['res']}: {where}; left {o['thr']} intf={o['intf']}",
                    "expected": "returns", "observed": o["res"], "scenario": what}
    return None


def fmt_session(r):
    """canonical output line of a session (format of the Lean driver op `hs sess`)"""
    if "exc" in r or r["errors"]:
        return "sim-failure " + r.get("exc", "") + repr(r["errors"])
    # the time stamp is the sum of the calls' durations, each rounded to tenths: joining the receive thread costs what is left
    # of its current link poll (<= 0.01 s per join, not modelled); rounding the ABSOLUTE time lets these residues add up
    # over a long session until they flip a digit (R4-C-L3: @331 vs @330 after 11 calls)
    parts, acc = [], 0
    for o in r["ops"]:
        acc += round((o["t1"] - o["t0"]) * 10)
        parts.append(f"{o['op']}={o['res']}@{acc}/{len(o['thr'])}/{o['intf']}")
    return " ".join(parts) + " sent=" + " ".join(r["sent"])


def parse_sess(line):
    """hs sess <l|h> <chmax> <flags> <rxp> <script|-> <dflt> <ops> <chunk> [noise=<period ms>:<hex>]"""
    t = line.split(" ")
    p = {"level": t[2], "chmax": int(t[3]), "flags": int(t[4]), "rxp": int(t[5]), "script": "" if t[6] == "-" else t[6],
         "dflt": t[7], "ops": t[8], "chunk": int(t[9])}
    for extra in t[10:]:
        if extra.startswith("noise="):
            ms, blob = extra[6:].split(":")
            p["noise"] = [{"period": int(ms) / 1000.0, "blob": blob}]
    return p


def modelled_noise(p):
    """the model predicts a session under sustained noise only when the device never answers (nothing to corrupt) and the
    noise cannot contain a decodable header"""
    return all(c in "sx" for c in p["script"] + p["dflt"]) and \
        not any(has_header(bytes.fromhex(nz["blob"])) for nz in p["noise"])


# ---- legacy single-connect runner (lines `hs connect …`) ------------------------------------------------------------------

def run_connect(chmax, flags, rxp, script, dflt, high_level=False, link_hook=None, time_limit=20000.0):
    """returns dict(outcome, t, thr, intf, sent, t2, thr2, intf2, errors, exc)"""
    res = {}

    def scenario(sim):
        from nxslib.comm import CommHandler
        from nxslib.nxscope import NxscopeHandler
        from nxslib.proto.parse import Parser
        dev = refdev.RefDevice(sl.mk_chans([False] * chmax, [0] * chmax), flags=flags, rxpadding=rxp,
                               policy=ScriptPolicy(script, dflt))
        link = refdev.make_link(sim, dev)
        if link_hook:
            link_hook(sim, dev, link)
        h = NxscopeHandler(link, Parser()) if high_level else CommHandler(link, Parser())
        try:
            h.connect()
            d = h.dev.data
            res["outcome"] = f"connected {d.chmax} {d.flags} {d.rxpadding}"
        except (vsim.RealTimeLimit, vsim.TimeLimit, vsim.Spin, vsim.Deadlock):
            raise            # the simulation's own verdict (non-termination), not an outcome of connect
        except Exception as e:
            res["outcome"] = "raised " + exc_name(e)
        res["t"] = sim.now
        res["thr"] = int(bool(sim.live_tasks()))
        res["intf"] = int(link.started - link.stopped > 0)
        res["sent"] = decode_writes(link.writes)
        try:
            h.disconnect()
        except (vsim.RealTimeLimit, vsim.TimeLimit, vsim.Spin, vsim.Deadlock):
            raise
        except Exception as e:
            res["disc_exc"] = exc_name(e)
        res["t2"] = sim.now
        res["thr2"] = int(bool(sim.live_tasks()))
        res["intf2"] = int(link.started - link.stopped > 0)
        res["live"] = [t.name for t in sim.live_tasks()]

    r, sim = vsim.run_sim(scenario, time_limit=time_limit, real_limit=20.0, spin_limit=50000)
    res["errors"] = [(n, repr(e)) for n, e, _ in sim.errors]
    if isinstance(r, BaseException):
        res["exc"] = f"{type(r).__name__}({r})"
    return res


# ---- scenario families (termination oracle only) ----------------------------------------------------------------------------

NOISE_BLOBS = ["55", "5506", "55ffff07", "00", "random"]


def noise_scenarios(rng, T):
    """sustained, rate-limited noise sources; silent / answering / half-answering device; both levels; connect and
    disconnect under noise; noise that starts after a successful connect"""
    out = []
    # the F20 regression and its neighbours: every blob × a period below, at and above the read timeout
    # (quick: the two blobs that make the body collect 65535 bytes only at one period each)
    for blob in NOISE_BLOBS:
        heavy = blob == "random" or has_header(bytes.fromhex(blob))      # the body collects a long "frame"
        for period in (0.005, 0.01, 0.05):
            if not T and heavy and period != {"random": 0.05, "5506": 0.005}.get(blob, 0.01):
                continue
            out.append({"kind": "noise-silent", "level": "lh"[len(out) & 1], "chmax": 2, "dflt": "s", "ops": "cd",
                        "noise": [{"period": period, "blob": blob}]})
    periods = [0.001, 0.002, 0.005, 0.01, 0.02, 0.1, 0.3, 1.0]
    nheavy = 0
    n = 60 if T else 10
    for i in range(n):
        blob = NOISE_BLOBS[i % len(NOISE_BLOBS)]
        period = periods[(i // len(NOISE_BLOBS) + i) % len(periods)] if i < 40 else rng.choice(periods)
        devkind = i % 3
        chmax = rng.choice([0, 1, 2, 3])
        sc = {"kind": "noise", "level": "lh"[(i // 3) & 1], "chmax": chmax, "seed": rng.randrange(1 << 30),
              "noise": [{"period": period, "blob": blob, "start": "c" if i % 4 == 3 else "0"}]}
        if devkind == 0:
            sc.update(script="", dflt="s", ops="cd")
        elif devkind == 1:
            sc.update(script="", dflt="o", ops=rng.choice(["cd", "csd", "cspd", "cdcd"]))
        else:
            k = rng.randrange(0, 2 + chmax + 4)
            sc.update(script="o" * k, dflt=rng.choice("sn"), ops=rng.choice(["cd", "csd", "ccd"]))
        if period <= 0.002 and sc["dflt"] == "s" and sc["ops"] != "cd":
            sc["ops"] = "cd"
        if not T and (blob == "random" or has_header(bytes.fromhex(blob))) and period <= 0.01:
            nheavy += 1
            if nheavy > 2:
                sc["noise"][0]["period"] = 0.02 + period      # above the read timeout: no 65535-byte collection
        out.append(sc)
    return out


def postconnect_scenarios(rng, T):
    """faults after a successful connect: the device goes silent / NACKs / answers wrong-kind / garbage / noise from
    request k on, with and without a running (and a really streaming) stream, then disconnect; both levels"""
    out = []
    for level in "lh":
        for chmax in ((0, 1, 3) if T else (0, 2)):
            nreq = 1 + chmax
            for f in "sngwx":
                for ops in (("cd", "csd", "cstd", "cspd", "csdcd") if level == "h" else ("cd", "csd", "cstd", "ctd")):
                    for k in ((0, 1, 2, 3) if T else (0, 2)):
                        for flags in ((3, 2, 0) if T and f in "sn" else (3,)):
                            out.append({"kind": "post-connect", "level": level, "chmax": chmax, "flags": flags,
                                        "script": "o" * (nreq + k), "dflt": f, "ops": ops})
    # a device that really streams (and keeps streaming when it goes silent)
    for level in "lh":
        for f in "sn":
            out.append({"kind": "post-connect-streaming", "level": level, "chmax": 2, "en": True, "stream_every": 3,
                        "script": "o" * (3 + (3 if level == "h" else 1)), "dflt": f, "ops": "cspd"})
    return out


def fault_point_scenarios(rng, T):
    """residues / noise blobs at EVERY request index (before, in front of and behind the answer), chunked answers,
    garbage, a second connect on the same handler after a failed one (stale `_prev_read`), channel names that are not UTF-8"""
    out = []
    residues = ["55", "5506", "550600", "0055", "000055", "55090002", "1337550155"]
    for chmax in ((1, 3) if T else (2,)):
        nreq = 2 + chmax                      # stop, cmninfo, chinfo × chmax
        for k in range(nreq + (3 if T else 1)):
            for j, blob in enumerate(residues):
                if not T and (j + k) % 3:
                    continue
                for where in ("pre", "mid", "post"):
                    if not T and (j + k + len(where)) % 2:
                        continue
                    out.append({"kind": "residue-at-request", "level": "lh"[(k + j) & 1], "chmax": chmax,
                                "dflt": "os"[(j + k) % 2] if where != "post" else "o", "ops": "cdcd",
                                "inject": {str(k): [blob, where]}, "chunk": (0, 1, 3)[(j + k) % 3]})
    # F21: a cut-off frame / a noise header arrives once while the first session is up; the session ends; the next
    # connect of the same handler must succeed on the healthy device
    cut = bytes([0x55, 0xEE, 0x03, 0x01]) + bytes(range(1, 97))          # first 100 bytes of a 1006-byte stream frame
    for level in "lh":
        for blob in (cut.hex(), "55ffff07", "55", "550900"):
            for ops in (("cpdcd", "cspdcd") if T or blob != "55" else ("cpdcd",)):
                out.append({"kind": "stale-buffer", "level": level, "chmax": 2, "dflt": "o", "ops": ops,
                            "noise": [{"period": 0.05, "blob": blob, "start": "c", "n": 1}]})
    # undecodable answers to an info request, every time it is asked (struct.error / UnicodeDecodeError out of connect)
    for level in "lh":
        for chmax in ((1, 3) if T else (2,)):
            for k in range(0, 1 + chmax):
                for f in "hu":
                    out.append({"kind": "undecodable-info", "level": level, "chmax": chmax, "script": "o" * k, "dflt": f,
                                "ops": "cdc"})
    for it in range(60 if T else 12):
        chmax = rng.randrange(0, 4)
        script = "".join(rng.choice("oooooswhgnxu") for _ in range(rng.randrange(0, 12)))
        out.append({"kind": "reconnect", "level": rng.choice("lh"), "chmax": chmax, "flags": rng.choice([3, 3, 2, 1, 0, 7, 255]),
                    "rxp": rng.choice([0, 0, 4]), "script": script, "dflt": rng.choice("ooos"),
                    "ops": rng.choice(["cc", "ccd", "cdc", "cccd", "cdcd", "ccsd"]), "chunk": rng.choice([0, 0, 1, 2, 5])})
    # noise blobs at a read index (the old family, now at any point of the first seconds), both levels
    for it in range(90 if T else 16):
        poison = it % 3 == 0
        blob = (bytes([0x55, rng.randrange(7, 256), rng.randrange(0, 3), rng.randrange(0, 9)]) if poison
                else bytes(rng.choice([0x55, 0, 6, 7, rng.randrange(256)]) for _ in range(rng.randrange(1, 40))))
        out.append({"kind": "poison" if poison else "noise-at-read", "level": "lh"[it & 1], "chmax": rng.randrange(0, 5),
                    "dflt": rng.choice("oos"), "ops": "cd",
                    "read_inject": {str(rng.choice([0, 1, 2, 5, rng.randrange(0, 200), rng.randrange(0, 700)])):
                                    [blob.hex(), rng.choice(["pre", "post"])]}})
    return out


def boundary_scenarios(rng, T):
    """zero channels / 255 channels / all flag bytes at both levels; a link whose idle read blocks longer than any join
    timeout would wait (9 virtual seconds, allowed by the ICommInterface contract)"""
    out = []
    for level in "lh":
        for chmax in (0, 255):
            for dflt, script in (("o", ""), ("s", "o"), ("s", "")):
                if chmax == 255 and dflt == "s" and script == "o" and not T:
                    continue
                out.append({"kind": "boundary", "level": level, "chmax": chmax, "flags": 3, "script": script, "dflt": dflt,
                            "ops": "csdcd" if dflt == "o" else "cdc"})
        for flags in (0, 1, 2, 4, 255):
            out.append({"kind": "flags", "level": level, "chmax": 1, "flags": flags, "script": "ooo", "dflt": "s", "ops": "csd"})
        for dflt, script, ops in (("s", "", "cc"), ("s", "", "cd"), ("o", "", "cd"), ("o", "", "csd"), ("s", "oo", "csd"),
                                  ("s", "o", "ccd")):
            out.append({"kind": "slow-read", "level": level, "chmax": 1, "script": script, "dflt": dflt, "ops": ops, "poll": 9.0})
    return out


def stream_frame_hex(chmax):
    """one well-formed STREAM frame of the reference device with a sample of every channel (no channels: flags byte only)"""
    dev = refdev.RefDevice(sl.mk_chans([True] * chmax, [0] * chmax))
    dev.started = True
    dev.stream_tick()
    if not dev.rx:
        dev._send(refdev.STREAM, b"\x00")
    return bytes(dev.rx).hex()


def slow_stream_scenarios(rng, T):
    """a device that lost / ignores the stop request (crashed previous session) and keeps streaming SLOWLY: one valid stream
    frame every 0.12 .. 0.35 s from before the connect until the end, everything else answered correctly.  The draining loops
    poll each queue for 0.1 s at a time and leave after 4 empty polls IN TOTAL, so any period above 0.1 s lets them finish
    (C10-r4m2 wants 4 empty polls in a row: never).  Periods of 0.1 s and below are the observation of DESIGN section 6
    (`_drop_all_frames` does not return while frames arrive faster than its poll; outside the property's fault classes):
    recorded by `observations`, not judged."""
    out = []
    periods = [0.15, 0.12, 0.2, 0.35, 0.25, 0.3, 0.11, 0.175]
    combos = [("l", "cd"), ("h", "cd"), ("h", "csd"), ("l", "cdcd"), ("h", "cspdcd"), ("l", "ctd"), ("h", "ccd"), ("l", "cstd")]
    for i, period in enumerate(periods if T else periods[:4]):
        for j in range(2 if T else 1):
            level, ops = combos[(i + 4 * j) % len(combos)]
            chmax = (3, 1, 2, 0)[(i + j) % 4]
            out.append({"kind": "slow-stream-ignoring-stop", "level": level, "chmax": chmax, "flags": (3, 0, 2)[(i + j) % 3],
                        "en": True, "dflt": "o", "ops": ops, "noise": [{"period": period, "blob": stream_frame_hex(chmax)}]})
    # the same device that additionally stops answering after the handshake / at the handshake
    for level, script, dflt, ops in (("h", "ooo", "s", "csd"), ("l", "o", "s", "cd")):
        out.append({"kind": "slow-stream-ignoring-stop", "level": level, "chmax": 2, "en": True, "script": script, "dflt": dflt,
                    "ops": ops, "noise": [{"period": 0.15, "blob": stream_frame_hex(2)}]})
    return out


def serial_port_scenarios(rng, T):
    """the real SerialDevice on a line with rate-limited noise (one or two bytes without a start byte every 0.05 .. 0.9 s,
    i.e. always something within the port's 1 s time-out): `SerialDevice.drop_all()` leaves after 4 EMPTY reads, so it ends only
    if an idle port read comes back empty at once (C10-r4m1: `read(in_waiting or 1)` waits for a byte — never empty on such a
    line, connect stays in its first `_drop_all()`, disconnect of a connected handler in `_stop()`); silent and answering
    device, both levels; the quiet line as control"""
    out = []
    rows = [("l", "s", "cd", 0.2, "a5"), ("h", "o", "cd", 0.2, "a5"), ("l", "s", "cd", None, None), ("h", "o", "csd", 0.5, "00ff")]
    if T:
        rows += [("l", "o", "cdcd", 0.05, "a5"), ("h", "s", "cdc", 0.9, "13"), ("l", "o", "ctd", 0.33, "a500"), ("h", "o", "cd", None, None),
                 ("l", "s", "ccd", 0.7, "ff")]
    for i, (level, dflt, ops, period, blob) in enumerate(rows):
        out.append({"kind": "serial-port-noise", "port": "serial", "poll": 1.0, "level": level, "chmax": 1, "flags": (3, 0)[i & 1] if dflt == "o" else 3,
                    "dflt": dflt, "ops": ops, "noise": [{"period": period, "blob": blob}] if period else []})
    return out


def backlog_scenarios(rng, T):
    """stream backlog during the handshake: the device was streaming when the host connects and flushes n well-formed STREAM
    frames (the "wrong frame" for a handshake request, finitely many bytes) when request k arrives (0 stop, 1 common info,
    2.. channel info), in front of / behind its correct answer, and answers everything else correctly.  Nobody reads the stream
    queue during the handshake: the receive thread must get through the backlog to the answer behind it whatever n is
    (C10-r5m1 bounds the queue to 2048 frames and keeps the blocking put(): the receive thread wedges at frame 2049, every
    attempt times out and the cleanup join() never returns).  Both handler levels, ops cd / csd (high level: the stream
    thread then has to digest what the handshake left queued), devices with and without ACK support."""
    out = []
    chmax = 2
    for level in "lh":
        for ops in ("cd", "csd"):
            for n in (100, 3000, 6000):
                for k in range(0, 2 + chmax):
                    wheres = ("mid", "pre", "post") if T else (("mid", "post", "pre")[(k + n // 100) % 3],)
                    if not T and n == 100 and k not in (1, 2):
                        continue
                    for where in wheres:
                        out.append({"kind": "stream-backlog-at-handshake", "level": level, "chmax": chmax, "en": True,
                                    "flags": (3, 0, 2)[(k + len(ops) + (level == "h")) % 3], "dflt": "o", "ops": ops,
                                    "backlog": {"at": k, "n": n, "where": where}})
    if T:
        # other device sizes, the backlog at the last channel-info request, a second session on the same handler
        for level, cm, ops in (("l", 0, "cdcd"), ("h", 0, "csd"), ("l", 5, "cd"), ("h", 5, "csdcd"), ("l", 1, "ccd"), ("h", 1, "cstd")):
            for n in (2048, 2049, 6000):
                out.append({"kind": "stream-backlog-at-handshake", "level": level, "chmax": cm, "en": True, "dflt": "o", "ops": ops,
                            "backlog": {"at": 1 + cm, "n": n, "where": "mid"}})
    return out


def all_scenarios(rng, tier):
    T = tier == "thorough"
    return backlog_scenarios(rng, T) + slow_stream_scenarios(rng, T) + serial_port_scenarios(rng, T) + noise_scenarios(rng, T) + boundary_scenarios(rng, T) + postconnect_scenarios(rng, T) + \
        fault_point_scenarios(rng, T)


def run_scenario(sc):
    """one termination scenario judged by the property; returns the violation dict or None"""
    if "blob" in sc and "at" in sc:       # replay files written before the scenario format changed
        sc = {"kind": sc.get("kind", "residue"), "level": "h" if sc.get("high") else "l", "chmax": sc["chmax"], "dflt": sc["dflt"],
              "ops": "cd", "read_inject": {str(sc["at"]): [sc["blob"], "pre" if sc.get("prepend") else "post"]}}
    p = {k: v for k, v in sc.items() if k != "kind"}
    r = run_session(p)
    v = judge_session(r, p)
    if v:
        v["scenario_params"] = sc
        v["input"] = {"device": f"{session_defaults(p)['chmax']} channels, flags {session_defaults(p)['flags']}, answers per awaited "
                                f"request: script '{session_defaults(p)['script']}' then '{session_defaults(p)['dflt']}' "
                                f"({', '.join(k + '=' + v for k, v in RESP.items())})",
                      "calls": session_defaults(p)["ops"] + " (c connect, s stream_start, t stream_stop, d disconnect, p pause 0.3 s) on "
                               + ("NxscopeHandler" if session_defaults(p)["level"] == "h" else "CommHandler"),
                      "link": {k: session_defaults(p)[k] for k in ("poll", "chunk", "noise", "inject", "read_inject", "stream_every")},
                      "backlog": (f"when request {p['backlog']['at']} (0 stop, 1 common info, 2.. channel info) arrives the device puts "
                                  f"{p['backlog']['n']} copies of the STREAM frame {stream_frame_hex(session_defaults(p)['chmax'])} on the wire "
                                  f"({ {'pre': 'in front of everything pending', 'mid': 'just before its answer', 'post': 'just after its answer'}[p['backlog'].get('where', 'mid')]})"
                                  if p.get("backlog") else None),
                      "per_call": [{k: o.get(k) for k in ("op", "res", "t0", "t1", "thr", "intf")} for o in r["ops"]]}
    return v


class C10(Prop):
    id = "C10"
    lean_module = "NxsModel.Props.C10"
    rule = ("fault scripts on the real CommHandler / NxscopeHandler under the virtual-time runtime. `hs connect`: per info request "
            "the reference device answers correctly / stays silent / answers a wrong-kind frame / a short frame / garbage / a "
            "NACK / start-byte-free noise; exhaustive over the fault point and kind for device sizes 0..4 (thorough: ..6), "
            "chmax 255, all flag values. `hs sess`: op sequences (connect, stream start/stop, pause, disconnect, reconnect on "
            "the same handler) at both handler levels with the fault from request k on (before / after the connect completed), "
            "chunked answers; outcome, virtual time, request log, thread count and interface state after every call are "
            "compared with the model.  extra_checks (termination oracle only): sustained rate-limited noise sources (1 ms..1 s; "
            "55, 5506, 55ffff07, 00, random), residues at every request index, noise at a read index, reconnects with a stale "
            "buffer, non-UTF-8 names, zero / 255 channels, a link whose idle read blocks 9 s, really streaming devices, a device "
            "that ignores the stop request and keeps streaming one frame per 0.11..0.35 s, a device that flushes a backlog of "
            "100 / 3000 / 6000 stream frames at handshake request k before / behind its answer (both levels, cd / csd), the real SerialDevice over a virtual-time "
            "port with line noise every 0.05..0.9 s.  Time limits of the oracle: the sum of the call's own time-outs as read from "
            "the source under test (x 1.25 + 1 s), not fixed figures; "
            "distinct = distinct line; non-trivial = script with at least one fault")
    assumptions = ["time is virtual (timeout units); real elapsed time is outside the model; blocking inside pyserial is simulated "
                   "for the serial-port scenarios only (read(n>0) waits for n bytes or the port time-out, an idle read(0) is "
                   "charged 5 ms)",
                   "fault classes: finitely many bytes per request or noise of bounded rate (a device streaming forever while "
                   "ignoring stop is judged only when its frame period is above the draining loops' 0.1 s poll; faster: observation)",
                   "the only request awaited while the stream thread runs is the stop request; a STREAM frame as its answer restarts "
                   "the thread's poll (driver's scheduler bookkeeping, `hsSessLoop`)",
                   "an ACK frame whose payload has the wrong size raises struct.error out of the ACK wait: outside the fault "
                   "classes, modelled and compared but not judged"]

    # -- driver lines ---------------------------------------------------------------------------------------------------------
    def cases(self, rng, tier):
        T = tier == "thorough"
        for chmax in range(0, (7 if T else 5)):
            nreq = 1 + chmax
            fl = (3, 2, 0, 1)[chmax % 4]
            yield f"hs connect {chmax} {fl} 0 - o", "clean"
            yield f"hs connect {chmax} 3 0 - s", "all-silent"
            yield f"hs connect {chmax} {fl} 0 - w", "all-wrong"
            for k in range(nreq + 1):
                for f in "swhgnxru":
                    yield f"hs connect {chmax} {(3, 0, 2, 1, 255)[(k + chmax) % 5]} 0 {'o' * k + f} o", f"one-fault-{f}"
                    yield f"hs connect {chmax} 3 0 {'o' * k or '-'} {f}", f"from-k-{f}"
                    if f in "swh" or T:
                        yield f"hs connect {chmax} 3 8 {'o' * k + f + f} o", f"two-faults-{f}-pad"
        for _ in range(300 if T else 50):
            chmax = rng.randrange(0, 7)
            script = "".join(rng.choice("ooooswwhnxru" if rng.random() < 0.7 else "oosgr") for _ in range(rng.randrange(0, 30)))
            yield (f"hs connect {chmax} {rng.choice([0, 1, 2, 3, 3, 255, rng.randrange(256)])} {rng.choice([0, 0, 4, 16])} "
                   f"{script or '-'} {rng.choice('ooooswr')}"), "random"
        yield "hs connect 40 3 0 - o", "big"
        yield "hs connect 40 3 0 ooooooooooss s", "big-silent"
        yield "hs connect 255 3 0 - o", "max"
        yield "hs connect 255 2 0 oooooooooooooooooooooooooooooooooooooooo s", "max-silent"
        # sessions: faults after the connect completed (and before), both levels
        for level in "lh":
            opsets = ("cd", "csd", "cstd", "cspd", "cdcd", "csdcsd", "ccd", "cstsd") if level == "h" else \
                     ("cd", "csd", "cstd", "ctd", "cdcd", "ccd")
            for chmax in ((0, 1, 2, 3) if T else (0, 2)):
                nreq = 1 + chmax
                for f in "sngwxr":
                    for ops in opsets:
                        for k in (range(0, 5) if T else (0, 2)):
                            flags = (3, 2, 3, 0, 1)[(k + chmax + len(ops)) % 5] if f in "sn" else 3
                            yield (f"hs sess {level} {chmax} {flags} 0 {'o' * (nreq + k)} {f} {ops} {(0, 0, 1, 3)[(k + len(ops)) % 4]}",
                                   f"post-connect-{level}-{f}")
        # F21: what a session left in the reassembly buffer must not hurt the next one (same handler object)
        for level, ops in (("l", "ctdcd"), ("l", "csdcd"), ("l", "ctcd"), ("h", "csdcd"), ("h", "cdcd"), ("h", "cstdcsd")):
            for chmax in ((0, 1, 3) if T else (2,)):
                for k in range(0, 4 if T else 3):
                    yield f"hs sess {level} {chmax} 3 0 {'o' * (1 + chmax + k)}g o {ops} {(0, 2)[k & 1]}", "reconnect-after-poison"
        for _ in range(400 if T else 60):
            level = rng.choice("lh")
            chmax = rng.randrange(0, 5)
            script = "".join(rng.choice("ooooooosnwxgru" if rng.random() < 0.8 else "ooshr") for _ in range(rng.randrange(0, 16)))
            ops = "c" + "".join(rng.choice("csstdpd" if level == "h" else "cstdd") for _ in range(rng.randrange(1, 6)))
            yield (f"hs sess {level} {chmax} {rng.choice([3, 3, 3, 2, 1, 0, 255])} {rng.choice([0, 0, 0, 4])} {script or '-'} "
                   f"{rng.choice('oooosnr')} {ops} {rng.choice([0, 0, 1, 2, 7])}"), "session-random"

    def impl(self, line):
        t = line.split(" ")
        if t[1] == "sess":
            p = parse_sess(line)
            if p.get("noise") and not modelled_noise(p):
                return "bad-op"
            return fmt_session(run_session(p))
        chmax, flags, rxp = int(t[2]), int(t[3]), int(t[4])
        script = "" if t[5] == "-" else t[5]
        r = run_connect(chmax, flags, rxp, script, t[6])
        if "exc" in r or r["errors"]:
            return "sim-failure " + r.get("exc", "") + repr(r["errors"])
        return (f"{r['outcome']} t={round(r['t'] * 10)} thr={r['thr']} intf={r['intf']} sent={' '.join(r['sent'][:len(r['sent'])])}"
                f" | t={round(r['t2'] * 10)} thr={r['thr2']} intf={r['intf2']} bound={bound_tenths(chmax)}")

    def nontrivial(self, line, out):
        t = line.split(" ")
        sc = t[6] + t[7] if t[1] == "sess" else t[5] + t[6]
        return any(c in sc for c in "swhgnxru")

    def oracle(self, line, impl_out=None):
        t = line.split(" ")
        if t[1] == "sess":
            p = parse_sess(line)
            v = judge_session(run_session(p), p)
            if v:
                v["scenario_params"] = dict(p, kind="line")
            return v
        chmax, flags, rxp = int(t[2]), int(t[3]), int(t[4])
        script = "" if t[5] == "-" else t[5]
        r = run_connect(chmax, flags, rxp, script, t[6], time_limit=slack(bound_tenths(chmax) / 10) + 50)
        return judge(r, chmax, f"script={t[5]} default={t[6]}")

    # -- scenarios ----------------------------------------------------------------------------------------------------------------
    def extra_checks(self, rng, tier, ev):
        viol = []
        kinds = {}
        stuck = 0
        scen = all_scenarios(rng, tier)
        for sc in scen:
            kinds[sc["kind"]] = kinds.get(sc["kind"], 0) + 1
            v = run_scenario(sc)
            if v:
                if len(viol) < 6 and not any(w["key"] == v["key"] and w["scenario_params"]["kind"] == sc["kind"] for w in viol):
                    viol.append(v)
                if v["key"] == "does-not-terminate":
                    # every further hang costs real time (a lot when only the real-time watchdog ends it)
                    stuck += 2 if "RealTimeLimit" in v["what"] else 1
                    if stuck >= 4:
                        break
        ev["coverage"]["fault_scenarios"] = sum(kinds.values())
        ev["coverage"]["fault_scenario_kinds"] = kinds
        ev["coverage"]["observations"] = self.observations()
        # one violation per key goes to the report: keep the simplest scenario of each key first
        viol.sort(key=lambda v: len(repr(v["scenario_params"])))
        return viol

    def observations(self):
        """outside the fault classes — recorded, not judged: ACK frames of the wrong size; a device that ignores the stop
        request and streams FASTER than the draining loop polls (one frame per 0.05 s against 0.1 s polls: `_drop_all_frames`
        never sees an empty poll; DESIGN section 6)"""
        out = []
        for level, ops in (("l", "csd"), ("h", "csd"), ("h", "cd")):
            p = {"level": level, "chmax": 1, "script": "oo", "dflt": "h", "ops": ops}
            r = run_session(p)
            out.append({"session": describe(p), "result": fmt_session(r)})
        p = {"level": "l", "chmax": 1, "en": True, "dflt": "o", "ops": "c", "noise": [{"period": 0.05, "blob": stream_frame_hex(1)}]}
        r = run_session(p, time_limit=20.0)
        out.append({"session": describe(p), "result": fmt_session(r)[:160]})
        return out

    def replay(self, obj):
        if "scenario_params" in obj:
            return run_scenario(obj["scenario_params"])
        return self.oracle(obj["case"])


def judge(r, chmax, what, must_connect=False):
    """the property itself (single connect + disconnect): bounded, no thread left, no spin"""
    if "exc" in r:
        return {"key": "does-not-terminate", "what": f"connect/disconnect did not terminate in the time budget ({what}): {r['exc']}",
                "expected": f"return or raise within {bound_tenths(chmax) / 10} s + disconnect", "observed": r["exc"], "scenario": what}
    if r["errors"] and any(k in r["errors"][0][1] for k in ("TimeLimit", "Spin", "Deadlock")):
        return {"key": "does-not-terminate", "what": f"connect/disconnect did not terminate in the time budget ({what}): {r['errors'][0]}",
                "expected": f"return or raise within {bound_tenths(chmax) / 10} s + disconnect", "observed": repr(r["errors"][0]), "scenario": what}
    if r["errors"]:
        return {"key": "thread-died", "what": f"library thread died ({what}): {r['errors'][0]}", "expected": "-", "observed": repr(r["errors"][0]), "scenario": what}
    cb = slack(bound_tenths(chmax) / 10)
    if r["t"] > cb:
        return {"key": "connect-too-long", "what": f"connect took {r['t']:.1f} s ({what})",
                "expected": f"<= {cb:.1f} s (its own time-outs add up to {bound_tenths(chmax) / 10} s)", "observed": r["t"], "scenario": what}
    db = slack(drain_tenths() / 10 + 0.1)
    if r["t2"] - r["t"] > db:
        return {"key": "disconnect-too-long", "what": f"disconnect took {r['t2'] - r['t']:.1f} s ({what})", "expected": f"<= {db:.1f} s",
                "observed": r["t2"] - r["t"], "scenario": what}
    if r["thr2"] or r["live"]:
        return {"key": "thread-left", "what": f"library thread left alive after disconnect ({what}): {r['live']}", "expected": "none", "observed": r["live"], "scenario": what}
    if r["outcome"].startswith("raised") and r["thr"]:
        return {"key": "thread-left-after-failed-connect", "what": f"receive thread running after connect raised ({what})",
                "expected": "none", "observed": "running", "scenario": what}
    return None


PROP = C10()
