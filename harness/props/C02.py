"""C02 — only length-consistent, CRC-valid frames are ever accepted."""
from common import Prop, hexs, unhex, exc_name
from ref import ref_frame, ref_crc16_xmodem
import genlib as g

CB_OF = {2: ("cmninfo", lambda n: n == 0), 3: ("chinfo", lambda n: n == 1), 5: ("start", lambda n: n == 1),
         6: ("enable", lambda n: n != 0), 7: ("div", lambda n: n != 0)}


def accepts(d):
    """the right-hand side of the property: (fid, payload) if `d` is an acceptable frame else None"""
    if len(d) < 4 or d[0] != 0x55 or d[3] > 8:
        return None
    flen = d[1] | d[2] << 8
    if flen < 6 or flen > len(d) or ref_crc16_xmodem(d[:flen]) != 0:
        return None
    return d[3], d[4:flen - 2]


def crc16_generic(data, poly, init, refin, refout, xorout):
    reg = init
    for b in data:
        if refin:
            b = int(f"{b:08b}"[::-1], 2)
        reg ^= b << 8
        for _ in range(8):
            reg = ((reg << 1) ^ poly) & 0xFFFF if reg & 0x8000 else (reg << 1) & 0xFFFF
    if refout:
        reg = int(f"{reg:016b}"[::-1], 2)
    return reg ^ xorout


def wrong_footers(f):
    """the frame with its footer replaced by plausible mistakes"""
    body, c = f[:-2], f[-2] << 8 | f[-1]
    outs = [
        body + bytes([c & 0xFF, c >> 8]),                                   # little-endian CRC
        body + bytes([(c ^ 0xFFFF) >> 8, (c ^ 0xFFFF) & 0xFF]),             # complemented
    ]
    for poly, init, ri, ro, xo in [(0x1021, 0xFFFF, False, False, 0), (0x1021, 0, True, True, 0),
                                   (0x8005, 0, True, True, 0), (0x8005, 0xFFFF, True, True, 0),
                                   (0x1021, 0x1D0F, False, False, 0), (0x1021, 0xFFFF, True, True, 0xFFFF)]:
        v = crc16_generic(body, poly, init, ri, ro, xo)
        outs.append(body + bytes([v >> 8, v & 0xFF]))
    p = ref_crc16_xmodem(body[4:])
    outs.append(body + bytes([p >> 8, p & 0xFF]))                           # CRC over the payload only
    h = ref_crc16_xmodem(body[1:])
    outs.append(body + bytes([h >> 8, h & 0xFF]))                           # CRC without the start byte
    return [o for o in outs if o != f]


class Recorder:
    def __init__(self):
        from nxslib.proto.iparserecv import ParseRecvCb
        from nxslib.proto.parserecv import ParseRecv
        self.calls = []
        mk = lambda name: (lambda data: self.calls.append((name, bytes(data))))
        self.p = ParseRecv(ParseRecvCb(cmninfo=mk("cmninfo"), chinfo=mk("chinfo"), enable=mk("enable"),
                                       div=mk("div"), start=mk("start")))

    def handle(self, d):
        self.calls.clear()
        try:
            self.p.recv_handle(d)
        except AssertionError:
            return "raised assert"
        except Exception as e:
            return "raised " + exc_name(e)
        if not self.calls:
            return "ignored"
        if len(self.calls) > 1:
            return "multi " + repr(self.calls)
        return f"fired {self.calls[0][0]} {hexs(self.calls[0][1])}"


class C02(Prop):
    id = "C02"
    lean_module = "NxsModel.Props.C02"
    rule = ("byte strings through SerialFrame.frame_decode and ParseRecv.recv_handle (recorded callbacks): valid "
            "frames, near-miss CRCs (stored CRC chosen so the residue is 0x0001/0x0080/0x00ff/0x0100/0x8000/...), "
            "exhaustive sweeps of sof / id / declared length, truncations, extensions, over-long declared lengths "
            "on CRC-consistent prefixes, all 1-bit and sampled 2-bit / burst corruptions; distinct = distinct "
            "(op,input); non-trivial = input of >= 4 bytes containing 0x55")
    assumptions = ["crcmod validated against the Lean CRC, not verified",
                   "error-detection theorems are about crc16xmodem of the model; they apply to the code through "
                   "Gen.Crc.params = xmodem (regenerated) and the correspondence"]

    def __init__(self):
        from nxslib.proto.serialframe import SerialFrame
        self.sf = SerialFrame()
        self.rec = Recorder()

    def both(self, d, tag):
        yield f"frame decode {hexs(d)}", tag
        yield f"recv handle {hexs(d)}", tag

    def cases(self, rng, tier):
        T = tier == "thorough"
        # valid frames of every id; requests
        for _ in range(300 if T else 60):
            yield from self.both(g.valid_frame(rng), "valid")
            yield from self.both(g.request_frame(rng), "valid-request")
        # leading noise before a request (dispatcher crops to the first start byte)
        for _ in range(200 if T else 40):
            pre = bytes(rng.choice([0, 1, 0x54, 0x56, rng.randrange(256)]) for _ in range(rng.randrange(0, 5)))
            yield from self.both(pre + g.request_frame(rng), "leading-bytes")
        # near-miss CRCs
        for _ in range(40 if T else 8):
            f = g.request_frame(rng)
            for r in g.NEAR_RESIDUES:
                yield from self.both(g.near_miss(f, r), "near-miss-crc")
        # header sweeps
        bodies = [g.request_frame(rng) for _ in range(4 if T else 2)] + [ref_frame(2, b""), ref_frame(6, b"\x02\x00\x01")]
        for f in bodies:
            for sof in range(256):
                yield from self.both(bytes([sof]) + f[1:], "sweep-sof")
            for fid in range(256):
                # id changed, CRC recomputed so only the id decides
                body = f[:3] + bytes([fid]) + f[4:-2]
                c = ref_crc16_xmodem(body)
                yield from self.both(body + bytes([c >> 8, c & 0xFF]), "sweep-id")
                yield from self.both(f[:3] + bytes([fid]) + f[4:], "sweep-id-badcrc")
            for n in list(range(0, 13)) + [len(f) - 2, len(f) - 1, len(f), len(f) + 1, len(f) + 2, 200, 65535]:
                yield from self.both(g.set_len(f, n), "sweep-len")
                # CRC-consistent prefix with that declared length (so only the length guards decide)
                body = g.set_len(f, n)[:-2]
                c = ref_crc16_xmodem(body)
                yield from self.both(body + bytes([c >> 8, c & 0xFF]), "sweep-len-crcok")
        # declared length 0..5 with data whose prefix has residue 0 (b"" has CRC 0!)
        for n in range(0, 6):
            for _ in range(5):
                tail = g.rbytes(rng, rng.randrange(0, 8))
                yield from self.both(bytes([0x55, n, 0, rng.choice([2, 3, 5, 6, 7])]) + tail, "tiny-declared-len")
        # truncations and extensions
        for _ in range(60 if T else 15):
            f = g.request_frame(rng)
            for k in range(len(f) + 1):
                yield from self.both(f[:k], "truncated")
            yield from self.both(f + g.rbytes(rng, rng.randrange(1, 9)), "extended")
            yield from self.both(f + bytes(rng.randrange(1, 17)), "zero-padded")
        # over-long declared length on a string that is CRC-consistent as a whole
        for _ in range(50 if T else 10):
            body = bytes([0x55, rng.randrange(20, 256), rng.randrange(0, 2), rng.choice(g.REQ_IDS)]) + g.rbytes(rng, rng.randrange(0, 6))
            c = ref_crc16_xmodem(body)
            yield from self.both(body + bytes([c >> 8, c & 0xFF]), "overlong-declared")
        # corruptions: all single-bit flips; sampled double flips and bursts (length bytes intact or not)
        for _ in range(20 if T else 4):
            f = g.valid_frame(rng, fid=rng.choice(g.REQ_IDS), maxlen=10)
            nb = len(f) * 8
            for p in range(nb):
                yield from self.both(g.flip_bits(f, [p]), "flip-1")
            for _ in range(200 if T else 40):
                a, b = rng.sample(range(nb), 2)
                yield from self.both(g.flip_bits(f, [a, b]), "flip-2")
            for _ in range(200 if T else 40):
                start = rng.randrange(nb)
                pat = [start] + [start + k for k in range(1, 16) if start + k < nb and rng.random() < 0.5]
                yield from self.both(g.flip_bits(f, pat), "burst")
        # plausible-but-wrong footers: byte-swapped CRC, complemented, other CRC-16 variants, CRC over the payload only
        for _ in range(60 if T else 15):
            f = g.request_frame(rng)
            for bad in wrong_footers(f):
                yield from self.both(bad, "wrong-footer")
        # leading bytes + a frame that declares 1..4 bytes more than follow its start byte, CRC-consistent over what is there
        for _ in range(60 if T else 15):
            f = g.request_frame(rng)
            for k in range(1, 5):
                body = g.set_len(f, len(f) + k)[:-2]
                c = ref_crc16_xmodem(body)
                cut = body + bytes([c >> 8, c & 0xFF])
                for pre in (bytes(k), bytes(k + 2), g.rbytes(rng, k).replace(b"\x55", b"\x54")):
                    yield from self.both(pre + cut, "overlong-after-leading-bytes")
        if T:
            # exhaustive over the error classes for short frames: every 2-bit flip, and every burst pattern of span <= 16
            # that keeps the length bytes intact is sampled densely at EVERY offset
            for f in (ref_frame(5, b"\x01"), ref_frame(6, bytes([1, 0, 1, 0, 1, 1, 0])), ref_frame(3, b"\x07")):
                nb = len(f) * 8
                for a in range(nb):
                    for b in range(a + 1, nb):
                        yield from self.both(g.flip_bits(f, [a, b]), "flip-2-exhaustive")
                for start in range(nb):
                    for _ in range(24):
                        pat = [start] + [start + k for k in range(1, 16) if start + k < nb and rng.random() < 0.5]
                        yield from self.both(g.flip_bits(f, pat), "burst-every-offset")
                for _ in range(400):
                    k = rng.choice([3, 5, 7, 9])
                    yield from self.both(g.flip_bits(f, rng.sample(range(nb), k)), "flip-odd")
        # pure noise, 0x55-rich
        for _ in range(300 if T else 60):
            yield from self.both(g.noise(rng, rng.randrange(0, 24), sof_rich=True), "noise")

    def impl(self, line):
        t = line.split(" ")
        d = unhex(t[2])
        if t[0] == "frame":
            r = self.sf.frame_decode(d)
            if r.err != 0:
                return "err " + r.err.name
            return f"ok {int(r.fid)} {hexs(r.data)}"
        return self.rec.handle(d)

    def nontrivial(self, line, out):
        d = unhex(line.split(" ")[2])
        return len(d) >= 4 and 0x55 in d

    def oracle(self, line, impl_out=None):
        t = line.split(" ")
        d = unhex(t[2])
        if t[0] == "frame":
            from nxslib.proto.serialframe import SerialFrame
            r = SerialFrame().frame_decode(d)
            got = None if r.err != 0 else (int(r.fid), r.data)
            exp = accepts(d)
            if got != exp:
                return {"key": "decoder-accept", "what": "frame_decode accepts/rejects against the acceptance predicate "
                        "(0x55, known id, 6 <= declared length <= len, CRC over exactly the declared length, payload between)",
                        "expected": repr(exp), "observed": f"err={r.err.name} fid={int(r.fid)} data={hexs(r.data)}"}
            return None
        rec = Recorder()
        out = rec.handle(d)
        i = d.find(b"\x55")
        exp = accepts(d[i:]) if i >= 0 else None
        if exp is None:
            want = "ignored"
        else:
            fid, p = exp
            if fid in CB_OF and CB_OF[fid][1](len(p)):
                want = f"fired {CB_OF[fid][0]} {hexs(p)}"
            else:
                want = "raised assert"
        if out != want:
            return {"key": "dispatcher-accept", "what": "recv_handle reacts to a byte string against the acceptance predicate",
                    "expected": want, "observed": out}
        return None

    def extra_checks(self, rng, tier, ev):
        """acceptance must not depend on what the same decoder / dispatcher instance saw before"""
        viol = []
        n = 0
        from nxslib.proto.serialframe import SerialFrame
        for _ in range(400 if tier == "thorough" else 80):
            sf = SerialFrame()
            rec = Recorder()
            f = g.request_frame(rng)
            if len(f) <= 6:
                f = ref_frame(rng.choice([6, 7]), g.rbytes(rng, rng.randrange(3, 9)))
            seq = [f]
            for _ in range(rng.randrange(1, 4)):
                tw = bytearray(f)
                for _ in range(rng.choice([1, 1, 2, 3])):
                    tw[rng.randrange(4, len(f) - 2)] ^= 1 << rng.randrange(8)     # payload changed, header and CRC bytes kept
                seq.append(bytes(tw))
            seq.append(f)
            for d in seq:
                n += 1
                exp = accepts(d)
                r = sf.frame_decode(d)
                got = None if r.err != 0 else (int(r.fid), r.data)
                out = rec.handle(d)
                if got != exp or (exp is None and out != "ignored"):
                    viol.append({"key": "history-dependent-accept", "case": "sequence " + ",".join(hexs(x) for x in seq),
                                 "what": f"after the same instance had accepted {hexs(f)}, the byte string {hexs(d)} was treated differently from the acceptance predicate",
                                 "expected": repr(exp) + (" / ignored" if exp is None else ""), "observed": f"decoder: {got!r}; dispatcher: {out}",
                                 "sequence": [hexs(x) for x in seq]})
                    break
            if len(viol) >= 3:
                break
        ev["coverage"]["stateful_sequences_inputs"] = n
        return viol

    def replay(self, obj):
        if obj.get("key") == "history-dependent-accept":
            from nxslib.proto.serialframe import SerialFrame
            sf = SerialFrame()
            rec = Recorder()
            for h in obj["sequence"]:
                d = unhex(h)
                exp = accepts(d)
                r = sf.frame_decode(d)
                got = None if r.err != 0 else (int(r.fid), r.data)
                out = rec.handle(d)
                if got != exp or (exp is None and out != "ignored"):
                    return {"key": "history-dependent-accept", "what": f"{h} treated differently after the earlier inputs", "expected": repr(exp), "observed": f"{got!r} / {out}"}
            return None
        return self.oracle(obj["case"])

    def search_cases(self, rng):
        for _ in range(20):
            f = g.request_frame(rng)
            for bad in wrong_footers(f):
                yield f"frame decode {hexs(bad)}", "search"
                yield f"recv handle {hexs(bad)}", "search"
        for n in range(0, 8):
            for fid in (2, 3, 5, 6, 7, 9):
                for tail in (b"", b"\x00\x00", b"\xde\xad\xbe\xef", b"\x00" * 6):
                    d = bytes([0x55, n, 0, fid]) + tail
                    yield f"frame decode {hexs(d)}", "search"
                    yield f"recv handle {hexs(d)}", "search"


PROP = C02()
