"""C02 — only length-consistent, CRC-valid frames are ever accepted."""
import binascii
import time

from common import Prop, hexs, unhex, exc_name
from ref import ref_frame, ref_crc16_xmodem
import genlib as g

# two independent CRC-16/XMODEM implementations, neither of them nxslib's crcmod: the bitwise loop written from the
# protocol description (ref.py) and CPython's binascii.crc_hqx (poly 0x1021, MSB first, init given) — checked
# against each other here; the predicate uses the first on short strings and the second on long ones
assert binascii.crc_hqx(b"123456789", 0) == 0x31C3 == ref_crc16_xmodem(b"123456789")
_probe = bytes((i * 73 + 11) & 0xFF for i in range(5000))
assert binascii.crc_hqx(_probe, 0) == ref_crc16_xmodem(_probe)


def crc_ind(d):
    return ref_crc16_xmodem(d) if len(d) <= 600 else binascii.crc_hqx(bytes(d), 0)


def lframe(fid, p):
    """a valid frame (as ref_frame) of any legal length"""
    n = len(p) + 6
    assert n <= 0xFFFF
    pre = bytes([0x55, n & 0xFF, n >> 8, fid & 0xFF]) + p
    return pre + crc_ind(pre).to_bytes(2, "big")


def refoot(body):
    """body + the CRC that makes the whole string CRC-consistent"""
    return body + crc_ind(body).to_bytes(2, "big")


# total frame lengths around every power-of-two / buffer-size boundary up to the 16-bit limit; 263 = bulk request for 255 channels
LONG_LENS = [32, 63, 64, 65, 255, 256, 257, 263, 1023, 1024, 1025, 2047, 2048, 2049, 4095, 4096, 32767, 32768, 65535]

# request id -> (callback, payload sizes the NxScope protocol defines for that request).  The property says WHICH strings
# are accepted and that the payload handed on is the bytes between header and CRC; it says nothing about what the
# dispatcher does with an accepted frame whose payload size no request has (nxslib's callbacks assert on some of them):
# for those sizes — and for the accepted ids that are not requests — firing the right callback with exactly those bytes,
# raising (any exception) and doing nothing are all fine.  A frame with a protocol-defined size must fire.
REQ_OF = {2: ("cmninfo", lambda n: n == 0), 3: ("chinfo", lambda n: n == 1), 5: ("start", lambda n: n == 1),
          6: ("enable", lambda n: n >= 3), 7: ("div", lambda n: n >= 3)}
# (kept for harness/props/C20.py, which imports it: the payload-size asserts of nxslib's own callbacks; C02 does not use it)
CB_OF = {2: ("cmninfo", lambda n: n == 0), 3: ("chinfo", lambda n: n == 1), 5: ("start", lambda n: n == 1),
         6: ("enable", lambda n: n != 0), 7: ("div", lambda n: n != 0)}

# totals whose length field contains the start byte: 0x0055, 0x0155, 0x0255, 0x5500, 0x5555
LEN55 = [85, 341, 597, 21760, 21845]


def dispatcher_verdict(exp, out):
    """exp: accepts(cropped input); out: Recorder.handle -> None if fine else the text of what was allowed"""
    if exp is None:
        return None if out == "ignored" else "ignored"
    fid, p = exp
    if fid in REQ_OF:
        fired = f"fired {REQ_OF[fid][0]} {hexs(p)}"
        if REQ_OF[fid][1](len(p)):
            return None if out == fired else fired
        if out == fired or out == "ignored" or out.startswith("raised "):
            return None
        return f"{fired} (or an exception / nothing: a {len(p)}-byte payload is no {REQ_OF[fid][0]} request)"
    if out == "ignored" or out.startswith("raised "):
        return None
    return f"no callback (id {fid} is a known frame id but no request: an exception or nothing)"


def accepts(d):
    """the right-hand side of the property: (fid, payload) if `d` is an acceptable frame else None"""
    if len(d) < 4 or d[0] != 0x55 or d[3] > 8:
        return None
    flen = d[1] | d[2] << 8
    if flen < 6 or flen > len(d) or crc_ind(d[:flen]) != 0:
        return None
    return d[3], d[4:flen - 2]


def crc16_generic(data, poly, init, refin, refout, xorout):
    reg = init
    for b in data:
        if refin:
            b = int(f"{b:08b}"[::-1], 2)
        reg ^= b << 8
        for _ in range(8):
            reg = ((reg << 1) ^ poly) & 0xFFFF if reg & 0x8000 else (reg << 1) & 0xFFFF
    if refout:
        reg = int(f"{reg:016b}"[::-1], 2)
    return reg ^ xorout


def wrong_footers(f):
    """the frame with its footer replaced by plausible mistakes"""
    body, c = f[:-2], f[-2] << 8 | f[-1]
    outs = [
        body + bytes([c & 0xFF, c >> 8]),                                   # little-endian CRC
        body + bytes([(c ^ 0xFFFF) >> 8, (c ^ 0xFFFF) & 0xFF]),             # complemented
    ]
    for poly, init, ri, ro, xo in [(0x1021, 0xFFFF, False, False, 0), (0x1021, 0, True, True, 0),
                                   (0x8005, 0, True, True, 0), (0x8005, 0xFFFF, True, True, 0),
                                   (0x1021, 0x1D0F, False, False, 0), (0x1021, 0xFFFF, True, True, 0xFFFF)]:
        v = crc16_generic(body, poly, init, ri, ro, xo)
        outs.append(body + bytes([v >> 8, v & 0xFF]))
    p = ref_crc16_xmodem(body[4:])
    outs.append(body + bytes([p >> 8, p & 0xFF]))                           # CRC over the payload only
    h = ref_crc16_xmodem(body[1:])
    outs.append(body + bytes([h >> 8, h & 0xFF]))                           # CRC without the start byte
    return [o for o in outs if o != f]


def blockwise_footers(f):
    """long frames whose footer is the CRC of a block-wise routine gone wrong: the last byte of every B-byte block
    skipped, the first B bytes only, everything but the last block"""
    body = f[:-2]
    outs = []
    for B in (256, 512, 1024, 2048, 4096):
        if len(body) <= B:
            continue
        skipped = b"".join(body[i:i + B - 1] for i in range(0, len(body), B))
        for part in (skipped, body[:B], body[:len(body) // B * B] if len(body) % B else body[:-B]):
            outs.append(body + crc_ind(part).to_bytes(2, "big"))
    return [o for o in outs if o != f]


def bulk_request(rng, fid, nch):
    """a legal bulk enable / divider request for nch channels: flags = BULK (1), chan = 0, one byte per channel"""
    vals = bytes(rng.randrange(2) for _ in range(nch)) if fid == 6 else rng.randbytes(nch)
    return lframe(fid, bytes([1, 0]) + vals)


def _short(x, n=400):
    return x if len(x) <= n else f"{x[:n]}... ({len(x)} chars)"


class Recorder:
    def __init__(self):
        from nxslib.proto.iparserecv import ParseRecvCb
        from nxslib.proto.parserecv import ParseRecv
        self.calls = []
        mk = lambda name: (lambda data: self.calls.append((name, bytes(data))))
        self.p = ParseRecv(ParseRecvCb(cmninfo=mk("cmninfo"), chinfo=mk("chinfo"), enable=mk("enable"),
                                       div=mk("div"), start=mk("start")))

    def handle(self, d):
        self.calls.clear()
        try:
            self.p.recv_handle(d)
        except AssertionError:
            return "raised assert"
        except Exception as e:
            return "raised " + exc_name(e)
        if not self.calls:
            return "ignored"
        if len(self.calls) > 1:
            return "multi " + repr(self.calls)
        return f"fired {self.calls[0][0]} {hexs(self.calls[0][1])}"


class C02(Prop):
    id = "C02"
    lean_module = "NxsModel.Props.C02"
    rule = ("byte strings through SerialFrame.frame_decode and ParseRecv.recv_handle (recorded callbacks): valid "
            "frames, near-miss CRCs (stored CRC chosen so the residue is 0x0001/0x0080/0x00ff/0x0100/0x8000/...), "
            "exhaustive sweeps of sof / id / declared length, truncations, extensions, over-long declared lengths "
            "on CRC-consistent prefixes, all 1-bit and sampled 2-bit / burst corruptions; valid and near-valid frames of "
            "32, 63..65, 255..257, 263, 1023..1025, 2047..2049, 4095, 4096, 32767, 32768, 65535 bytes; block-wise-CRC "
            "footers; 2-bit flips at distance 32767 (accepted: the bound of the theorems is tight); real-code sweep of "
            "every 1-bit flip and the 2-bit flips / bursts at the 1 KiB block boundaries of a 2100- and a 4095-byte "
            "frame; EMBEDDED FRAMES: bulk requests whose value bytes spell another request (valid, every 1-bit flip, "
            "sampled 2-bit flips), junk candidates (unknown id, bad CRC, truncated, over-long declared length, lone 0x55 "
            "runs) followed by a valid request — only the FIRST 0x55 is a candidate; START BYTE INSIDE: total lengths "
            "85 / 341 / 597 / 21760 / 21845 (0x55 in the length field), payloads starting with / made of 0x55, runs of "
            "0x55 in front of a request; the dispatcher oracle demands a callback only for payload sizes the protocol "
            "defines (other sizes: right callback with the exact bytes, an exception, or nothing); "
            "distinct = distinct (op,input); non-trivial = input of >= 4 bytes containing 0x55")
    assumptions = ["crcmod validated against the Lean CRC, not verified",
                   "error-detection theorems are about crc16xmodem of the model; they apply to the code through "
                   "Gen.Crc.params = xmodem (regenerated) and the correspondence"]

    def __init__(self):
        from nxslib.proto.serialframe import SerialFrame
        self.sf = SerialFrame()
        self.rec = Recorder()

    def both(self, d, tag):
        yield f"frame decode {hexs(d)}", tag
        yield f"recv handle {hexs(d)}", tag

    def cases(self, rng, tier):
        T = tier == "thorough"
        # valid frames of every id; requests
        for _ in range(300 if T else 60):
            yield from self.both(g.valid_frame(rng), "valid")
            yield from self.both(g.request_frame(rng), "valid-request")
        # leading noise before a request (dispatcher crops to the first start byte)
        for _ in range(200 if T else 40):
            pre = bytes(rng.choice([0, 1, 0x54, 0x56, rng.randrange(256)]) for _ in range(rng.randrange(0, 5)))
            yield from self.both(pre + g.request_frame(rng), "leading-bytes")
        # near-miss CRCs
        for _ in range(40 if T else 8):
            f = g.request_frame(rng)
            for r in g.NEAR_RESIDUES:
                yield from self.both(g.near_miss(f, r), "near-miss-crc")
        # header sweeps
        bodies = [g.request_frame(rng) for _ in range(4 if T else 2)] + [ref_frame(2, b""), ref_frame(6, b"\x02\x00\x01")]
        for f in bodies:
            for sof in range(256):
                yield from self.both(bytes([sof]) + f[1:], "sweep-sof")
            for fid in range(256):
                # id changed, CRC recomputed so only the id decides
                body = f[:3] + bytes([fid]) + f[4:-2]
                c = ref_crc16_xmodem(body)
                yield from self.both(body + bytes([c >> 8, c & 0xFF]), "sweep-id")
                yield from self.both(f[:3] + bytes([fid]) + f[4:], "sweep-id-badcrc")
            for n in list(range(0, 13)) + [len(f) - 2, len(f) - 1, len(f), len(f) + 1, len(f) + 2, 200, 65535]:
                yield from self.both(g.set_len(f, n), "sweep-len")
                # CRC-consistent prefix with that declared length (so only the length guards decide)
                body = g.set_len(f, n)[:-2]
                c = ref_crc16_xmodem(body)
                yield from self.both(body + bytes([c >> 8, c & 0xFF]), "sweep-len-crcok")
        # declared length 0..5 with data whose prefix has residue 0 (b"" has CRC 0!)
        for n in range(0, 6):
            for _ in range(5):
                tail = g.rbytes(rng, rng.randrange(0, 8))
                yield from self.both(bytes([0x55, n, 0, rng.choice([2, 3, 5, 6, 7])]) + tail, "tiny-declared-len")
        # truncations and extensions
        for _ in range(60 if T else 15):
            f = g.request_frame(rng)
            for k in range(len(f) + 1):
                yield from self.both(f[:k], "truncated")
            yield from self.both(f + g.rbytes(rng, rng.randrange(1, 9)), "extended")
            yield from self.both(f + bytes(rng.randrange(1, 17)), "zero-padded")
        # over-long declared length on a string that is CRC-consistent as a whole
        for _ in range(50 if T else 10):
            body = bytes([0x55, rng.randrange(20, 256), rng.randrange(0, 2), rng.choice(g.REQ_IDS)]) + g.rbytes(rng, rng.randrange(0, 6))
            c = ref_crc16_xmodem(body)
            yield from self.both(body + bytes([c >> 8, c & 0xFF]), "overlong-declared")
        # corruptions: all single-bit flips; sampled double flips and bursts (length bytes intact or not)
        for _ in range(20 if T else 4):
            f = g.valid_frame(rng, fid=rng.choice(g.REQ_IDS), maxlen=10)
            nb = len(f) * 8
            for p in range(nb):
                yield from self.both(g.flip_bits(f, [p]), "flip-1")
            for _ in range(200 if T else 40):
                a, b = rng.sample(range(nb), 2)
                yield from self.both(g.flip_bits(f, [a, b]), "flip-2")
            for _ in range(200 if T else 40):
                start = rng.randrange(nb)
                pat = [start] + [start + k for k in range(1, 16) if start + k < nb and rng.random() < 0.5]
                yield from self.both(g.flip_bits(f, pat), "burst")
        # plausible-but-wrong footers: byte-swapped CRC, complemented, other CRC-16 variants, CRC over the payload only
        for _ in range(60 if T else 15):
            f = g.request_frame(rng)
            for bad in wrong_footers(f):
                yield from self.both(bad, "wrong-footer")
        # leading bytes + a frame that declares 1..4 bytes more than follow its start byte, CRC-consistent over what is there
        for _ in range(60 if T else 15):
            f = g.request_frame(rng)
            for k in range(1, 5):
                body = g.set_len(f, len(f) + k)[:-2]
                c = ref_crc16_xmodem(body)
                cut = body + bytes([c >> 8, c & 0xFF])
                for pre in (bytes(k), bytes(k + 2), g.rbytes(rng, k).replace(b"\x55", b"\x54")):
                    yield from self.both(pre + cut, "overlong-after-leading-bytes")
        if T:
            # exhaustive over the error classes for short frames: every 2-bit flip, and every burst pattern of span <= 16
            # that keeps the length bytes intact is sampled densely at EVERY offset
            for f in (ref_frame(5, b"\x01"), ref_frame(6, bytes([1, 0, 1, 0, 1, 1, 0])), ref_frame(3, b"\x07")):
                nb = len(f) * 8
                for a in range(nb):
                    for b in range(a + 1, nb):
                        yield from self.both(g.flip_bits(f, [a, b]), "flip-2-exhaustive")
                for start in range(nb):
                    for _ in range(24):
                        pat = [start] + [start + k for k in range(1, 16) if start + k < nb and rng.random() < 0.5]
                        yield from self.both(g.flip_bits(f, pat), "burst-every-offset")
                for _ in range(400):
                    k = rng.choice([3, 5, 7, 9])
                    yield from self.both(g.flip_bits(f, rng.sample(range(nb), k)), "flip-odd")
        yield from self.long_cases(rng, T)
        yield from self.embedded_cases(rng, T)
        yield from self.sof_inside_cases(rng, T)
        # pure noise, 0x55-rich
        for _ in range(300 if T else 60):
            yield from self.both(g.noise(rng, rng.randrange(0, 24), sof_rich=True), "noise")

    def embedded_cases(self, rng, T):
        """only the first 0x55 of a byte string is a frame candidate: a well-formed frame further on (inside the payload of
        a damaged frame, behind junk) must not be acted upon"""
        def quiet(n):
            return bytes(rng.choice([0, 1, 2, 0x54, 0x56, 0xAA, rng.randrange(256)]) for _ in range(n)).replace(b"\x55", b"\x45")
        inners = [ref_frame(5, b"\x01"), ref_frame(2, b""), ref_frame(3, bytes([rng.randrange(8)])), ref_frame(5, b"\x00"),
                  ref_frame(6, bytes([2, 0, 1])), ref_frame(7, bytes([0, rng.randrange(4), rng.randrange(256)]))]
        for k, inner in enumerate(inners):
            # a legal bulk divider / enable-shaped request whose value bytes contain the image of another request
            vals = (b"" if k == 0 else quiet(rng.randrange(0, 4))) + inner + (b"" if k == 0 else quiet(rng.randrange(0, 4)))
            outer = lframe(7 if k % 2 == 0 else 6, bytes([1, 0]) + vals)
            yield from self.both(outer, "embedded-valid-outer")
            nb = len(outer) * 8
            for p in range(nb):
                yield from self.both(g.flip_bits(outer, [p]), "embedded-flip-1")
            for _ in range(300 if T else 40):
                yield from self.both(g.flip_bits(outer, rng.sample(range(nb), 2)), "embedded-flip-2")
            yield from self.both(outer[:-1], "embedded-truncated")
            yield from self.both(g.near_miss(outer, rng.choice(g.NEAR_RESIDUES)), "embedded-near-miss")
            yield from self.both(g.set_len(outer, len(outer) + 1), "embedded-overlong")
        # junk that starts with 0x55 and is no frame, followed by a valid request
        for _ in range(40 if T else 8):
            req = g.request_frame(rng)
            other = g.request_frame(rng)
            junks = [bytes.fromhex("550600ff0000"), b"\x55", b"\x55\x55", b"\x55\x00", bytes.fromhex("550600020000"),
                     other[:-1], other[:-2], g.flip_bits(other, [rng.randrange(24, len(other) * 8)]),
                     refoot(other[:3] + bytes([rng.randrange(9, 256)]) + other[4:-2]),
                     g.set_len(other, len(other) + len(req) + 1), refoot(g.set_len(other, 200)[:-2]),
                     bytes([0x55, rng.randrange(0, 6), 0, 2])]
            for j in junks:
                yield from self.both(j + req, "junk-then-valid")
                yield from self.both(quiet(rng.randrange(0, 3)) + j + quiet(rng.randrange(0, 3)) + req, "junk-then-valid")

    def sof_inside_cases(self, rng, T):
        """the start byte value inside a frame: in the length field, as first payload byte, as a run in front"""
        for L in LEN55:
            big = L > 5000
            for fid in ((6, 7, 0, 8) if (T or not big) else (7,)):
                f = lframe(fid, bytes([1, 0]) + rng.randbytes(L - 8))
                assert len(f) == L
                yield from self.both(f, "len55-valid")
                yield from self.both(bytes(rng.randrange(1, 5)) + f + bytes(-(L + 4) % 16), "len55-padded")
                if big and not T:
                    continue
                yield from self.both(g.flip_bits(f, [rng.randrange(24, L * 8)]), "len55-flip-1")
                yield from self.both(f[:-1], "len55-truncated")
        for _ in range(40 if T else 10):
            fid = rng.choice([6, 7, 6, 7, rng.randrange(9)])
            p = rng.choice([b"\x55" + g.rbytes(rng, rng.randrange(2, 9)), b"\x55" * rng.randrange(3, 9), bytes([1, 0x55]) + g.rbytes(rng, 3)])
            f = lframe(fid, p)
            yield from self.both(f, "sof-payload")
            yield from self.both(g.flip_bits(f, [rng.randrange(24, len(f) * 8)]), "sof-payload-flip-1")
        for f in (ref_frame(3, b"\x55"), ref_frame(5, b"\x55")):
            yield from self.both(f, "sof-payload")
        for _ in range(20 if T else 6):
            req = g.request_frame(rng)
            for k in range(1, 5):
                yield from self.both(b"\x55" * k + req, "sof-run-then-valid")
                yield from self.both(b"\x00" + b"\x55" * k + req, "sof-run-then-valid")

    def long_cases(self, rng, T):
        """valid and near-valid frames of every length class up to the 16-bit limit, through decoder and dispatcher"""
        for L in LONG_LENS:
            big = L > 5000
            n = L - 6
            if L == 263:
                f = bulk_request(rng, rng.choice([6, 7]), 255)
            else:
                f = lframe(rng.choice([6, 7]), rng.randbytes(n))
            assert len(f) == L
            nb = L * 8
            yield from self.both(f, "long-valid")
            # one flipped bit (anywhere but the length field), one flipped bit in the last payload byte / first CRC byte
            p = rng.choice([rng.randrange(0, 8), rng.randrange(24, nb)])
            yield from self.both(g.flip_bits(f, [p]), "long-flip-1")
            yield from self.both(f[:-1], "long-truncated")
            if big and not T:
                continue
            # the other ids: the decoder accepts, the dispatcher asserts
            yield from self.both(lframe(rng.choice([0, 1, 2, 3, 4, 5, 8]), rng.randbytes(n)), "long-valid-other-id")
            yield from self.both(g.flip_bits(f, [rng.randrange(nb - 24, nb - 8)]), "long-flip-1")
            yield from self.both(g.near_miss(f, rng.choice(g.NEAR_RESIDUES)), "long-near-miss")
            a = rng.randrange(24, nb)
            yield from self.both(g.flip_bits(f, [a, rng.choice([x for x in (a + 1, a - 1, a + 17, a - 1000, rng.randrange(24, nb)) if 24 <= x < nb and x != a])]), "long-flip-2")
            start = rng.randrange(24, nb - 16)
            yield from self.both(g.flip_bits(f, [start] + [start + k for k in range(1, 16) if rng.random() < 0.5]), "long-burst")
            # declared length one more than there is (CRC-consistent over what is there), one less (a CRC-consistent shorter
            # frame followed by a stray byte: accepted), trailing bytes, leading bytes
            if L < 0xFFFF:
                yield from self.both(refoot(g.set_len(f, L + 1)[:-2]), "long-overlong-declared")
            yield from self.both(refoot(g.set_len(f, L - 1)[:-3]) + b"\x00", "long-shorter-declared")
            yield from self.both(f + rng.randbytes(rng.randrange(1, 4)), "long-extended")
            yield from self.both(bytes([rng.choice([0, 0x54, 0xAA])]) + f, "long-leading-byte")
        # footers of a block-wise CRC routine gone wrong (frames over 256 bytes only)
        for L in ((300, 1030, 2100, 4110) if not T else (257, 300, 513, 1024, 1025, 1026, 1030, 2049, 2100, 3073, 4095, 4097, 4110, 8200, 20000)):
            f = lframe(rng.choice([6, 7]), rng.randbytes(L - 6))
            for bad in blockwise_footers(f):
                yield from self.both(bad, "wrong-footer-blockwise")
        # the bound of the error-detection theorems is tight: x has order 32767 modulo the generator, so two flipped bits
        # 32767 positions apart leave the CRC unchanged.  Up to 4099 bytes such a pair has to hit the start byte, the length
        # field or the top bit of the id (rejected for those reasons); from 4100 bytes on it fits in id-lsb/payload/CRC: ACCEPTED.
        f = lframe(6, rng.randbytes(4100 - 6))
        yield from self.both(g.flip_bits(f, [32, 32 + 32767]), "order-32767-accepted")
        f = lframe(rng.choice([0, 2, 4, 6]), rng.randbytes(4100 - 6))
        yield from self.both(g.flip_bits(f, [31, 31 + 32767]), "order-32767-accepted")          # id lsb + last CRC bit
        for _ in range(12 if T else 3):
            L = rng.randrange(4101, 9000)
            f = lframe(rng.choice([6, 7]), rng.randbytes(L - 6))
            k = rng.randrange(32, L * 8 - 32767)
            yield from self.both(g.flip_bits(f, [k, k + 32767]), "order-32767-accepted")
            yield from self.both(g.flip_bits(f, [k, k + 32766]), "order-32766-rejected")
        for L in (4096, 4097, 4099):
            f = lframe(7, rng.randbytes(L - 6))
            for k in sorted({0, rng.randrange(1, 8), 7} | ({24} if L == 4099 else set())):
                if k + 32767 < L * 8:
                    d = g.flip_bits(f, [k, k + 32767])
                    yield f"frame crc {hexs(d)}", "order-32767-crc-blind"                      # the CRC itself is 0 ...
                    yield from self.both(d, "order-32767-hits-header")                           # ... the header checks reject

    def impl(self, line):
        t = line.split(" ")
        d = unhex(t[2])
        if t[1] == "crc":
            return f"ok {self.sf._crc16_func(d)}"
        if t[0] == "frame":
            r = self.sf.frame_decode(d)
            if r.err != 0:
                return "err " + r.err.name
            return f"ok {int(r.fid)} {hexs(r.data)}"
        return self.rec.handle(d)

    def nontrivial(self, line, out):
        d = unhex(line.split(" ")[2])
        return len(d) >= 4 and 0x55 in d

    def oracle(self, line, impl_out=None, sf=None, rec=None):
        """judge the real code on one line; fresh instances unless the caller passes long-lived ones"""
        t = line.split(" ")
        d = unhex(t[2])
        if t[0] == "frame":
            if sf is None:
                from nxslib.proto.serialframe import SerialFrame
                sf = SerialFrame()
            if t[1] == "crc":
                ok = sf.foot_validate(d)
                if bool(ok) != (crc_ind(d) == 0):
                    return {"key": "footer-validate", "what": f"foot_validate over {len(d)} bytes against 'CRC-16/XMODEM residue is 0'",
                            "expected": repr(crc_ind(d) == 0), "observed": repr(ok)}
                return None
            r = sf.frame_decode(d)
            got = None if r.err != 0 else (int(r.fid), r.data)
            exp = accepts(d)
            if got != exp:
                return {"key": "decoder-accept", "what": f"frame_decode of {len(d)} bytes accepts/rejects against the acceptance predicate "
                        "(0x55, known id, 6 <= declared length <= len, CRC over exactly the declared length, payload between)",
                        "expected": _short(repr(exp) if exp is None else f"({exp[0]}, {hexs(exp[1])})"),
                        "observed": _short(f"err={r.err.name} fid={int(r.fid)} data={hexs(r.data)}")}
            return None
        if rec is None:
            rec = Recorder()
        out = rec.handle(d)
        i = d.find(b"\x55")
        exp = accepts(d[i:]) if i >= 0 else None
        want = dispatcher_verdict(exp, out)
        if want is not None:
            return {"key": "dispatcher-accept", "what": f"recv_handle reacts to a byte string of {len(d)} bytes against the acceptance predicate "
                    "applied at its FIRST 0x55 (no frame there: nothing may happen; a frame there: its callback with the bytes "
                    "between header and CRC)",
                    "expected": _short(want), "observed": _short(out)}
        return None

    def extra_checks(self, rng, tier, ev):
        return self.history_checks(rng, tier, ev) + self.sweep_long(rng, tier, ev)

    def sweep_long(self, rng, tier, ev):
        """real code only, judged by the independent CRC: a 2100-byte and a 4095-byte valid frame must be accepted, and
        EVERY single-bit flip outside the length field, every 2-bit flip within the bytes around each 1 KiB block boundary
        and the <=16-bit bursts starting there must be rejected (reject_single_double / reject_burst say so for the model;
        a CRC routine that works block by block has its bugs exactly there).  quick: boundaries first, then single flips in
        random order until 5 s are spent; thorough: everything."""
        from nxslib.proto.serialframe import SerialFrame
        budget = None if tier == "thorough" else float(__import__("os").environ.get("VERIF_C02_SWEEP_S", "5"))
        t0 = time.time()
        viol = []
        done = {"frames": 0, "flip1": 0, "flip2": 0, "burst": 0, "complete": True}

        def judge(w, d, sf, rec, cls):
            """corrupted d (from valid w): both decoder and dispatcher against the predicate, on long-lived instances; a
            discrepancy is re-judged on fresh instances to name it a plain or a history-dependent violation"""
            if cls is not None and accepts(d) is not None:
                raise AssertionError(f"harness: the independent predicate accepts a {cls} corruption of a {len(w)}-byte frame")
            for line in (f"frame decode {hexs(d)}", f"recv handle {hexs(d)}"):
                v = self.oracle(line, sf=sf, rec=rec)
                if v:
                    v2 = self.oracle(line)
                    if v2:
                        v2["case"] = line
                        v2["what"] += f" [{cls or 'valid frame'}, sweep over a {len(w)}-byte frame]"
                        return v2
                    return {"key": "history-dependent-accept", "case": "sequence (see `sequence`)", "sequence": [hexs(w), hexs(d)],
                            "what": f"after the same instance had accepted a {len(w)}-byte frame, its {cls} corruption was treated "
                                    "differently from the acceptance predicate", "expected": v["expected"], "observed": v["observed"]}
            return None

        plans = []
        for L in (2100, 4095):
            w = lframe(rng.choice([6, 7]), rng.randbytes(L - 6))
            sf, rec = SerialFrame(), Recorder()
            v = judge(w, w, sf, rec, None)
            done["frames"] += 1
            if v:
                return [v]
            nb = L * 8
            bnd = [o for o in (1022, 1023, 1024, 1025, 1026, 2046, 2047, 2048, 2049, 2050, 4093, 4094) if o < L]
            work = []
            for o in bnd:
                lo, hi = o * 8, min(nb, o * 8 + 16)
                for a in range(lo, min(nb, lo + 8)):
                    work.append(("flip1", [a]))
                    for b in range(a + 1, hi):
                        work.append(("flip2", [a, b]))
                    # bursts starting at bit a: the full 16 bits, both ends only, and random fillings
                    span = [a + k for k in range(1, 16) if a + k < nb]
                    work.append(("burst", [a] + span))
                    for _ in range(6):
                        work.append(("burst", [a] + [x for x in span if rng.random() < 0.5]))
                # 2-bit flips from the boundary byte to far away (another block, the CRC bytes)
                for _ in range(8):
                    work.append(("flip2", [rng.randrange(lo, lo + 8), rng.choice([rng.randrange(24, nb), rng.randrange(nb - 16, nb)])]))
            work = [(c, sorted(set(b))) for c, b in work if len(set(b)) == len(b)]
            singles = [("flip1", [a]) for a in list(range(0, 8)) + list(range(24, nb))]
            rng.shuffle(singles)
            plans.append((w, sf, rec, work, singles))
        names = {"flip1": "1-bit", "flip2": "2-bit", "burst": "burst<=16"}
        for stage in (0, 1):         # 0: the block boundaries of both frames, 1: every single-bit flip of both frames
            for w, sf, rec, work, singles in plans:
                for cls, bits in (work, singles)[stage]:
                    if budget is not None and time.time() - t0 > budget:
                        done["complete"] = False
                        break
                    if cls == "flip2" and any(8 <= b < 24 for b in bits):
                        continue
                    v = judge(w, g.flip_bits(w, bits), sf, rec, names[cls])
                    done[cls] += 1
                    if v:
                        v["flipped_bits"] = bits
                        viol.append(v)
                        break
                if viol:
                    break
            if viol:
                break
        done["wall_s"] = round(time.time() - t0, 2)
        ev["coverage"]["long_frame_sweep"] = done
        return viol

    def history_checks(self, rng, tier, ev):
        """acceptance must not depend on what the same decoder / dispatcher instance saw before"""
        viol = []
        n = 0
        from nxslib.proto.serialframe import SerialFrame
        for _ in range(400 if tier == "thorough" else 80):
            sf = SerialFrame()
            rec = Recorder()
            f = g.request_frame(rng)
            if len(f) <= 6:
                f = ref_frame(rng.choice([6, 7]), g.rbytes(rng, rng.randrange(3, 9)))
            seq = [f]
            for _ in range(rng.randrange(1, 4)):
                tw = bytearray(f)
                for _ in range(rng.choice([1, 1, 2, 3])):
                    tw[rng.randrange(4, len(f) - 2)] ^= 1 << rng.randrange(8)     # payload changed, header and CRC bytes kept
                seq.append(bytes(tw))
            seq.append(f)
            # a string that is a frame in everything but its header (wrong start byte, unknown id, or a declared length
            # one off) WITH a footer that is the CRC of exactly those bytes, offered two or three times in a row after
            # the valid frame: a rejected header must stay rejected however often the same bytes come back
            for _ in range(rng.randrange(0, 3)):
                body = bytearray(f[:-2])
                how = rng.randrange(3)
                if how == 0:
                    body[0] = rng.choice([0x00, 0x54, 0x56, 0xAA, 0xD5, rng.randrange(256)])
                elif how == 1:
                    body[3] = rng.choice([9, 10, 0x80 | f[3], 255, rng.randrange(9, 256)])
                else:
                    body[1] = (body[1] + rng.choice([1, 255])) & 0xFF
                x = bytes(body) + ref_crc16_xmodem(bytes(body)).to_bytes(2, "big")
                seq += [x] * rng.randrange(2, 4)
                if rng.random() < 0.5:
                    seq.append(f)
            for d in seq:
                n += 1
                exp = accepts(d)
                r = sf.frame_decode(d)
                got = None if r.err != 0 else (int(r.fid), r.data)
                out = rec.handle(d)
                k55 = d.find(b"\x55")
                exp_disp = accepts(d[k55:]) if k55 >= 0 else None     # the dispatcher judges from the first start byte on
                if got != exp or (exp_disp is None and out != "ignored"):
                    viol.append({"key": "history-dependent-accept", "case": "sequence " + ",".join(hexs(x) for x in seq),
                                 "what": f"after the same instance had accepted {hexs(f)}, the byte string {hexs(d)} was treated differently from the acceptance predicate",
                                 "expected": repr(exp) + (" / ignored" if exp is None else ""), "observed": f"decoder: {got!r}; dispatcher: {out}",
                                 "sequence": [hexs(x) for x in seq]})
                    break
            if len(viol) >= 3:
                break
        ev["coverage"]["stateful_sequences_inputs"] = n
        return viol

    def replay(self, obj):
        if obj.get("key") == "history-dependent-accept":
            from nxslib.proto.serialframe import SerialFrame
            sf = SerialFrame()
            rec = Recorder()
            for h in obj["sequence"]:
                d = unhex(h)
                exp = accepts(d)
                r = sf.frame_decode(d)
                got = None if r.err != 0 else (int(r.fid), r.data)
                out = rec.handle(d)
                k55 = d.find(b"\x55")
                exp_disp = accepts(d[k55:]) if k55 >= 0 else None
                if got != exp or (exp_disp is None and out != "ignored"):
                    return {"key": "history-dependent-accept", "what": f"{h} treated differently after the earlier inputs", "expected": repr(exp), "observed": f"{got!r} / {out}"}
            return None
        return self.oracle(obj["case"])

    def search_cases(self, rng):
        for _ in range(20):
            f = g.request_frame(rng)
            for bad in wrong_footers(f):
                yield f"frame decode {hexs(bad)}", "search"
                yield f"recv handle {hexs(bad)}", "search"
        for n in range(0, 8):
            for fid in (2, 3, 5, 6, 7, 9):
                for tail in (b"", b"\x00\x00", b"\xde\xad\xbe\xef", b"\x00" * 6):
                    d = bytes([0x55, n, 0, fid]) + tail
                    yield f"frame decode {hexs(d)}", "search"
                    yield f"recv handle {hexs(d)}", "search"


PROP = C02()
