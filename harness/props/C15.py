"""C15 — what the simulated device streams decodes back to what its channels produced."""
from common import Prop, hexs, unhex, exc_name
import streamglue as sg
import streamgen as gen
from props.C04 import parse_user


def layout_of(samples):
    """layout implied by a sample list in device-side syntax: chan -> (ty, vdim, mlen)"""
    lay = {}
    for s in samples:
        c, ty, vd, ml, _, _ = sg.parse_sample(s)
        lay[c] = (ty, vd, ml)
    n = max(lay) + 1 if lay else 0
    return [lay.get(i, (2, 1, 0)) for i in range(n)]


class C15(Prop):
    id = "C15"
    lean_module = "NxsModel.Props.C15"
    rule = ("sample lists over random layouts (all 18 standard types incl. fixed-point, user NUM/COMPLEX/CHAR types, "
            "channel ids up to 254, vdim 1..255, mlen 0..255) with representable values (extremes, quiet NaN/inf, "
            "fixed-point raws with |raw| < 2^53, NUL-padded text) through ParseRecv.frame_stream_encode; empty samples "
            "mixed in; unrepresentable values and oversize lists on the error branch; distinct = distinct (user,samples); "
            "non-trivial = at least one sample with data or metadata")
    assumptions = ["Representable: integer in range of the type; float exactly a float32/float64 (quiet NaNs); fixed-point "
                   "raw/2^frac exactly a Python float (|raw| < 2^53); char data at most vdim bytes (NUL padded)"]

    def __init__(self):
        from nxslib.proto.parserecv import ParseRecv
        from nxslib.proto.iparserecv import ParseRecvCb
        from nxslib.proto.parse import Parser
        from nxslib.proto.serialframe import SerialFrame
        self.ParseRecv, self.ParseRecvCb, self.Parser, self.SerialFrame = ParseRecv, ParseRecvCb, Parser, SerialFrame

    _encoders = {}

    def _recv(self, user, fresh=False):
        """one long-lived device-side encoder per user-type configuration (a device keeps its encoder)"""
        key = sg.user_str(user)
        if fresh or key not in self._encoders:
            n = lambda d: None
            enc = self.ParseRecv(self.ParseRecvCb(n, n, n, n, n), self.SerialFrame, sg.real_user(user))
            if fresh:
                return enc
            self._encoders[key] = enc
        return self._encoders[key]

    def cases(self, rng, tier):
        T = tier == "thorough"
        for it in range(1500 if T else 300):
            user = gen.gen_user(rng)
            layout = gen.gen_layout(rng, user, big=(it % 40 == 39))
            ns = rng.choice([0, 1, 1, 2, 3, 5, rng.randrange(0, 12)])
            strs = []
            for _ in range(ns):
                chan = rng.randrange(len(layout))
                smp = gen.gen_sample(rng, layout, user, chan, for_encode=True)
                if rng.random() < 0.12:
                    ty, vd, ml = layout[chan]
                    strs.append(f"{chan},{ty},{vd},{ml},[],[]")          # carries neither data nor metadata
                else:
                    strs.append(gen.sample_str(layout, user, smp, client_side=False))
            yield f"stream encf {sg.user_str(user)} {'|'.join(strs) or '-'}", ("samples" if strs else "empty")
        # error branch: values out of range, fixed-point of the wrong fraction, wrong arity, unknown type
        for s in ["0,2,1,0,[i:256],[]", "0,3,1,0,[i:-129],[]", "0,12,1,0,[x:65536:8],[]", "0,13,1,0,[x:-32769:8],[]",
                  "0,2,2,0,[i:1],[]", "0,2,1,0,[i:1;i:2],[]", "0,25,1,0,[i:1],[]", "255,2,1,0,[i:1],[]", "254,2,1,0,[i:1],[]",
                  "0,2,1,1,[i:1],[]", "0,2,1,1,[i:1],[256]", "0,2,1,2,[i:1],[65535]", "0,1,0,16,[],[1;2;3;4;5;6;7;8;9;10;11;12;13;14;15;16]",
                  "0,1,3,0,[],[]", "0,1,3,1,[],[7]", "0,18,4,0,[t:68656c6c6f],[]", "0,18,4,0,[t:6869],[]"]:
            yield f"stream encf - {s}", "edge"
        # oversize: payload beyond 65529 bytes must be refused
        big = "|".join(f"{i % 4},11,64,0,[{';'.join(['d:3ff0000000000000'] * 64)}],[]" for i in range(130))
        yield f"stream encf - {big}", "oversize"

    def impl(self, line):
        t = line.split(" ")
        user = parse_user(t[2])
        try:
            f = self._recv(user).frame_stream_encode(sg.real_samples(t[3]))
        except Exception as e:
            return "err " + exc_name(e)
        return "ok none" if f is None else "ok " + hexs(f)

    def nontrivial(self, line, out):
        return "[i:" in line or "[x:" in line or "[f:" in line or "[d:" in line or "[t:" in line or "[b:" in line or "[o:" in line

    def oracle(self, line, impl_out=None):
        """encode on the device side, decode on the client side: same samples (those with data or metadata), same order;
        none left -> no frame"""
        t = line.split(" ")
        user = parse_user(t[2])
        if t[3] == "-":
            strs = []
        else:
            strs = t[3].split("|")
        parsed = [sg.parse_sample(s) for s in strs]
        # Representable / well-formed guard
        for c, ty, vd, ml, data, meta in parsed:
            if ty not in sg.STD and ty not in user:
                return None
            if c > 254:
                return None
            atoms = sg.sample_atoms(ty, vd, user)
            if data and len(atoms) != len(data):
                return None
            if ty in sg.STD and (ty == 1) != (vd == 0):
                return None
            if meta and len(meta) != len(sg.meta_atoms(ml)):
                return None
            if (data or meta) and (not data and atoms or (not meta and ml)):
                return None   # half-empty samples are not well-formed for their channel
            for (code, size), v in zip(atoms, data):
                k, _, rest = v.partition(":")
                if k in ("i", "x"):
                    raw = int(rest.split(":")[0])
                    lo, hi = gen.int_range(code)
                    if not lo <= raw <= hi:
                        return None
                    if k == "x" and (int(rest.split(":")[1]) != sg.frac_of(ty) or abs(raw) >= 1 << 53):
                        return None
                if k == "t" and len(bytes.fromhex(rest) if rest != "-" else b"") > size:
                    return None
            for (code, size), m in zip(sg.meta_atoms(ml), meta):
                if not 0 <= m < 1 << (8 * size):
                    return None
        keep = [p for p in parsed if p[4] or p[5]]
        layout = layout_of(strs)
        try:
            f = self._recv(user).frame_stream_encode(sg.real_samples(t[3]))
        except Exception as e:
            wire = sg.ref_wire(layout, user, [(c, d, m) for c, ty, vd, ml, d, m in keep]) if keep else b""
            if len(wire) > 65529:
                return None   # refusal of an oversize frame is what C01 demands
            return {"key": "encode-raises", "what": f"encoding representable samples raised {type(e).__name__}: {e}",
                    "expected": "a frame", "observed": exc_name(e)}
        if not keep:
            if f is not None:
                return {"key": "frame-for-nothing", "what": "a frame was produced although no sample carries data or metadata",
                        "expected": "None", "observed": hexs(f)}
            return None
        if f is None:
            return {"key": "no-frame", "what": "no frame produced", "expected": "a frame", "observed": "None"}
        fr = self.SerialFrame().frame_decode(f)
        if fr.err != 0 or int(fr.fid) != 1:
            return {"key": "bad-frame", "what": "encoder output is not a valid STREAM frame", "expected": "STREAM", "observed": str(fr.err)}
        try:
            ds = self.Parser(user_types=sg.real_user(user)).frame_stream_decode(fr, sg.real_device(layout))
        except Exception as e:
            return {"key": "round-trip", "what": f"the client decoder raises {type(e).__name__} on the frame the device-side encoder built "
                    "for representable samples", "expected": "the samples", "observed": exc_name(e), "payload": hexs(fr.data)[:200]}
        got = sg.canon_decoded(ds, layout, user, fr.data)
        exp = []
        for c, ty, vd, ml, data, meta in keep:
            vals = []
            for (code, size), v in zip(sg.sample_atoms(ty, vd, user), data):
                if v.startswith("t:"):
                    b = bytes.fromhex(v[2:]) if v[2:] != "-" else b""
                    vals.append("t:" + hexs(b + bytes(size - len(b))))
                elif v.startswith("b:") and code == "s":
                    b = bytes.fromhex(v[2:]) if v[2:] != "-" else b""
                    vals.append("b:" + hexs((b + bytes(size))[:size]))
                else:
                    vals.append(v)
            exp.append(f"{c},{sg.dtype_of(ty, user)},{vd},{ml},[{';'.join(vals)}],[{';'.join(str(m) for m in meta)}]")
        want = "ok 0 " + "|".join(exp)
        if got != want:
            return {"key": "round-trip", "what": "decode(encode(samples)) differs from the samples", "expected": want[:500], "observed": got[:500]}
        return None


PROP = C15()
