"""C15 — what the simulated device streams decodes back to what its channels produced."""
from common import Prop, hexs, unhex, exc_name
import streamglue as sg
import streamgen as gen
from props.C04 import parse_user


def layout_of(samples):
    """layout implied by a sample list in device-side syntax: chan -> (ty, vdim, mlen)"""
    lay = {}
    for s in samples:
        c, ty, vd, ml, _, _ = sg.parse_sample(s)
        lay[c] = (ty, vd, ml)
    n = max(lay) + 1 if lay else 0
    return [lay.get(i, (2, 1, 0)) for i in range(n)]


class C15(Prop):
    id = "C15"
    lean_module = "NxsModel.Props.C15"
    rule = ("sample lists over random layouts (all 18 standard types incl. fixed-point, user NUM/COMPLEX/CHAR types with "
            "random format strings and ids 20..31, channel ids up to 254, vdim over 1..255, mlen over 0..255, en / critical / "
            "device flags of the client's device object varied) with representable values (extremes, quiet NaN/inf, "
            "fixed-point raws k*2^j up to the type limits: 2^62, (2^53-1)*2^11, -2^63 ..., NUL-padded UTF-8 text) through the "
            "whole path ParseRecv.frame_stream_encode -> SerialFrame.frame_decode -> Parser.frame_stream_decode; sweeps: every "
            "raw of the 8/16-bit types, the float-exact 2^k / 2^k±1 / complement patterns of the 32/64-bit ones, every float32 "
            "exponent, every mlen, every vdim, every channel id; empty samples and all-empty lists mixed in on long-lived "
            "encoders; unrepresentable values and oversize lists on the error branch; distinct = distinct (layout,user,samples); "
            "non-trivial = at least one sample with data or metadata")
    assumptions = ["Representable: integer in range of the type; float values numbers, infinities or quiet NaNs (no Python float "
                   "narrows to a signalling float32 NaN; the encoder's x*1.0 quiets a signalling float64 NaN — NaNs are kept as a class); fixed-point raw/2^frac exactly a Python float (raw = m*2^e, |m| < 2^53); char "
                   "data valid UTF-8 of at most vdim bytes (NUL padded)"]

    def __init__(self):
        from nxslib.proto.parserecv import ParseRecv
        from nxslib.proto.iparserecv import ParseRecvCb
        from nxslib.proto.parse import Parser
        from nxslib.proto.serialframe import SerialFrame
        self.ParseRecv, self.ParseRecvCb, self.Parser, self.SerialFrame = ParseRecv, ParseRecvCb, Parser, SerialFrame

    _encoders = {}
    _parsers = {}

    def _recv(self, user, fresh=False):
        """one long-lived device-side encoder per user-type configuration (a device keeps its encoder)"""
        key = sg.user_str(user)
        if fresh or key not in self._encoders:
            n = lambda d: None
            enc = self.ParseRecv(self.ParseRecvCb(n, n, n, n, n), self.SerialFrame, sg.real_user(user))
            if fresh:
                return enc
            self._encoders[key] = enc
        return self._encoders[key]

    def _parser(self, user):
        """one long-lived client parser per user-type configuration"""
        key = sg.user_str(user)
        if key not in self._parsers:
            self._parsers[key] = self.Parser(user_types=sg.real_user(user))
        return self._parsers[key]

    def cases(self, rng, tier):
        T = tier == "thorough"
        for it in range(5000 if T else 300):
            user = gen.gen_user(rng)
            layout = gen.gen_layout(rng, user, big=(it % 40 == 39))
            xs = gen.gen_xs(rng, layout)
            ns = rng.choice([0, 1, 1, 2, 3, 5, rng.randrange(0, 12)])
            allempty = rng.random() < 0.06
            strs = []
            for _ in range(ns):
                chan = rng.randrange(len(layout))
                smp = gen.gen_sample(rng, layout, user, chan, for_encode=True)
                if allempty or rng.random() < 0.12:
                    ty, vd, ml = layout[chan]
                    strs.append(f"{chan},{ty},{vd},{ml},[],[]")          # carries neither data nor metadata
                else:
                    strs.append(gen.sample_str(layout, user, smp, client_side=False))
            yield f"stream rt {sg.layout_str(layout, xs)} {sg.user_str(user)} {'|'.join(strs) or '-'}", ("samples" if strs else "empty")
        # per-type sweeps through encode AND decode: all raws of the 8/16-bit types, the float-exact bit-pattern families
        # of the wider ones (k*2^j up to the type limits), every float32 exponent
        for ty in range(2, 18):
            vals = gen.sweep_values(ty, T, for_encode=True)
            for ch in gen.chunks(vals, 255):
                yield f"stream rt {ty}:{len(ch)}:0 - 0,{ty},{len(ch)},0,[{';'.join(ch)}],[]", f"sweep-ty{ty}"
        # every metadata length, every vector dimension, every channel id
        for mlen in range(256):
            ty = rng.choice([1, 2, 5, 10, 13, 18])
            vd = 0 if ty == 1 else rng.choice([1, 2])
            layout = [(ty, vd, mlen), (ty, vd, (mlen + 1) % 256)]
            strs = [gen.sample_str(layout, {}, gen.gen_sample(rng, layout, {}, c, for_encode=True), False) for c in (0, 1, 0)]
            if mlen == 0 and ty == 1:
                strs = strs[1:2]
            yield f"stream rt {sg.layout_str(layout)} - {'|'.join(strs)}", "mlen-sweep"
        for vdim in range(1, 256):
            ty = rng.randrange(2, 20)
            layout = [(ty, vdim, rng.choice([0, 0, 1, 3]))]
            strs = [gen.sample_str(layout, {}, gen.gen_sample(rng, layout, {}, 0, for_encode=True), False)]
            yield f"stream rt {sg.layout_str(layout)} - {'|'.join(strs)}", "vdim-sweep"
        layout = [(rng.randrange(2, 20), 1, rng.choice([0, 0, 1, 3])) for _ in range(255)]
        order = list(range(255))
        rng.shuffle(order)
        for part in gen.chunks(order, 85):
            strs = [gen.sample_str(layout, {}, gen.gen_sample(rng, layout, {}, c, for_encode=True), False) for c in part]
            yield f"stream rt {sg.layout_str(layout)} - {'|'.join(strs)}", "chan-sweep"
        # error branch: values out of range, fixed-point of the wrong fraction, wrong arity, unknown type
        for s in ["0,2,1,0,[i:256],[]", "0,3,1,0,[i:-129],[]", "0,12,1,0,[x:65536:8],[]", "0,13,1,0,[x:-32769:8],[]",
                  "0,2,2,0,[i:1],[]", "0,2,1,0,[i:1;i:2],[]", "0,25,1,0,[i:1],[]", "255,2,1,0,[i:1],[]", "254,2,1,0,[i:1],[]",
                  "0,2,1,1,[i:1],[]", "0,2,1,1,[i:1],[256]", "0,2,1,2,[i:1],[65535]", "0,1,0,16,[],[1;2;3;4;5;6;7;8;9;10;11;12;13;14;15;16]",
                  "0,1,3,0,[],[]", "0,1,3,1,[],[7]", "0,18,4,0,[t:68656c6c6f],[]", "0,18,4,0,[t:6869],[]",
                  "0,16,1,0,[x:18446744073709549568:32],[]", "0,17,1,0,[x:-9223372036854775808:32],[]",
                  "0,16,1,0,[x:18446744073709551616:32],[]", "0,17,1,0,[x:9223372036854775808:32],[]"]:
            yield f"stream encf - {s}", "edge"
        # the client's layout disagrees with the device's samples (decode errors after a good encode)
        for lay, s in [("2:1:0", "0,4,1,0,[i:258],[]"), ("4:1:0", "0,2,1,0,[i:7],[]"), ("2:1:0", "1,2,1,0,[i:7],[]"),
                       ("18:2:0", "0,4,1,0,[i:65279],[]"), ("2:1:1", "0,2,1,0,[i:7],[]")]:
            yield f"stream rt {lay} - {s}", "layout-mismatch"
        # oversize: payload beyond 65529 bytes must be refused
        big = "|".join(f"{i % 4},11,64,0,[{';'.join(['d:3ff0000000000000'] * 64)}],[]" for i in range(130))
        yield f"stream encf - {big}", "oversize"
        yield f"stream rt 11:64:0,11:64:0,11:64:0,11:64:0 - {big}", "oversize"

    def impl(self, line):
        t = line.split(" ")
        if t[1] == "encf":
            user = parse_user(t[2])
            try:
                f = self._recv(user).frame_stream_encode(sg.real_samples(t[3]))
            except Exception as e:
                return "err " + exc_name(e)
            return "ok none" if f is None else "ok " + hexs(f)
        # rt: real encoder -> real SerialFrame.frame_decode -> real Parser.frame_stream_decode
        (layout, xs), user = sg.parse_layout(t[2]), parse_user(t[3])
        try:
            f = self._recv(user).frame_stream_encode(sg.real_samples(t[4]))
        except Exception as e:
            return "err " + exc_name(e)
        if f is None:
            return "ok none"
        out = "ok " + hexs(f) + " "
        fr = self.SerialFrame().frame_decode(f)
        if fr.err != 0:
            return out + "ferr " + fr.err.name
        try:
            ds = self._parser(user).frame_stream_decode(fr, sg.real_device(layout, xs))
        except Exception as e:
            return out + "derr " + exc_name(e)
        return out + sg.canon_decoded(ds, layout, user, fr.data)[3:]

    def nontrivial(self, line, out):
        return "[i:" in line or "[x:" in line or "[f:" in line or "[d:" in line or "[t:" in line or "[b:" in line or "[o:" in line

    def oracle(self, line, impl_out=None):
        """encode on the device side, decode on the client side: same samples (those with data or metadata), same order;
        none left -> no frame"""
        t = line.split(" ")
        if t[1] == "rt":
            (layout, xs), user, sstr = sg.parse_layout(t[2]), parse_user(t[3]), t[4]
        else:
            layout, xs, user, sstr = None, None, parse_user(t[2]), t[3]
        strs = [] if sstr == "-" else sstr.split("|")
        parsed = [sg.parse_sample(s) for s in strs]
        if layout is None:
            layout = layout_of(strs)
        if len(layout) > 255:
            return None
        for c, ty, vd, ml, data, meta in parsed:
            if (data or meta) and (c >= len(layout) or layout[c] != (ty, vd, ml)):
                return None   # the client's layout must be the device's
        # Representable / well-formed guard
        for c, ty, vd, ml, data, meta in parsed:
            if ty not in sg.STD and ty not in user:
                return None
            if c > 254:
                return None
            atoms = sg.sample_atoms(ty, vd, user)
            if data and len(atoms) != len(data):
                return None
            if ty in sg.STD and (ty == 1) != (vd == 0):
                return None
            if meta and len(meta) != len(sg.meta_atoms(ml)):
                return None
            if (data or meta) and (not data and atoms or (not meta and ml)):
                return None   # half-empty samples are not well-formed for their channel
            for (code, size), v in zip(atoms, data):
                k, _, rest = v.partition(":")
                if k in ("i", "x"):
                    raw = int(rest.split(":")[0])
                    lo, hi = gen.int_range(code)
                    if not lo <= raw <= hi:
                        return None
                    if k == "x" and (int(rest.split(":")[1]) != sg.frac_of(ty) or not gen.float_exact(raw)):
                        return None   # raw / 2^frac must be a value a Python float can take
                    if (k == "x") != bool(sg.frac_of(ty) if ty in sg.STD else None):
                        return None
                if k == "f" and gen._quiet32(int(rest, 16)) != int(rest, 16):
                    return None       # no Python float narrows to a signalling float32 NaN
                if k == "d" and gen._quiet64(int(rest, 16)) != int(rest, 16):
                    return None       # NaNs are preserved as a class: the encoder's `x * 1.0` quiets a signalling NaN
                if k == "t" and len(bytes.fromhex(rest) if rest != "-" else b"") > size:
                    return None
            for (code, size), m in zip(sg.meta_atoms(ml), meta):
                if not 0 <= m < 1 << (8 * size):
                    return None
        keep = [p for p in parsed if p[4] or p[5]]
        try:
            f = self._recv(user).frame_stream_encode(sg.real_samples(sstr))
        except Exception as e:
            wire = sg.ref_wire(layout, user, [(c, d, m) for c, ty, vd, ml, d, m in keep]) if keep else b""
            if len(wire) > 65529:
                return None   # refusal of an oversize frame is what C01 demands
            return {"key": "encode-raises", "what": f"encoding representable samples raised {type(e).__name__}: {e}",
                    "expected": "a frame", "observed": exc_name(e)}
        if not keep:
            if f is not None:
                return {"key": "frame-for-nothing", "what": "a frame was produced although no sample carries data or metadata",
                        "expected": "None", "observed": hexs(f)}
            return None
        if f is None:
            return {"key": "no-frame", "what": "no frame produced", "expected": "a frame", "observed": "None"}
        fr = self.SerialFrame().frame_decode(f)
        if fr.err != 0 or int(fr.fid) != 1:
            return {"key": "bad-frame", "what": "encoder output is not a valid STREAM frame", "expected": "STREAM", "observed": str(fr.err)}
        try:
            ds = self.Parser(user_types=sg.real_user(user)).frame_stream_decode(fr, sg.real_device(layout, xs))
        except Exception as e:
            return {"key": "round-trip", "what": f"the client decoder raises {type(e).__name__} on the frame the device-side encoder built "
                    "for representable samples", "expected": "the samples", "observed": exc_name(e), "payload": hexs(fr.data)[:200]}
        got = sg.canon_decoded(ds, layout, user, fr.data)
        exp = []
        for c, ty, vd, ml, data, meta in keep:
            vals = []
            for (code, size), v in zip(sg.sample_atoms(ty, vd, user), data):
                if v.startswith("t:"):
                    b = bytes.fromhex(v[2:]) if v[2:] != "-" else b""
                    vals.append("t:" + hexs(b + bytes(size - len(b))))
                elif v.startswith("b:") and code == "s":
                    b = bytes.fromhex(v[2:]) if v[2:] != "-" else b""
                    vals.append("b:" + hexs((b + bytes(size))[:size]))
                else:
                    vals.append(v)
            exp.append(f"{c},{sg.dtype_of(ty, user)},{vd},{ml},[{';'.join(vals)}],[{';'.join(str(m) for m in meta)}]")
        want = "ok 0 " + "|".join(exp)
        if got != want:
            return {"key": "round-trip", "what": "decode(encode(samples)) differs from the samples: " + sg.first_difference(want, got),
                    "expected": want[:500], "observed": got[:500]}
        return None

    def extra_checks(self, rng, tier, ev):
        """Known finding `fixed-point-53-bits` (G3 of the second review): the property quantifies over every multiple of
        2^-32 in range for the 32.32 fixed-point types, but the encoder multiplies by a float scale and the decoder returns
        floats, so a value with more than 53 significant bits (only expressible as a `Fraction`, not as a float) does not
        round-trip.  The theorems carry `floatExact`; this runs the excluded point on the real code on every run."""
        from fractions import Fraction
        from nxslib.dev import Device, DeviceChannel
        from nxslib.proto.iparse import DParseStreamData
        from nxslib.proto.parse import Parser
        from nxslib.proto.parserecv import ParseRecv
        from nxslib.proto.serialframe import SerialFrame
        out = []
        tried = 0
        for ty, raw in ((16, 2 ** 53 + 1), (17, -(2 ** 53 + 1))):      # UB32, B32
            x = Fraction(raw, 2 ** 32)
            try:
                pr = ParseRecv(None)
                frame = pr.frame_stream_encode([DParseStreamData(chan=0, dtype=ty, vdim=1, mlen=0, data=(x,), meta=())])
                dev = Device(1, 3, 0, [DeviceChannel(0, ty, 1, "c")])
                dec = SerialFrame().frame_decode(frame)
                got = Parser().frame_stream_decode(dec, dev).samples[0].data[0]
                tried += 1
                if Fraction(got) != x:
                    out.append({"key": "fixed-point-53-bits", "case": f"type {ty} value {raw}/2^32 given as a Fraction",
                                "what": "a 32.32 fixed-point value with more than 53 significant bits does not round-trip "
                                        "(float scale in the encoder, float result in the decoder)",
                                "expected": str(x), "observed": repr(got)})
            except Exception as e:  # noqa: BLE001
                out.append({"key": "fixed-point-53-bits", "case": f"type {ty} value {raw}/2^32 given as a Fraction",
                            "what": f"encoding / decoding raised {type(e).__name__}: {e}", "expected": str(x), "observed": type(e).__name__})
        ev["coverage"]["fraction_points_tried"] = tried
        return out[:1]


PROP = C15()
