import json, os, re
D = {
"C01-r6m1": "one shared crcmod `Crc` object: `foot_validate` updates it in place, `frame_create` starts from a copy — after a REJECTED frame the next created frame has a wrong CRC",
"C01-r6m2": "`DParseHdr.__bool__` (truthy only for NOERR and id ≠ UNDEF) + `frame_decode` testing `if not hdr`: valid id-0 frames with a payload decode to an empty id-0 frame",
"C02-r6m1": "`recv_handle`: upper length bound taken from the buffer length before cropping to the start byte — a length overstating the frame by ≤ the number of leading bytes passes",
"C02-r6m2": "`hdr_decode` caches the last raw header but replaces the cached result only on success: a bad-SOF / unknown-id string with a consistent CRC is accepted the second time it is offered",
"C03-r6m1": "`hdr_find` reports a 0x55 only when a whole header fits behind it; `_read_hdr` takes −1 for \"no start byte\" and drops the carry-over (frame lost when its header is split behind noise)",
"C03-r6m2": "`_read_frame` returns on an empty read in mid-body without writing the gathered body bytes back: a frame arriving in ≥ 3 reads with an empty read in between is lost",
"C04-r6m1": "`frame_stream_decode` skips `struct.unpack` for data-less samples and reuses the previous sample's values",
"C04-r6m2": "`_stream_data_get` without the `scale != 1` guard: 64-bit integers above 2^53 come back as rounded floats",
"C05-r6m1": "`frame_enable` / `frame_div` treat a `(chan, value)` tuple whose length equals the channel count as a vector: wrong request on 2-channel devices only",
"C05-r6m2": "device-side `frame_div_decode` takes its bulk format from `msfmt_get(chmax)`: for 2, 4, 8 channels the dividers are unpacked as ONE integer",
"C06-r6m1": "`frame_chinfo_decode` memoises the decoded `DeviceChannel` per (chan, payload): the client later writes en/div into it, a third connect in an earlier device state reads the stale record",
"C06-r6m2": "`_devinfo_get` flushes pending input only after a padding change: a duplicate (late) common-info answer shifts every channel description by one",
"C07-r6m1": "`DeviceChannel.__init__` without `bool(en)`: the bulk enable encoder tests `is True`, so a channel enabled at connect is sent as disabled",
"C07-r6m2": "setters folded into a helper that skips a request equal to the DEVICE's current value: a request that returns a channel to the device value between two writes is dropped",
"C08-r6m1": "stream thread keeps a reference to the subscriber table taken at start while `stream_unsub` rebuilds the table: unsubscribed queues keep receiving, later subscribers get nothing",
"C08-r6m2": "`stream_data()` merges up to 32 waiting frames and `break`s at the first frame that decodes to None (empty payload): the frames already taken off the queue behind it are lost",
"C09-r6m1": "`stream_start` sets `_stream_started` before its connected-check: a refused start while disconnected makes the start after the next connect a silent no-op",
"C09-r6m2": "the device-info retry budget becomes an attribute that is never refilled: the 7th connect of one handler object (or any connect after a failed one) raises TimeoutError",
"C10-r6m1": "`_read_hdr` discards bytes in front of a header candidate inside its inner loop: continuous start-byte-free noise never lets the receive thread see the stop flag (connect / disconnect hang)",
"C10-r6m2": "`_nxslib_chinfo` re-requests inside itself when a CRC-valid channel-info answer does not unpack, bypassing both retry counters: connect never ends",
"C11-r6m1": "`en_resync` / `div_resync` merged into one flag: an acknowledged request of the other kind clears the doubt, the next single-channel request is relative to a stale vector",
"C11-r6m2": "`_channels_init` builds now / new vectors with `[deepcopy(...)] * 2` (aliased): a rejected first request of a connection already changed the acknowledged view",
"C12-r6m1": "a `dirty` flag in `DCommChannelsData` cleared in a separate critical section after `channels_write` (lost update of a setter from another thread)",
"C12-r6m2": "`stream_stop` drains the shared response queue after its ACK: it swallows the ACK of another thread's pending `channels_write`",
"C13-r6m1": "`thread_stop` clears the thread handle only when the thread was still alive: a worker that finished between `stop_set` and the liveness check can never be restarted",
"C13-r6m2": "an `_init_done` flag cleared just before `final`: after a run that died in a raising target call the next run calls target without init",
"C14-r6m1": "`ParseRecv.recv_handle` keeps a partial frame whose declared length exceeds the write and glues it to the next write: the well-formed request after a corrupted one is discarded",
"C14-r6m2": "`DummyDev._chinfo_cb` memoises the encoded answer per (channel, enable state): stale divider after a DIV request",
"C15-r6m1": "per-object stream buffer in `_stream_data_encode`, cleared only on success: after an all-empty batch the next frame starts with a stray byte",
"C15-r6m2": "fixed-point conversion `int(x + 0.5)` instead of `round(x)`: negative values on B8/B16/B32 come out one LSB too high",
"C16-r6m1": "`ChannelFunc2` made a subclass of `ChannelFunc1`: the inherited `reset()` no longer resets the triangle's direction (restart after 1001..3002 samples)",
"C16-r6m2": "`Device.reset()` resets only enabled channels: a channel disabled before stop and re-enabled after start continues its old sequence",
"C17-r6m1": "`data_align` appends from a cached zero buffer sized by the FIRST padding in force: wrong padding after the padding changes between two non-zero values",
"C17-r6m2": "`recv_handle` bounds the length of the WHOLE write (frame + padding) by 263: a long bulk request whose padded size exceeds it is dropped",
"C18-r6m1": "`serial.Serial(...)` time-outs passed positionally: `xonxoff` gets enabled (0x11 / 0x13 swallowed, writes can block)",
"C18-r6m2": "`start()` sets `write_timeout = 0`: pyserial does one non-blocking `os.write` and `_write` ignores the count — bursts beyond the tty buffer are truncated",
"C19-r6m1": "`DDeviceChannelData.__post_init__` returns early for NONE / CHAR / WCHAR before the seal is set: those records stay writable",
"C19-r6m2": "`DDeviceData.__setattr__` guard skipped when the assigned value compares equal to the stored one: `flags = True`, `chmax = 2.0`, `mock.ANY` go through",
"C20-r6m1": "class-level cache of channel-info request frames in `Parser`, shared between codecs",
"C20-r6m2": "`_read_hdr` treats `flen < hdr_len + 2` as noise (the built-in footer size instead of the codec's): empty-payload frames of 1-byte-footer codecs are never delivered",
}
FIRST = {"C01-r6m1": "obligation only", "C06-r6m1": "obligation only", "C02-r6m2": "obligation only", "C13-r6m2": "obligation only", "C09-r6m2": "obligation only"}
print("| seeded change | what it is | suite with patch | caught | failing input | via | replay keys | first run |")
print("|---|---|---|---|---|---|---|---|")
for name in sorted(D):
    m = json.load(open(os.path.join(os.path.dirname(os.path.dirname(os.path.abspath(__file__))), "seeded", name, "meta.json")))
    ev = m.get("evaluation", {}); q = ev.get("quick", {})
    reps = q.get("replays", [])
    keys = sorted({r.get("key") for r in reps if r.get("key")})
    steps = sorted({s for r in reps for s in (r.get("broken_steps") or []) if isinstance(s, str)})
    how = []
    if any(s in steps for s in ("translate", "build-theorems", "build-model", "audit")): how.append("T")
    if "correspondence" in steps: how.append("K")
    print(f"| {name} | {D[name]} | {ev.get('tests_passed')} | {'yes' if q.get('caught') else 'NO'} | {'yes' if q.get('with_failing_input') else 'no'} | {'+'.join(how) or 'oracle'} | {', '.join(keys)[:70]} | {FIRST.get(name, 'as now')} |")
