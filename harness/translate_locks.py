"""Translator for the lock discipline of nxslib -> lean/NxsModel/Gen/Locks.lean  (property C12).

`gen_locks(repo) -> translate.Out`.  Pure `ast`; nxslib is never imported.

What is extracted (record types: lean/NxsModel/Locks.lean), from comm.py (`CommHandler`),
nxscope.py (`NxscopeHandler`), dev.py (`Device`) and intf/dummy.py (`DummyDev`):

  accesses   every syntactic access (read / write, with the field touched) to the lock-protected
             state — `CommHandler._channels`, `NxscopeHandler._sub_q`, `Device._channels`,
             `DummyDev._dummydev` (and local aliases of them: `chan = self._dummydev.channel_get(..)`,
             `for que in self._sub_q[chan]`) — in every method, with the locks syntactically held
             there (`with self.<lock>:` nesting) and the line of the innermost enclosing `with`.
             `__init__` is exempt (recorded as `.init`); the creation of `_sub_q` in
             `NxscopeHandler.connect` is exempt (recorded as `.create`).
  acqs       every lock acquisition reachable from every method taken as an entry point: the
             method's own `with` blocks and, through resolved calls made on the way (inlined with
             the locks held at the call), those of its callees — this is the
             "acquired-while-holding" relation (`held` non-empty) plus the plain acquisitions.
  blocking   every queue `get` / `put` and every link read / write reachable from every entry,
             with the locks held, and whether it is bounded (`get`: a timeout that is a number on
             every resolved path; `put`: the queue was created by `queue.Queue()` without maxsize).
  threads    for every `ThreadCommon(self.<body>, name=..)` created in an `__init__`: the locks the
             body and everything it calls can take, the queues it puts on / gets from, the queues it can
             wait on WITHOUT a timeout, the threads it can join.
  joins      every `ThreadCommon.thread_stop()` (-> `Thread.join()` without timeout) reachable from every
             entry, with the locks held there and the library thread that is joined.
  exEnable / exDiv   the events of `_nxslib_channels_enable` / `_nxslib_channels_div` in source
             order (read requested, read acknowledged, send, wait for ACK, write acknowledged,
             write resync flag, update device copy) with their enclosing `with` block.

What a lock IS.  An attribute is one of the four locks only if it is created, in its class, by a call whose callee
RESOLVES — through the import statements and any other module-level binding of the name (`module_bindings`) — to
`threading.Lock` / `threading.RLock` (`from threading import Lock`, `import threading; threading.Lock()`, `… import Lock
as L` are the same thing; `from contextlib import nullcontext as Lock`, a module-level `Lock = …`, a class `Lock` defined
in the module are NOT: missing site naming what the name is bound to).  Likewise `Queue` must be `queue.Queue` and `Event`
`threading.Event`.  A lock attribute that is not one of the four (`self._channels_div_lock = Lock()`) is a missing
site naming it.  The resolved constructors are emitted as comments at the end of the generated file and as the fact
`lockCtors`.

Call resolution is by receiver and method name: `self.m()` -> same class; `self._comm.m()` ->
CommHandler; `self.dev / self._dev / dev / self._dummydev` -> Device (methods and properties);
`self._parse.m()` -> Parser (client side) or ParseRecv (device side), whose bodies are scanned
for `dev.<Device method>` uses; `self._parse.recv_handle()` in DummyDev -> the callbacks registered
with `ParseRecvCb(...)` in `start`; `self._q / _q_stream / _qwrite / _qread`, `que`, `subq` ->
queues; `self._intf` -> the link; `self._thrd*` -> ThreadCommon; `self._stream_started` -> Event.
Calls that cannot be resolved, made while a lock is held or inside a thread body, are NOT
guessed: the definition refers to `translator_site_missing_Locks_<what>` and the build fails
naming the site.  So does a `with` on anything that is not one of the four locks, a nested
function or lambda in an analysed method, recursion, a bounded queue, a `join`/`wait`/`sleep`
under a lock.
"""
from __future__ import annotations

import ast
import re

from translate import Missing, Out, parse

MAIN = {"CommHandler": "comm.py", "NxscopeHandler": "nxscope.py", "Device": "dev.py", "DummyDev": "intf/dummy.py"}
AUX = {"Parser": "proto/parse.py", "ParseRecv": "proto/parserecv.py", "DeviceChannel": "dev.py"}
LOCKS = {("CommHandler", "_channels_lock"): "channels", ("NxscopeHandler", "_queue_lock"): "queue",
         ("Device", "_channels_lock"): "devinfo", ("DummyDev", "_dummydev_lock"): "dummydev"}
PROTECTED = {("CommHandler", "_channels"): "chanCfg", ("NxscopeHandler", "_sub_q"): "subQ",
             ("Device", "_channels"): "devChans", ("DummyDev", "_dummydev"): "dummyChans"}
QUEUES = {("CommHandler", "_q"): "resp", ("CommHandler", "_q_stream"): "stream",
          ("DummyDev", "_qwrite"): "devWrite", ("DummyDev", "_qread"): "devRead"}
TIDS = {"recv": "recv", "stream": "stream", "dummy_stream": "dummyStream", "dummy_recv": "dummyRecv"}
FIELDS = {"en_now": "enNow", "en_new": "enNew", "div_now": "divNow", "div_new": "divNew",
          "en_resync": "enResync", "div_resync": "divResync"}
MUTATORS = {"append", "remove", "pop", "clear", "extend", "insert", "sort", "reverse", "update", "add", "discard",
            "reset"}
PURE_MODULES = {"copy", "logger", "struct", "math", "random", "logging"}
PURE_BUILTINS = {"len", "range", "enumerate", "isinstance", "str", "bool", "int", "float", "set", "list", "tuple", "dict",
                 "sorted", "min", "max", "abs", "sum", "any", "all", "zip", "type", "print", "super", "bytes", "round",
                 "repr", "bytearray", "iter", "next", "reversed", "map", "filter", "hasattr", "getattr", "id"}
PURE_METHODS = {"append", "remove", "extend", "index", "count", "join", "format", "encode", "decode", "items", "keys",
                "values", "copy", "insert", "pop", "clear", "startswith", "endswith", "split", "strip", "sort"}


LOCK_CTORS = ("threading.Lock", "threading.RLock")


def module_bindings(tree):
    """module-level name -> dotted origin, from the import statements (also inside a top-level `if` / `try`) and from
    any other top-level binding of the name (`<assigned>` / `<defined>`): what `Lock`, `queue`, `Event` … MEAN in that
    module.  The last binding wins, as at import time."""
    b = {}

    def walk(stmts):
        for st in stmts:
            if isinstance(st, ast.Import):
                for a in st.names:
                    if a.asname:
                        b[a.asname] = a.name
                    else:
                        b[a.name.split(".")[0]] = a.name.split(".")[0]
            elif isinstance(st, ast.ImportFrom):
                for a in st.names:
                    b[a.asname or a.name] = ("." * st.level) + (st.module or "") + "." + a.name
            elif isinstance(st, (ast.FunctionDef, ast.AsyncFunctionDef, ast.ClassDef)):
                b[st.name] = "<defined in the module>"
            elif isinstance(st, (ast.Assign, ast.AnnAssign, ast.AugAssign)):
                tgts = st.targets if isinstance(st, ast.Assign) else [st.target]
                for t in tgts:
                    for n in ast.walk(t):
                        if isinstance(n, ast.Name):
                            b[n.id] = "<assigned in the module>"
            elif isinstance(st, ast.If):
                walk(st.body)
                walk(st.orelse)
            elif isinstance(st, ast.Try):
                walk(st.body)
                for h in st.handlers:
                    walk(h.body)
                walk(st.orelse)
                walk(st.finalbody)
            elif isinstance(st, (ast.With, ast.For, ast.While)):
                walk(st.body)
    walk(tree.body)
    return b


def origin(func, bindings):
    """dotted origin of the callee expression `func` (`Lock`, `threading.Lock`, `th.RLock` …) under the module's bindings;
    None if the root name is not bound at module level"""
    parts = []
    while isinstance(func, ast.Attribute):
        parts.append(func.attr)
        func = func.value
    if not isinstance(func, ast.Name) or func.id not in bindings:
        return None
    return ".".join([bindings[func.id]] + parts[::-1])


def site(what):
    return "translator_site_missing_Locks_" + re.sub(r"[^A-Za-z0-9_]", "_", what)[:80]


class Src:
    """the parsed classes"""

    def __init__(self, repo):
        self.cls = {}
        self.trees = {}
        for name, rel in {**MAIN, **AUX}.items():
            if rel not in self.trees:
                self.trees[rel] = parse(repo, rel)
            found = [n for n in ast.walk(self.trees[rel]) if isinstance(n, ast.ClassDef) and n.name == name]
            if not found:
                raise Missing(f"class {name} in {rel}")
            self.cls[name] = found[0]
        self.funcs = {}       # (cls, name) -> FunctionDef
        self.props = set()    # (cls, name) that are @property
        for cname, c in self.cls.items():
            for st in c.body:
                if isinstance(st, ast.FunctionDef):
                    is_setter = any(isinstance(d, ast.Attribute) and d.attr in ("setter", "deleter") for d in st.decorator_list)
                    if is_setter:
                        continue
                    self.funcs[(cname, st.name)] = st
                    if any(isinstance(d, ast.Name) and d.id == "property" for d in st.decorator_list):
                        self.props.add((cname, st.name))
        # aux classes must not synchronise at all
        for cname in AUX:
            for n in ast.walk(self.cls[cname]):
                if isinstance(n, (ast.With, ast.AsyncWith)):
                    raise Missing(f"`with` statement in auxiliary class {cname} (line {n.lineno})")
        for rel in set(AUX.values()) - set(MAIN.values()):
            for n in ast.walk(self.trees[rel]):
                if isinstance(n, ast.Name) and n.id in ("Lock", "RLock", "Semaphore", "Condition"):
                    raise Missing(f"lock object in auxiliary module {rel} (line {n.lineno})")
        # attribute kinds of the main classes, from the assignments `self.X = <ctor>(...)` / `self.X = <param>`
        self.attr_kind = {}
        self.bindings = {rel: module_bindings(self.trees[rel]) for rel in set(MAIN.values())}
        self.lock_ctor = {}       # (cls, attr) -> dotted origin of the constructor the attribute is created with
        for cname in MAIN:
            binds = self.bindings[MAIN[cname]]
            for n in ast.walk(self.cls[cname]):
                tgt = val = None
                if isinstance(n, ast.Assign) and len(n.targets) == 1:
                    tgt, val = n.targets[0], n.value
                elif isinstance(n, ast.AnnAssign) and n.value is not None:
                    tgt, val = n.target, n.value
                if tgt is None or not (isinstance(tgt, ast.Attribute) and isinstance(tgt.value, ast.Name) and tgt.value.id == "self"):
                    continue
                kind = None
                if isinstance(val, ast.Call):
                    f = val.func
                    fname = f.attr if isinstance(f, ast.Attribute) else (f.id if isinstance(f, ast.Name) else None)
                    org = origin(f, binds)
                    if org in LOCK_CTORS or fname in ("Lock", "RLock"):
                        # what the callee IS in this module decides, not what it is called
                        self.lock_ctor[(cname, tgt.attr)] = org or f"{ast.unparse(f)} (not bound by an import of the module)"
                        if org not in LOCK_CTORS:
                            raise Missing(f"{cname}.{tgt.attr} = {ast.unparse(f)}() (line {val.lineno}): in {MAIN[cname]} "
                                          f"`{ast.unparse(f)}` is {self.lock_ctor[(cname, tgt.attr)]}, not threading.Lock — "
                                          "nothing is known to exclude anybody")
                        if (cname, tgt.attr) not in LOCKS:
                            raise Missing(f"unknown lock attribute {cname}.{tgt.attr} (line {val.lineno}): a lock the table "
                                          "does not know (which state does it protect, which requests does it serialise?)")
                        kind = ("lock",)
                    elif fname == "Queue" and org != "queue.Queue":
                        raise Missing(f"{cname}.{tgt.attr} = {ast.unparse(f)}() (line {val.lineno}): in {MAIN[cname]} "
                                      f"`{ast.unparse(f)}` is {org}, not queue.Queue")
                    elif fname == "Queue":
                        if val.args or val.keywords:
                            raise Missing(f"bounded queue {cname}.{tgt.attr} (line {val.lineno}): `put` may block")
                        q = QUEUES.get((cname, tgt.attr))
                        if q is None:
                            raise Missing(f"unknown queue attribute {cname}.{tgt.attr}")
                        kind = ("queue", q)
                    elif fname == "ThreadCommon":
                        nm = [kw.value for kw in val.keywords if kw.arg == "name"]
                        if not (nm and isinstance(nm[0], ast.Constant) and isinstance(nm[0].value, str)):
                            raise Missing(f"{cname}.{tgt.attr} = ThreadCommon(…, name=<literal>) expected (line {val.lineno})")
                        if nm[0].value not in TIDS:
                            raise Missing(f"unknown library thread `{nm[0].value}` ({cname}.{tgt.attr}, line {val.lineno})")
                        kind = ("thread", nm[0].value)
                    elif fname == "Event":
                        if org != "threading.Event":
                            raise Missing(f"{cname}.{tgt.attr} = {ast.unparse(f)}() (line {val.lineno}): `{ast.unparse(f)}` is "
                                          f"{org}, not threading.Event")
                        kind = ("event",)
                    elif fname in MAIN or fname in AUX:
                        kind = ("class", fname)
                elif isinstance(val, ast.Name):
                    if val.id == "intf":
                        kind = ("link",)
                    elif val.id == "parse":
                        kind = ("class", "Parser")
                elif isinstance(val, ast.Constant) and val.value is None:
                    continue
                if kind is not None:
                    old = self.attr_kind.get((cname, tgt.attr))
                    if old is not None and old != kind:
                        raise Missing(f"attribute {cname}.{tgt.attr} has two kinds {old} / {kind}")
                    self.attr_kind[(cname, tgt.attr)] = kind
        for (cname, attr), lk in LOCKS.items():
            if self.attr_kind.get((cname, attr)) != ("lock",):
                raise Missing(f"{cname}.{attr} is not created by threading.Lock() in the class")
        for (cname, attr), q in QUEUES.items():
            if self.attr_kind.get((cname, attr)) != ("queue", q):
                raise Missing(f"queue {cname}.{attr} = queue.Queue() not found")
        # every queue.Queue(...) anywhere in the main modules must be unbounded (subscriber queues are locals)
        for rel in set(MAIN.values()):
            for n in ast.walk(self.trees[rel]):
                if isinstance(n, ast.Call) and isinstance(n.func, ast.Attribute) and n.func.attr == "Queue" and (n.args or n.keywords):
                    raise Missing(f"bounded queue in {rel} line {n.lineno}: `put` may block")
        # DummyDev: callbacks registered with ParseRecvCb(...) in start()
        self.dummy_cbs = []
        st = self.funcs.get(("DummyDev", "start"))
        if st is not None:
            for n in ast.walk(st):
                if isinstance(n, ast.Call) and isinstance(n.func, ast.Name) and n.func.id == "ParseRecvCb":
                    for kw in n.keywords:
                        v = kw.value
                        if isinstance(v, ast.Attribute) and isinstance(v.value, ast.Name) and v.value.id == "self" \
                                and ("DummyDev", v.attr) in self.funcs:
                            self.dummy_cbs.append(v.attr)
                        else:
                            raise Missing(f"DummyDev.start: callback {kw.arg} is not a method of the class")
        # thread bodies
        self.thread_bodies = []
        for cname in MAIN:
            init = self.funcs.get((cname, "__init__"))
            if init is None:
                continue
            for n in ast.walk(init):
                if isinstance(n, ast.Call) and isinstance(n.func, ast.Name) and n.func.id == "ThreadCommon":
                    tgt = n.args[0] if n.args else None
                    nm = [kw.value for kw in n.keywords if kw.arg == "name"]
                    if not (isinstance(tgt, ast.Attribute) and isinstance(tgt.value, ast.Name) and tgt.value.id == "self"
                            and (cname, tgt.attr) in self.funcs and nm and isinstance(nm[0], ast.Constant)):
                        raise Missing(f"{cname}.__init__: ThreadCommon(self.<method>, name=<literal>) expected (line {n.lineno})")
                    self.thread_bodies.append((nm[0].value, cname, tgt.attr))


class Ctx:
    def __init__(self, entry, cur, held=(), sect=0, via=(), stack=(), thread=False, aux=False, names=None):
        self.entry = entry        # (cls, meth) the records are attributed to
        self.cur = cur            # (cls, meth) lexically current
        self.held = tuple(held)
        self.sect = sect
        self.via = tuple(via)
        self.stack = tuple(stack)
        self.thread = thread
        self.aux = aux
        self.names = dict(names or {})   # local name -> kind

    def sub(self, **kw):
        c = Ctx(self.entry, self.cur, self.held, self.sect, self.via, self.stack, self.thread, self.aux, self.names)
        for k, v in kw.items():
            setattr(c, k, v)
        return c

    @property
    def strict(self):
        return (bool(self.held) or self.thread) and not self.aux


class Analysis:
    def __init__(self, srcs: Src):
        self.s = srcs
        self.accesses = []
        self.acqs = []
        self.blocking = []
        self.joins = []

    # -- resolution -----------------------------------------------------------------------------------
    def prop_kind(self, cname, pname, depth=0):
        """kind of the value of property `pname` of class `cname` (body: `return self.<attr>[.<attr>]`)"""
        f = self.s.funcs[(cname, pname)]
        body = [st for st in f.body if not (isinstance(st, ast.Expr) and isinstance(st.value, ast.Constant))]
        if len(body) == 1 and isinstance(body[0], ast.Return) and body[0].value is not None and depth < 4:
            return self.resolve(body[0].value, Ctx((cname, pname), (cname, pname)), depth + 1)
        return ("pure",)

    def resolve(self, e, ctx, depth=0):
        """kind of the value of expression `e`: ("class", K) | ("queue", id) | ("link",) | ("thread",) |
        ("event",) | ("lock", name) | ("prot", res) | ("pure",) | None"""
        cname = ctx.cur[0]
        if isinstance(e, ast.Name):
            if e.id == "self":
                return ("class", cname)
            if e.id in ctx.names:
                return ctx.names[e.id]
            if e.id == "dev":
                return ("class", "Device")
            return None
        if isinstance(e, ast.Attribute):
            base = self.resolve(e.value, ctx, depth)
            if base is None:
                return None
            if base[0] == "class":
                k = base[1]
                if (k, e.attr) in LOCKS:
                    return ("lock", LOCKS[(k, e.attr)])
                if (k, e.attr) in PROTECTED and k == cname and isinstance(e.value, ast.Name) and e.value.id == "self":
                    ak = self.s.attr_kind.get((k, e.attr))
                    return ("prot", PROTECTED[(k, e.attr)], ak[1] if ak and ak[0] == "class" else None)
                if (k, e.attr) in self.s.attr_kind:
                    return self.s.attr_kind[(k, e.attr)]
                if (k, e.attr) in self.s.props:
                    if (k, e.attr) in (("CommHandler", "dev"), ("NxscopeHandler", "dev")):
                        return ("class", "Device")
                    return self.prop_kind(k, e.attr, depth)
                if k in ("CommHandler", "NxscopeHandler") and e.attr == "_dev":
                    return ("class", "Device")
                if k == "DummyDev" and e.attr == "_parse":
                    return ("class", "ParseRecv")
                if (k, e.attr) in self.s.funcs:
                    return ("method", k, e.attr)
                if k in MAIN:
                    return ("attr", k, e.attr)      # an attribute nothing is known about: data, unless it is called
                return ("pure",)
            if base[0] == "prot":
                if base[2] and (base[2], e.attr) in self.s.props:
                    return ("pure",)
                return ("prot", base[1], None)        # a part of the protected object
            if base[0] in ("pure",):
                return ("pure",)
            return None
        if isinstance(e, ast.Subscript):
            base = self.resolve(e.value, ctx, depth)
            if base is not None and base[0] == "prot":
                return ("prot", base[1], None)
            if base is not None and base[0] == "alias":
                return base
            if base is not None and base[0] == "pure":
                return ("pure",)
            return None
        if isinstance(e, ast.Call):
            # value of a call: only what matters for aliases
            f = e.func
            if isinstance(f, ast.Attribute):
                base = self.resolve(f.value, ctx, depth)
                if self.kclass(base) == "Device" and f.attr == "channel_get":
                    # a DeviceChannel of that device: part of the protected state when the device is protected
                    return ("chan", base[1] if base[0] == "prot" else None)
            return None
        return None

    @staticmethod
    def kclass(k):
        if k is None:
            return None
        if k[0] == "class":
            return k[1]
        if k[0] == "prot" and k[2]:
            return k[2]
        return None

    # -- records -------------------------------------------------------------------------------------
    def rec_access(self, node, ctx, res, field, mode):
        exempt = "no"
        if ctx.cur[1] == "__init__" and ctx.entry == ctx.cur:
            exempt = "init"
        elif ctx.cur == ("NxscopeHandler", "connect") and ctx.entry == ctx.cur and res == "subQ" and field == "whole" and mode == "write":
            exempt = "create"
        self.accesses.append(dict(cls=ctx.cur[0], meth=ctx.cur[1], entry=ctx.entry, line=node.lineno, col=node.col_offset, res=res,
                                  field=field, mode=mode, held=ctx.held, sect=ctx.sect, exempt=exempt))

    def rec_acq(self, node, ctx, lock):
        self.acqs.append(dict(entry=ctx.entry, line=node.lineno, col=node.col_offset, held=ctx.held, acquires=lock,
                              via=".".join(ctx.via), sect=ctx.sect))

    def rec_block(self, node, ctx, kind, queue, bounded, what):
        self.blocking.append(dict(entry=ctx.entry, line=node.lineno, col=node.col_offset, held=ctx.held, sect=ctx.sect,
                                  kind=kind, queue=queue, bounded=bounded, via=".".join(ctx.via + (what,))))

    def rec_join(self, node, ctx, target, what):
        self.joins.append(dict(entry=ctx.entry, line=node.lineno, col=node.col_offset, held=ctx.held, target=target,
                               via=".".join(ctx.via + (what,))))

    # -- walking -------------------------------------------------------------------------------------
    def run_entry(self, cname, mname, thread=False):
        f = self.s.funcs[(cname, mname)]
        ctx = Ctx((cname, mname), (cname, mname), stack=((cname, mname),), thread=thread)
        self.bind_params(f, ctx, {})
        self.block(f.body, ctx, f)

    def bind_params(self, f, ctx, given):
        for a in f.args.args + f.args.kwonlyargs:
            if a.arg == "self":
                continue
            if a.arg in given and given[a.arg] is not None:
                ctx.names[a.arg] = given[a.arg]
            elif a.arg == "dev" or (a.annotation is not None and re.search(r"\bDevice\b", ast.unparse(a.annotation))):
                ctx.names[a.arg] = ("class", "Device")
            elif a.annotation is not None and "Queue" in ast.unparse(a.annotation):
                ctx.names[a.arg] = ("queue", "sub")

    def block(self, stmts, ctx, func):
        for st in stmts:
            self.stmt(st, ctx, func)

    def stmt(self, st, ctx, func):
        if isinstance(st, (ast.FunctionDef, ast.AsyncFunctionDef, ast.ClassDef)):
            raise Missing(f"nested definition {st.name} in {ctx.cur[0]}.{ctx.cur[1]}")
        if isinstance(st, (ast.With, ast.AsyncWith)):
            held = ctx.held
            sect = ctx.sect
            for it in st.items:
                k = self.resolve(it.context_expr, ctx)
                if k is None or k[0] != "lock" or len(k) < 2 or it.optional_vars is not None:
                    raise Missing(f"`with {ast.unparse(it.context_expr)}` in {ctx.cur[0]}.{ctx.cur[1]} line {st.lineno} is not one of the four locks")
                c2 = ctx.sub(held=held, sect=sect)
                self.rec_acq(st, c2, k[1])
                held = held + (k[1],)
                sect = st.lineno
            self.block(st.body, ctx.sub(held=held, sect=sect), func)
            return
        if isinstance(st, ast.For):
            self.expr(st.iter, ctx, func)
            self.bind_target(st.target, st.iter, ctx, loop=True)
            self.block(st.body, ctx, func)
            self.block(st.orelse, ctx, func)
            return
        if isinstance(st, ast.While):
            self.expr(st.test, ctx, func)
            self.block(st.body, ctx, func)
            self.block(st.orelse, ctx, func)
            return
        if isinstance(st, ast.If):
            self.expr(st.test, ctx, func)
            self.block(st.body, ctx, func)
            self.block(st.orelse, ctx, func)
            return
        if isinstance(st, ast.Try):
            self.block(st.body, ctx, func)
            for h in st.handlers:
                self.block(h.body, ctx, func)
            self.block(st.orelse, ctx, func)
            self.block(st.finalbody, ctx, func)
            return
        if isinstance(st, ast.Assign):
            self.expr(st.value, ctx, func)
            for t in st.targets:
                self.target(t, ctx, func)
                self.bind_target(t, st.value, ctx)
            return
        if isinstance(st, ast.AnnAssign):
            if st.value is not None:
                self.expr(st.value, ctx, func)
                self.target(st.target, ctx, func)
                self.bind_target(st.target, st.value, ctx)
            return
        if isinstance(st, ast.AugAssign):
            self.expr(st.value, ctx, func)
            self.target(st.target, ctx, func)
            return
        if isinstance(st, ast.Delete):
            for t in st.targets:
                self.target(t, ctx, func)
            return
        # Expr, Return, Assert, Raise, Pass, Break, Continue, Global, Import ...
        for ch in ast.iter_child_nodes(st):
            if isinstance(ch, ast.expr):
                self.expr(ch, ctx, func)

    def bind_target(self, target, value, ctx, loop=False):
        """track local aliases of protected state / queues / devices"""
        if isinstance(target, ast.Tuple) and loop and isinstance(value, ast.Call) and isinstance(value.func, ast.Name) \
                and value.func.id == "enumerate" and value.args and len(target.elts) == 2:
            return self.bind_target(target.elts[1], value.args[0], ctx, loop=True)
        if not isinstance(target, ast.Name):
            return
        k = self.resolve(value, ctx)
        if k is None:
            ctx.names.pop(target.id, None)
            return
        if k[0] == "prot":
            # element / part of a protected container; subscriber queues live in `_sub_q`
            ctx.names[target.id] = ("alias", k[1])
        elif k[0] == "chan":
            ctx.names[target.id] = ("alias", k[1]) if k[1] else ("class", "DeviceChannel")
        elif k[0] in ("class", "queue"):
            ctx.names[target.id] = k
        elif k[0] == "alias":
            ctx.names[target.id] = k
        else:
            ctx.names.pop(target.id, None)

    def target(self, t, ctx, func):
        self.expr(t, ctx, func)

    def expr(self, e, ctx, func):
        """visit an expression tree in source order"""
        if isinstance(e, ast.Lambda):
            raise Missing(f"lambda in {ctx.cur[0]}.{ctx.cur[1]} line {e.lineno}")
        if isinstance(e, (ast.ListComp, ast.SetComp, ast.GeneratorExp, ast.DictComp)):
            for g in e.generators:
                self.expr(g.iter, ctx, func)
                self.bind_target(g.target, g.iter, ctx, loop=True)
                for i in g.ifs:
                    self.expr(i, ctx, func)
            if isinstance(e, ast.DictComp):
                self.expr(e.key, ctx, func)
                self.expr(e.value, ctx, func)
            else:
                self.expr(e.elt, ctx, func)
            return
        if isinstance(e, ast.Call):
            return self.call(e, ctx, func)
        if isinstance(e, (ast.Attribute, ast.Subscript, ast.Name)):
            return self.chain(e, ctx, func, callee=None)
        for ch in ast.iter_child_nodes(e):
            if isinstance(ch, ast.expr):
                self.expr(ch, ctx, func)

    def chain(self, e, ctx, func, callee):
        """an Attribute / Subscript / Name chain `e`; `callee` = method name when `e` is the receiver of a call.
        Records protected accesses and inlines properties along the chain."""
        # visit sub-expressions that are not part of the chain (subscript indices, call receivers)
        parts = []
        cur = e
        while True:
            parts.append(cur)
            if isinstance(cur, ast.Attribute):
                cur = cur.value
            elif isinstance(cur, ast.Subscript):
                self.expr(cur.slice, ctx, func)
                cur = cur.value
            else:
                break
        root = parts[-1]
        if isinstance(root, ast.Call):
            self.call(root, ctx, func)
        elif not isinstance(root, ast.Name):
            self.expr(root, ctx, func)
        # walk from the root outwards
        store = isinstance(getattr(e, "ctx", None), (ast.Store, ast.Del))
        prot = None       # (res, node at which the protected object is named)
        field = None
        for i in range(len(parts) - 1, -1, -1):
            node = parts[i]
            if prot is None:
                k = self.resolve(node, ctx)
                if k is not None and k[0] == "prot":
                    prot = (k[1], node)
                    field = "whole"
                    nxt = parts[i - 1] if i > 0 else None
                    if isinstance(nxt, ast.Attribute):
                        field = FIELDS.get(nxt.attr, "other")
                    elif isinstance(nxt, ast.Subscript):
                        field = "other"
                    if k[2] and isinstance(nxt, ast.Attribute) and (k[2], nxt.attr) in self.s.props:
                        self.inline(k[2], nxt.attr, nxt, ctx, {})
                elif k is not None and k[0] == "alias" and isinstance(node, ast.Name):
                    prot = (k[1], node)
                    field = "other"
                elif isinstance(node, ast.Attribute):
                    base = self.resolve(node.value, ctx)
                    if self.kclass(base) and (self.kclass(base), node.attr) in self.s.props:
                        self.inline(self.kclass(base), node.attr, node, ctx, {})
        if prot is not None:
            res, node = prot
            mode = "write" if store else "read"
            if callee in MUTATORS:
                mode = "write"
            # a protected root that is only a receiver of a Device method: the call itself is inlined by `call`
            self.rec_access(node, ctx, res, field, mode)

    def call(self, node, ctx, func):
        f = node.func
        for a in node.args:
            self.expr(a.value if isinstance(a, ast.Starred) else a, ctx, func)
        for kw in node.keywords:
            self.expr(kw.value, ctx, func)
        src = ast.unparse(f)
        if isinstance(f, ast.Name):
            if f.id in PURE_BUILTINS or f.id[:1].isupper():
                return
            if ctx.strict:
                raise Missing(f"call {src}() in {ctx.cur[0]}.{ctx.cur[1]} line {node.lineno}")
            return
        if not isinstance(f, ast.Attribute):
            self.expr(f, ctx, func)
            if ctx.strict:
                raise Missing(f"call {src}() in {ctx.cur[0]}.{ctx.cur[1]} line {node.lineno}")
            return
        recv, name = f.value, f.attr
        # super().__init__()
        if isinstance(recv, ast.Call) and isinstance(recv.func, ast.Name) and recv.func.id == "super":
            return
        if isinstance(recv, ast.Name) and recv.id in PURE_MODULES:
            return
        if isinstance(recv, ast.Name) and recv.id == "time":
            if name == "sleep" and ctx.held and not ctx.aux:
                raise Missing(f"time.sleep under a lock in {ctx.cur[0]}.{ctx.cur[1]} line {node.lineno}")
            return
        if isinstance(recv, ast.Name) and recv.id == "queue":
            return   # queue.Queue() constructor (unboundedness checked globally)
        self.chain(recv, ctx, func, callee=name)
        k = self.resolve(recv, ctx)
        if self.kclass(k):
            cname = self.kclass(k)
            if (cname, name) in self.s.funcs:
                given = {}
                callee = self.s.funcs[(cname, name)]
                params = [a.arg for a in callee.args.args if a.arg != "self"]
                for p, a in zip(params, node.args):
                    given[p] = self.as_arg(self.resolve(a, ctx))
                for kw in node.keywords:
                    if kw.arg:
                        given[kw.arg] = self.as_arg(self.resolve(kw.value, ctx))
                return self.inline(cname, name, node, ctx, given, call=node)
            if k[0] == "prot":
                return   # method of the protected data object itself (list / dataclass)
            if cname in AUX or ctx.aux:
                return
            if ctx.strict:
                raise Missing(f"call {src}(): {cname} has no method {name} ({ctx.cur[0]}.{ctx.cur[1]} line {node.lineno})")
            return
        if k is not None and k[0] == "queue":
            return self.queue_op(node, name, k[1], ctx)
        if k is not None and k[0] in ("alias", "prot") and name in ("put", "get", "put_nowait", "get_nowait"):
            if k[1] == "subQ":
                return self.queue_op(node, name, "sub", ctx)
            raise Missing(f"queue operation {src}() on {k} in {ctx.cur[0]}.{ctx.cur[1]} line {node.lineno}")
        if k is not None and k[0] == "link":
            self.rec_block(node, ctx, "link", "resp", True, "_intf." + name)
            return
        if k is not None and k[0] == "thread":
            if name == "thread_stop":
                # ThreadCommon.thread_stop -> Thread.join() without timeout: a wait-for edge to that thread,
                # recorded with the locks held (the table's `joinsLockFree` fact judges it)
                self.rec_join(node, ctx, TIDS[k[1]], src)
                return
            if name in ("join", "wait") or (ctx.held and not ctx.aux):
                raise Missing(f"thread control {src}() in {ctx.cur[0]}.{ctx.cur[1]} line {node.lineno}")
            return
        if k is not None and k[0] == "event":
            if name == "wait" and ctx.held and not ctx.aux:
                raise Missing(f"Event.wait under a lock in {ctx.cur[0]}.{ctx.cur[1]} line {node.lineno}")
            return
        if k is not None and k[0] in ("attr", "method"):
            if ctx.strict:
                raise Missing(f"call {src}() on an attribute of unknown kind in {ctx.cur[0]}.{ctx.cur[1]} line {node.lineno}")
            return
        if k is not None and k[0] == "lock":
            raise Missing(f"explicit lock call {src}() in {ctx.cur[0]}.{ctx.cur[1]} line {node.lineno} (only `with` is understood)")
        if k is not None and k[0] in ("alias", "prot", "pure", "chan"):
            if name in ("put", "get", "put_nowait", "get_nowait", "acquire", "release", "join", "wait") and ctx.strict:
                raise Missing(f"call {src}() in {ctx.cur[0]}.{ctx.cur[1]} line {node.lineno}")
            return   # method of a data object (DeviceChannel / list / dataclass): DeviceChannel is checked lock-free
        # unknown receiver
        if name in PURE_METHODS and isinstance(recv, (ast.Name, ast.Subscript, ast.Constant, ast.JoinedStr)) and \
                not (name in ("pop",) and False):
            return
        if ctx.strict:
            raise Missing(f"call {src}() in {ctx.cur[0]}.{ctx.cur[1]} line {node.lineno}")

    def as_arg(self, k):
        """what a callee sees of an argument: objects of known classes and queues, nothing else"""
        if k is None:
            return None
        if self.kclass(k):
            return ("class", self.kclass(k))
        if k[0] == "queue":
            return k
        return None

    def queue_op(self, node, name, qid, ctx):
        if name in ("put", "put_nowait"):
            self.rec_block(node, ctx, "put", qid, True, name)
        elif name in ("get", "get_nowait"):
            bounded = name == "get_nowait"
            if not bounded:
                kws = {kw.arg: kw.value for kw in node.keywords}
                blk = kws.get("block", node.args[0] if node.args else None)
                to = kws.get("timeout", node.args[1] if len(node.args) > 1 else None)
                if isinstance(blk, ast.Constant) and blk.value is False:
                    bounded = True
                elif to is not None:
                    bounded = self.numeric(to, ctx)
            self.rec_block(node, ctx, "get", qid, bounded, name)
        elif name in ("empty", "qsize", "full"):
            pass
        elif ctx.strict:
            raise Missing(f"queue method {name} in {ctx.cur[0]}.{ctx.cur[1]} line {node.lineno}")

    def numeric(self, e, ctx):
        """is expression e a positive number on this resolved path?"""
        if isinstance(e, ast.Constant):
            return isinstance(e.value, (int, float)) and not isinstance(e.value, bool) and e.value >= 0
        if isinstance(e, ast.Name):
            return ctx.names.get(e.id) == ("num",)
        return False

    def inline(self, cname, mname, node, ctx, given, call=None):
        key = (cname, mname)
        aux = ctx.aux or cname in AUX
        if key in ctx.stack:
            if aux:
                return
            raise Missing(f"recursion through {cname}.{mname}")
        if len(ctx.stack) > 12:
            raise Missing(f"call depth at {cname}.{mname}")
        f = self.s.funcs[key]
        c2 = Ctx(ctx.entry, key, ctx.held, ctx.sect, ctx.via + (f"{cname}.{mname}",), ctx.stack + (key,), ctx.thread, aux, {})
        # numeric parameters: passed constants / numeric names, or numeric defaults
        params = [a for a in f.args.args if a.arg != "self"]
        defaults = dict(zip([a.arg for a in params][len(params) - len(f.args.defaults):], f.args.defaults))
        passed = {}
        if call is not None:
            for p, a in zip(params, call.args):
                passed[p.arg] = a
            for kw in call.keywords:
                if kw.arg:
                    passed[kw.arg] = kw.value
        g2 = dict(given)
        for p in params:
            src_e = passed.get(p.arg, defaults.get(p.arg))
            if src_e is not None and self.numeric(src_e, ctx if p.arg in passed else c2):
                g2[p.arg] = ("num",)
        self.bind_params(f, c2, g2)
        self.block(f.body, c2, f)
        # the device-side dispatcher calls the registered callbacks
        if key == ("ParseRecv", "recv_handle") and ctx.cur[0] == "DummyDev":
            if not self.s.dummy_cbs:
                raise Missing("DummyDev.start: ParseRecvCb(<name>=self.<method>, …) registration")
            for cb in self.s.dummy_cbs:
                c3 = Ctx(ctx.entry, ctx.cur, ctx.held, ctx.sect, ctx.via + ("recv_handle",), ctx.stack + (key,), ctx.thread, False, {})
                self.inline("DummyDev", cb, node, c3, {})


# ---------------------------------------------------------------------------------------------------------
def lean_locks(h):
    return "[" + ", ".join("." + x for x in h) + "]"


def lean_str(s):
    return '"' + s.replace("\\", "\\\\").replace('"', '\\"') + '"'


def analyse(repo):
    s = Src(repo)
    a = Analysis(s)
    for (cname, mname) in s.funcs:
        if cname in MAIN:
            a.run_entry(cname, mname)
    threads = []
    for tname, cname, mname in s.thread_bodies:
        t = Analysis(s)
        t.run_entry(cname, mname, thread=True)
        locks = []
        for q in t.acqs:
            if q["acquires"] not in locks:
                locks.append(q["acquires"])
        prod, cons = [], []
        for b in t.blocking:
            if b["kind"] == "put" and b["queue"] not in prod:
                prod.append(b["queue"])
            if b["kind"] == "get" and b["queue"] not in cons:
                cons.append(b["queue"])
        forever = []
        for b in t.blocking:
            if b["kind"] == "get" and not b["bounded"] and b["queue"] not in forever:
                forever.append(b["queue"])
        joined = []
        for j in t.joins:
            if j["target"] not in joined:
                joined.append(j["target"])
        if tname not in TIDS:
            raise Missing(f"unknown library thread `{tname}` ({cname}.{mname})")
        threads.append(dict(name=tname, cls=cname, meth=mname, locks=locks, produces=prod, consumes=cons,
                            acqs=t.acqs, blocking=t.blocking, tid=TIDS[tname], forever=forever, joins=joined))
    if not any(t["name"] == "recv" for t in threads) or not any(t["name"] == "stream" for t in threads):
        raise Missing("thread bodies `recv` (CommHandler) and `stream` (NxscopeHandler)")
    return s, a, threads


def exchange(a, mname, new, now, resync, upd):
    evs = []
    entry = ("CommHandler", mname)
    for r in a.accesses:
        if r["entry"] != entry or r["res"] != "chanCfg":
            continue
        kind = None
        if r["field"] == new and r["mode"] == "read":
            kind = "readNew"
        elif r["field"] == now and r["mode"] == "read":
            kind = "readNow"
        elif r["field"] == now and r["mode"] == "write":
            kind = "writeNow"
        elif r["field"] == resync and r["mode"] == "write":
            kind = "writeResync"
        if kind:
            evs.append((r["line"], r["col"], kind, r["sect"], r["held"]))
    for b in a.blocking:
        if b["entry"] != entry:
            continue
        if b["kind"] == "link" and b["via"].endswith("_intf.write"):
            evs.append((b["line"], b["col"], "send", b["sect"], b["held"]))
        elif b["kind"] == "get" and b["queue"] == "resp":
            evs.append((b["line"], b["col"], "ackWait", b["sect"], b["held"]))
    for q in a.acqs:
        if q["entry"] == entry and q["acquires"] == "devinfo" and upd in q["via"]:
            evs.append((q["line"], q["col"], "devUpdate", q["sect"], q["held"]))
    # order: by position in the entry method for own records; inlined records keep the callee's line, which is fine
    seen = set()
    out = []
    for ev in evs:
        if ev in seen:
            continue
        seen.add(ev)
        out.append(ev)
    return out


def gen_locks(repo):
    o = Out("Locks", imports=("NxsModel.Locks",))
    o.raw("open Nxs.Locks")
    try:
        s, a, threads = analyse(repo)
        err = None
    except (Missing, SyntaxError, FileNotFoundError, KeyError) as e:
        err = e
    names = [("accesses", "List Access"), ("acqs", "List Acq"), ("blocking", "List Blocking"), ("threads", "List ThreadBody"),
             ("exEnable", "List ExEv"), ("exDiv", "List ExEv"), ("joins", "List JoinSite")]
    if err is not None:
        for n, t in names:
            o.raw(f"def {n} : {t} := {site(str(err))}  -- {err}")
            o.facts[n] = None
        o.raw("def table : Table := ⟨accesses, acqs, blocking, threads, exEnable, exDiv, joins⟩")
        return o

    def dedup(rows):
        seen, out = set(), []
        for r in rows:
            if r not in seen:
                seen.add(r)
                out.append(r)
        return out

    acc = dedup([f"  ⟨{lean_str(r['cls'])}, {lean_str(r['meth'])}, {r['line']}, .{r['res']}, .{r['field']}, .{r['mode']}, "
                 f"{lean_locks(r['held'])}, {r['sect']}, .{r['exempt']}⟩" for r in a.accesses
                 if r["entry"] == (r["cls"], r["meth"])])
    # accesses reached through inlined callees are recorded at the callee (as its own entry) — and, when the
    # inlining crosses into another class's protected state, that class's own entry analysis covers them
    acqs = dedup([f"  ⟨{lean_str(r['entry'][0])}, {lean_str(r['entry'][1])}, {r['line']}, {lean_locks(r['held'])}, "
                  f".{r['acquires']}, {lean_str(r['via'])}⟩" for r in a.acqs if r["entry"][1] != "__init__"] +
                 [f"  ⟨{lean_str(t['cls'])}, {lean_str('thread:' + t['name'])}, {r['line']}, {lean_locks(r['held'])}, "
                  f".{r['acquires']}, {lean_str(r['via'])}⟩" for t in threads for r in t["acqs"]])
    blk = dedup([f"  ⟨{lean_str(r['entry'][0])}, {lean_str(r['entry'][1])}, {r['line']}, {lean_locks(r['held'])}, {r['sect']}, "
                 f".{r['kind']}, .{r['queue']}, {'true' if r['bounded'] else 'false'}, {lean_str(r['via'])}⟩"
                 for r in a.blocking if r["entry"][1] != "__init__"] +
                [f"  ⟨{lean_str(t['cls'])}, {lean_str('thread:' + t['name'])}, {r['line']}, {lean_locks(r['held'])}, {r['sect']}, "
                 f".{r['kind']}, .{r['queue']}, {'true' if r['bounded'] else 'false'}, {lean_str(r['via'])}⟩"
                 for t in threads for r in t["blocking"]])
    thr = [f"  ⟨{lean_str(t['name'])}, {lean_str(t['cls'])}, {lean_str(t['meth'])}, {lean_locks(t['locks'])}, "
           f"{lean_locks(t['produces'])}, {lean_locks(t['consumes'])}, .{t['tid']}, {lean_locks(t['forever'])}, "
           f"{lean_locks(t['joins'])}⟩" for t in threads]
    exe = [f"  ⟨.{k}, {ln}, {sect}, {lean_locks(held)}⟩"
           for ln, col, k, sect, held in exchange(a, "_nxslib_channels_enable", "enNew", "enNow", "enResync", "en_channels_update")]
    exd = [f"  ⟨.{k}, {ln}, {sect}, {lean_locks(held)}⟩"
           for ln, col, k, sect, held in exchange(a, "_nxslib_channels_div", "divNew", "divNow", "divResync", "div_channels_update")]
    jn = dedup([f"  ⟨{lean_str(r['entry'][0])}, {lean_str(r['entry'][1])}, {r['line']}, {lean_locks(r['held'])}, .{r['target']}, "
                f"{lean_str(r['via'])}⟩" for r in a.joins if r["entry"][1] != "__init__"])
    for (n, t), rows in zip(names, [acc, acqs, blk, thr, exe, exd, jn]):
        o.raw(f"def {n} : {t} := [\n" + ",\n".join(rows) + "\n]" if rows else f"def {n} : {t} := []")
        o.facts[n] = len(rows)
    o.raw("def table : Table := ⟨accesses, acqs, blocking, threads, exEnable, exDiv, joins⟩")
    # import facts: what the constructor of each of the four locks IS in its module (resolved through the module's imports;
    # anything but threading.Lock / threading.RLock is a missing site above)
    for (cname, attr), lk in LOCKS.items():
        o.raw(f"-- lock .{lk}: {cname}.{attr} = {s.lock_ctor.get((cname, attr))}()  [{MAIN[cname]}]")
    o.facts["lockCtors"] = {lk: s.lock_ctor.get((cname, attr)) for (cname, attr), lk in LOCKS.items()}
    return o


if __name__ == "__main__":
    import sys
    print(gen_locks(sys.argv[1] if len(sys.argv) > 1 else "/repo").text())
