#!/usr/bin/env python3
"""Regression self-test of the C18 part of the translator (harness/translate_serial.py): hand-mutated copies of
intf/serial.py must change Gen/SerialIntf.lean exactly where expected.  Run:
  /venv/bin/python harness/test_translate_serial.py
"""
import os
import shutil
import sys
import tempfile

HERE = os.path.dirname(os.path.abspath(__file__))
sys.path.insert(0, HERE)
from translate_serial import gen_serialintf  # noqa: E402

REPO = os.environ.get("NXS_REPO", "/repo")
SE = "intf/serial.py"

# (file, old, new, substring that must appear in the new text and not in the old)
CASES = [
    # how the port is opened
    (SE, "bytesize: int = 8", "bytesize: int = 7", "def openDataBits : Nat := 7"),
    (SE, "                write_timeout=1,\n", "                write_timeout=1,\n                rtscts=True,\n", "def openRtsCts : Bool := true"),
    (SE, "                write_timeout=1,\n", "                write_timeout=1,\n                rtscts=True,\n", '"rtscts"'),
    (SE, "                write_timeout=1,\n", "                write_timeout=1,\n                dsrdtr=True,\n", "def openDsrDtr : Bool := true"),
    (SE, "                write_timeout=1,\n", "                write_timeout=1,\n                xonxoff=True,\n", "def openXonXoff : Bool := true"),
    (SE, "                write_timeout=1,\n", "                write_timeout=1,\n                inter_byte_timeout=0.1,\n", '"inter_byte_timeout"'),
    (SE, "                write_timeout=1,\n", "                write_timeout=1,\n                exclusive=True,\n", '"exclusive"'),
    (SE, "                write_timeout=1,\n", "                write_timeout=1,\n                **opts,\n", "translator_site_missing_SerialIntf_openArgs"),
    (SE, 'parity: str = "N"', 'parity: str = "E"', 'def openParity : String := "E"'),
    (SE, "stopbits: int = 1", "stopbits: int = 2", "def openStopBits : Nat := 2"),
    (SE, "stopbits: int = 1", "stopbits: float = 1.5", "translator_site_missing_SerialIntf_openStopBits"),
    (SE, "                bytesize=bytesize,\n", "                bytesize=7,\n", "def openDataBits : Nat := 7"),
    (SE, "                bytesize=bytesize,\n", "", '["baudrate", "parity", "port"'),
    (SE, "                parity=parity,\n", "                parity=serial.PARITY_EVEN,\n", "translator_site_missing_SerialIntf_openParity"),
    (SE, "        try:\n            self._ser = serial.Serial(", "        bytesize = 7\n        try:\n            self._ser = serial.Serial(",
     "translator_site_missing_SerialIntf_openDataBits"),
    (SE, "        stopbits: int = 1,\n    ) -> None:", "        stopbits: int = 1,\n        flowctrl: bool = True,\n    ) -> None:", "def openXonXoff : Bool := false"),   # unused parameter: harmless; see next
    (SE, "                stopbits=stopbits,\n", "                stopbits=stopbits,\n                xonxoff=stopbits,\n", "translator_site_missing_SerialIntf_openXonXoff"),
    (SE, "                timeout=1,\n", "                5,\n", "def openDataBits : Nat := 5"),     # third positional argument = bytesize … and then twice
    # the port object after it was opened
    (SE, "        super().__init__()\n", "        self._ser.rtscts = True\n        super().__init__()\n", "self._ser.rtscts is assigned or deleted"),
    (SE, "        super().__init__()\n", "        self._ser.apply_settings({'bytesize': 7})\n        super().__init__()\n", '"apply_settings"'),
    (SE, "        super().__init__()\n", "        ser = self._ser\n        super().__init__()\n", "translator_site_missing_SerialIntf_serHandleShape"),
    (SE, "        super().__init__()\n", "        setattr(self._ser, 'rtscts', True)\n        super().__init__()\n", "translator_site_missing_SerialIntf_serAttrs"),
    (SE, '        logger.debug("start serial interface")\n', '        logger.debug("start serial interface")\n        self._ser = None\n',
     "translator_site_missing_SerialIntf_serHandleShape"),
    (SE, "        assert self._ser\n        self._ser.write(data)", "        assert self._ser\n        self._ser.reset_input_buffer()\n        self._ser.write(data)",
     '"reset_input_buffer"'),
    (SE, '    def start(self) -> None:\n', '    def flow(self, on: bool) -> None:\n        """x."""\n        self._ser.xonxoff = on\n\n    def start(self) -> None:\n',
     "self._ser.xonxoff is assigned or deleted"),
    # the older facts
    (SE, "write_timeout=1,", "write_timeout=0,", "def writeTimeout : Option Nat := some 0"),
    (SE, "self._ser.read(self._ser.in_waiting)", "self._ser.read(max(1, self._ser.in_waiting))", "(max 1 w)"),
]


def gen(root):
    return gen_serialintf(root).text()


def main():
    base = tempfile.mkdtemp(prefix="trs_")
    fails = 0
    try:
        t0 = gen(REPO)
        if "translator_site_missing" in t0:
            print("FAIL: the unchanged source already has missing sites")
            fails += 1
        for i, (rel, old, new, expect) in enumerate(CASES):
            root = os.path.join(base, f"r{i}")
            shutil.copytree(os.path.join(REPO, "src", "nxslib"), os.path.join(root, "src", "nxslib"))
            p = os.path.join(root, "src", "nxslib", rel)
            s = open(p).read()
            if s.count(old) != 1:
                print(f"FAIL case {i}: pattern occurs {s.count(old)} times in {rel}: {old[:50]!r}")
                fails += 1
                continue
            open(p, "w").write(s.replace(old, new))
            try:
                t1 = gen(root)
            except Exception as e:  # the third-positional case makes bytesize appear twice: a Missing is fine too
                t1 = f"exception {type(e).__name__}: {e}"
            if i == 15:
                ok = expect in t1 and t1 == t0      # an unused new parameter changes nothing
            elif i == 17:
                ok = "translator_site_missing_SerialIntf_open" in t1   # bytesize given twice
            else:
                ok = expect in t1 and expect not in t0
            if ok:
                print(f"ok   case {i}: {expect[:70]!r}")
            else:
                print(f"FAIL case {i}: expected {expect!r} (changed={t0 != t1})")
                fails += 1
    finally:
        shutil.rmtree(base, ignore_errors=True)
    print(f"{len(CASES) - fails}/{len(CASES)} translator expectations hold")
    return 1 if fails else 0


if __name__ == "__main__":
    sys.exit(main())
