#!/usr/bin/env python3
"""import /tmp/mut/<Cxx>/mutation_<i>/ (written by an independent sub-agent) into /verif/seeded/<Cxx>-m<i>/"""
import json
import os
import shutil
import sys

ROOT = os.path.dirname(os.path.dirname(os.path.abspath(__file__)))
args = sys.argv[1:]
root = "/tmp/mut"
tag = "m"
if args and args[0].startswith("--root="):
    root = args[0].split("=", 1)[1]
    tag = {"mut3": "r3m", "mut4": "r4m", "mut5": "r5m", "mut6": "r6m"}.get(os.path.basename(root.rstrip("/")), "r2m")
    args = args[1:]
for pid in args:
    base = f"{root}/{pid}"
    for d in sorted(os.listdir(base)):
        if not d.startswith("mutation_"):
            continue
        src = os.path.join(base, d)
        name = f"{pid}-{tag}{d.split('_')[1]}"
        dst = os.path.join(ROOT, "seeded", name)
        os.makedirs(dst, exist_ok=True)
        for f in os.listdir(src):
            if os.path.isfile(os.path.join(src, f)):
                shutil.copy(os.path.join(src, f), os.path.join(dst, f))
        notes = open(os.path.join(dst, "notes.md")).read() if os.path.exists(os.path.join(dst, "notes.md")) else ""
        meta = {"property": pid, "origin": "independent sub-agent given only the property text and a scratch worktree",
                "needs_to_manifest": notes.strip()[:1500],
                "ran": "harness/seeded_eval.py: demo on clean/patched worktree, existing suite on patched worktree, ./check <property> quick from a scratch copy of /verif with NXS_REPO=<patched worktree>"}
        old = os.path.join(dst, "meta.json")
        if os.path.exists(old):
            # a re-import (another wave in the same root) keeps what an earlier evaluation recorded
            try:
                prev = json.load(open(old))
                if "evaluation" in prev:
                    meta["evaluation"] = prev["evaluation"]
            except Exception:  # noqa: BLE001
                pass
        with open(os.path.join(dst, "meta.json"), "w") as f:
            json.dump(meta, f, indent=1)
        print("imported", name)
