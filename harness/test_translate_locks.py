"""Regression test of harness/translate_locks.py: hand-mutated copies of the sources must change the generated
table where expected (run: /venv/bin/python harness/test_translate_locks.py)."""
import os
import re
import shutil
import sys
import tempfile

HERE = os.path.dirname(os.path.abspath(__file__))
sys.path.insert(0, HERE)
from translate_locks import gen_locks  # noqa: E402

REPO = os.environ.get("NXS_REPO", "/repo")


def mutate(rel, old, new, count=1):
    d = tempfile.mkdtemp(prefix="tl_")
    shutil.copytree(os.path.join(REPO, "src"), os.path.join(d, "src"))
    p = os.path.join(d, "src", "nxslib", rel)
    s = open(p).read()
    assert s.count(old) >= 1, (rel, old)
    s = s.replace(old, new, count)
    open(p, "w").write(s)
    return d


def rows(text, name):
    m = re.search(rf"def {name} : [^\n]*:= \[\n(.*?)\n\]", text, flags=re.S)
    return m.group(1).split("\n") if m else []


def main():
    base = gen_locks(REPO).text()
    assert "translator_site_missing" not in base, base[:2000]
    fails = []

    def check(label, d, pred):
        t = gen_locks(d).text()
        shutil.rmtree(d)
        ok = t != base and pred(t)
        print(("ok   " if ok else "FAIL ") + label)
        if not ok:
            fails.append(label)

    # (a) lock dropped from a reader
    check("ch_is_enabled without the lock -> unprotected read of enNow",
          mutate("comm.py", "        with self._channels_lock:\n            assert self._channels\n            return self._channels.en_now[chan]",
                 "        assert self._channels\n        return self._channels.en_now[chan]"),
          lambda t: any('"ch_is_enabled"' in r and ".enNow, .read, [], 0, .no" in r for r in rows(t, "accesses")))
    # (b) narrowed: ack wait outside
    check("narrowed `with` in _nxslib_channels_enable -> events in two sections, ackWait without lock",
          mutate("comm.py", "                ret = self._channel_enable(en_req_l)\n            if ret.state is False:",
                 "                ret = self._channel_enable(en_req_l)\n        with self._channels_lock:\n            if ret.state is False:"),
          lambda t: len({r.split(",")[2] for r in rows(t, "exEnable")}) > 1)
    # (c) opposite nesting
    check("stream_sub takes channels then queue -> acquisition queue under channels",
          mutate("nxscope.py", "        with self._queue_lock:\n            self._sub_q[chan].append(subq)",
                 "        with self._comm._channels_lock:\n            with self._queue_lock:\n                self._sub_q[chan].append(subq)"),
          lambda t: any('"stream_sub"' in r and "[.channels], .queue" in r for r in rows(t, "acqs")))
    check("Device.en_channels_update calling back under the device lock is an unknown call -> missing site",
          mutate("dev.py", "            for i, chen in enumerate(en):\n                self._channels[i].data.en = chen",
                 "            for i, chen in enumerate(en):\n                self._channels[i].data.en = chen\n            self._owner.ch_is_enabled(0)"),
          lambda t: "translator_site_missing_Locks_" in t)
    # (d) unsub without the queue lock
    check("stream_unsub without the queue lock -> unprotected accesses to subQ",
          mutate("nxscope.py", "        with self._queue_lock:\n            for i, sub in enumerate(self._sub_q):\n                if subq in sub:\n                    self._sub_q[i].remove(subq)",
                 "        for i, sub in enumerate(self._sub_q):\n            if subq in sub:\n                self._sub_q[i].remove(subq)"),
          lambda t: any('"stream_unsub"' in r and ".write, [], 0, .no" in r for r in rows(t, "accesses")))
    # others
    check("ACK wait without timeout -> unbounded get under the channels lock",
          mutate("comm.py", "            frame = self._q.get(block=True, timeout=timeout)", "            frame = self._q.get(block=True)"),
          lambda t: any(".get, .resp, false" in r and "[.channels]" in r for r in rows(t, "blocking")))
    check("receive thread takes a lock -> producer of the response queue no longer lock-free",
          mutate("comm.py", "        frame = self._read_frame()\n        if frame:", "        frame = self._read_frame()\n        if frame and self.ch_is_enabled(0):"),
          lambda t: any('"recv"' in r and "[.channels]" in r for r in rows(t, "threads")))
    check("bounded subscriber queue -> missing site (put may block under the queue lock)",
          mutate("nxscope.py", "subq: queue.Queue[list[DNxscopeStream]] = queue.Queue()", "subq: queue.Queue[list[DNxscopeStream]] = queue.Queue(8)"),
          lambda t: "translator_site_missing_Locks_" in t)
    check("DummyDev callback without its lock -> unprotected write of the simulated channels",
          mutate("intf/dummy.py", "        with self._dummydev_lock:\n            enables = self._parse.frame_enable_decode(data, self._dummydev)\n            for chid, en in enumerate(enables):\n                chan = self._dummydev.channel_get(chid)\n                assert chan\n                chan.data.en = en\n",
                 "        if True:\n            enables = self._parse.frame_enable_decode(data, self._dummydev)\n            for chid, en in enumerate(enables):\n                chan = self._dummydev.channel_get(chid)\n                assert chan\n                chan.data.en = en\n"),
          lambda t: any('"_enable_cb"' in r and ".write, [], 0, .no" in r for r in rows(t, "accesses")))
    check("Device.channel_get without the device-info lock",
          mutate("dev.py", "            with self._channels_lock:\n                return self._channels[chid]", "            return self._channels[chid]"),
          lambda t: any('"channel_get"' in r and ".read, [], 0, .no" in r for r in rows(t, "accesses")))
    # lock scopes come from the AST (`ast.With` bodies), not from text: DEDENTING statements out of a `with` block
    # (same tokens, same line numbers — invisible to a whitespace-collapsing comparison) changes the table
    check("dedent: the device-copy update of _nxslib_channels_enable moved out of the `with` block -> unprotected read "
          "of enNow, devUpdate outside the section",
          mutate("comm.py", "            self._channels.en_now = copy.deepcopy(self._channels.en_new)\n            assert self.dev\n"
                 "            self.dev.en_channels_update(self._channels.en_now)\n",
                 "            self._channels.en_now = copy.deepcopy(self._channels.en_new)\n        assert self.dev\n"
                 "        self.dev.en_channels_update(self._channels.en_now)\n"),
          lambda t: any('"_nxslib_channels_enable"' in r and ".enNow, .read, [], 0, .no" in r for r in rows(t, "accesses"))
          and any(".devUpdate" in r and ", 0, []" in r for r in rows(t, "exEnable")))
    check("dedent: the loop of _ch_divider_default moved out of the `with` block -> unprotected writes of divNew",
          mutate("comm.py", "            assert self._channels\n            for i, _ in enumerate(self._channels.div_new):\n"
                 "                self._channels.div_new[i] = 0\n",
                 "            assert self._channels\n        for i, _ in enumerate(self._channels.div_new):\n"
                 "            self._channels.div_new[i] = 0\n"),
          lambda t: any('"_ch_divider_default"' in r and ".divNew, .write, [], 0, .no" in r for r in rows(t, "accesses")))
    check("dedent: the removal loop of stream_unsub moved out of the `with` block (a `pass` stays inside)",
          mutate("nxscope.py", "        with self._queue_lock:\n            for i, sub in enumerate(self._sub_q):\n                if subq in sub:\n                    self._sub_q[i].remove(subq)",
                 "        with self._queue_lock:\n            pass\n        for i, sub in enumerate(self._sub_q):\n            if subq in sub:\n                self._sub_q[i].remove(subq)"),
          lambda t: any('"stream_unsub"' in r and ".write, [], 0, .no" in r for r in rows(t, "accesses")))
    # joins
    check("stream_stop joins the stream thread while holding the queue lock -> join site with held = [queue]",
          mutate("nxscope.py", "            # stop stream thread\n            self._thrd.thread_stop()\n\n            self._stream_started = False",
                 "            # stop stream thread\n            with self._queue_lock:\n                self._thrd.thread_stop()\n\n            self._stream_started = False"),
          lambda t: any('"stream_stop"' in r and "[.queue], .stream" in r for r in rows(t, "joins")))
    check("the stream thread waits for a stream frame without timeout -> foreverGets of its body",
          mutate("comm.py", "            frame = self._q_stream.get(block=True, timeout=timeout)", "            frame = self._q_stream.get(block=True)"),
          lambda t: any('"stream"' in r and ".stream, [.stream], []" in r for r in rows(t, "threads")))
    # round 4: what `Lock` IS in the module decides (R4-C-M1), a lock the table does not know is named (C12-r4m1)
    for rel in ("comm.py", "nxscope.py", "dev.py", "intf/dummy.py"):
        check(f"{rel}: `from contextlib import nullcontext as Lock` -> missing site naming the import",
              mutate(rel, "from threading import Lock\n" if rel != "intf/dummy.py" else "from threading import Event, Lock\n",
                     "from contextlib import nullcontext as Lock\n" if rel != "intf/dummy.py" else
                     "from threading import Event\nfrom contextlib import nullcontext as Lock\n"),
              lambda t: "translator_site_missing_Locks_" in t and "contextlib.nullcontext" in t)
    check("comm.py: `Lock` rebound by a module-level assignment after the import -> missing site",
          mutate("comm.py", "from threading import Lock\n", "from threading import Lock\nimport contextlib\nLock = contextlib.nullcontext\n"),
          lambda t: "translator_site_missing_Locks_" in t and "assigned in the module" in t)
    check("a second lock attribute (CommHandler._channels_div_lock) -> missing site naming it, no crash",
          mutate("comm.py", "        self._channels_lock = Lock()\n", "        self._channels_lock = Lock()\n        self._channels_div_lock = Lock()\n"),
          lambda t: "translator_site_missing_Locks_unknown_lock_attribute_CommHandler__channels_div_lock" in t)
    check("stream_unsub drains the queue with a blocking get() under the queue lock -> unbounded get, held = [queue]",
          mutate("nxscope.py", "                if subq in sub:\n                    self._sub_q[i].remove(subq)\n",
                 "                if subq in sub:\n                    self._sub_q[i].remove(subq)\n            while not subq.empty():\n                subq.get()\n"),
          lambda t: any('"stream_unsub"' in r and "[.queue]" in r and ".get, .sub, false" in r for r in rows(t, "blocking")))
    # harmless spellings of the same constructor leave the table alone (only the import facts are the same too)
    for label, old, new in (("`import threading` + `threading.Lock()`", "from threading import Lock\n", "import threading\n"),
                            ("`from threading import Lock as _L`", "from threading import Lock\n", "from threading import Lock as _L\n")):
        d = mutate("dev.py", old, new)
        p2 = os.path.join(d, "src", "nxslib", "dev.py")
        src = open(p2).read().replace("= Lock()", "= threading.Lock()" if "import threading" in new else "= _L()")
        open(p2, "w").write(src)
        t = gen_locks(d).text()
        shutil.rmtree(d)
        ok = t == base
        print(("ok   " if ok else "FAIL ") + f"dev.py: {label}: lock table unchanged (no false alarm)")
        if not ok:
            fails.append(label)
    # the reviewer's edit E-C12-3 (dedent inside `NxscopeHandler.stream_stop`, no lock scope involved) leaves the lock
    # table alone by design: it is seen by Gen/CfgShape (streamStartStopShape, block structure) and the source pins
    d = mutate("nxscope.py", "            # stop stream thread\n            self._thrd.thread_stop()\n\n            self._stream_started = False",
               "        # stop stream thread\n        self._thrd.thread_stop()\n\n        self._stream_started = False")
    t = gen_locks(d).text()
    shutil.rmtree(d)
    print(("ok   " if t == base else "note ") + "E-C12-3 (dedent in stream_stop outside any `with`): lock table " +
          ("unchanged, as expected" if t == base else "changed"))
    print("FAILED: %s" % fails if fails else "all translator mutations detected")
    return 1 if fails else 0


if __name__ == "__main__":
    sys.exit(main())
