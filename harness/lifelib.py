"""Life-cycle sessions (C09, C11): the real NxscopeHandler / a bare CommHandler under vsim against the reference
device, driven by the `life` line protocol of lean/NxsModel/Driver/Lifecycle.lean; plus the real-thread sessions
against the real DummyDev (run in sub-processes) and a bounded queue shim for vsim.

  life <nx|comm> <flags> <en bits> <div ints> <started 0|1> <desc> <call;call;…>
  desc  : <rxpadding>/<type>.<vdim>.<mlen>.<name hex|->,…
  calls : see the Lean driver; `<call>~<st>,<dv>,<en>` gives the device's answers (a | x | l | n<r>) to the
          start/stop, divider and enable request the call issues
  an optional 8th token describes events of the environment the model does not see:
          `cut:<i>,…`    before call i the first bytes of a frame that is never completed arrive
          `wfail:<i>.<k>,…`  the k-th interface write of call i raises OSError (oracle-only lines: never given to the model)
  a channel name in <desc> is any byte string: not valid UTF-8 (connect raises) or with a NUL (the client sees a C string)
"""
import json
import os
import subprocess
import sys

import refdev
import vsim
from common import exc_name, hexs

# ---- small helpers (copied from sessionlib: shared file, not to be edited) ------------------------------------


def bits(l):
    return "".join("1" if b else "0" for b in l) or "-"


def ints(l):
    return ",".join(str(int(x)) for x in l) or "-"


def strip_pad(data):
    """remove trailing zero padding beyond the declared frame length (serial framing)"""
    if len(data) >= 4 and data[0] == 0x55:
        flen = data[1] | data[2] << 8
        if 6 <= flen <= len(data) and not any(data[flen:]):
            return data[:flen]
    return data


class LifePolicy:
    """ack everything except requests for which an outcome is set (kinds: start, div, enable); the outcome set for a
    call holds for every request of that kind the call issues (the healthy client issues at most one)"""

    def __init__(self):
        self.pending = {"div": [], "enable": [], "start": []}

    def set(self, ans):
        """ans = (st, dv, en) tokens or None"""
        self.clear()
        if ans:
            st, dv, en = ans
            self.pending["start"].append(st)
            self.pending["div"].append(dv)
            self.pending["enable"].append(en)

    def clear(self):
        for q in self.pending.values():
            q.clear()

    def __call__(self, dev, kind, req):
        q = self.pending.get(kind)
        if q:
            o = q[0]
            return {"a": "ack", "x": "applied-ack-lost", "l": "lost"}.get(o) or ("nack", int(o[1:]))
        return "ack"


# ---- line protocol -------------------------------------------------------------------------------------------

def desc_str(rxp, chans):
    """chans: list of (type, vdim, mlen, name bytes)"""
    return f"{rxp}/" + (",".join(f"{t}.{v}.{m}.{hexs(nm)}" for t, v, m, nm in chans) or "-")


def parse_desc(s):
    rxp, chs = s.split("/")
    out = []
    if chs != "-":
        for c in chs.split(","):
            t, v, m, nm = c.split(".")
            out.append((int(t), int(v), int(m), b"" if nm == "-" else bytes.fromhex(nm)))
    return int(rxp), out


def parse_line(line):
    t = line.split(" ")
    assert t[0] == "life", line
    en = [] if t[3] == "-" else [c == "1" for c in t[3]]
    div = [] if t[4] == "-" else [int(x) for x in t[4].split(",")]
    rxp, chans = parse_desc(t[6])
    calls = []
    for tok in t[7].split(";"):
        if "~" in tok:
            c, a = tok.split("~")
            calls.append((c, tuple(a.split(","))))
        else:
            calls.append((tok, None))
    cut = []
    wfail = {}
    if len(t) > 8 and t[8].startswith("cut:"):
        cut = [int(x) for x in t[8][4:].split(",")]
    if len(t) > 8 and t[8].startswith("wfail:"):
        for x in t[8][6:].split(","):
            i, k = x.split(".")
            wfail[int(i)] = int(k)
    return {"mode": t[1], "flags": int(t[2]), "en": en, "div": div, "started": int(t[5]), "rxp": rxp,
            "chans": chans, "calls": calls, "cut": cut, "wfail": wfail}


def mk_line(mode, flags, en, div, started, rxp, chans, calls, cut=None, wfail=None):
    """wfail: {call index: k} — the k-th interface write of that call raises OSError (exclusive with cut)"""
    assert not (cut and wfail)
    return (f"life {mode} {flags} {bits(en)} {ints(div)} {int(started)} {desc_str(rxp, chans)} {';'.join(calls)}"
            + (" cut:" + ",".join(map(str, cut)) if cut else "")
            + (" wfail:" + ",".join(f"{i}.{k}" for i, k in sorted(wfail.items())) if wfail else ""))


def valid_utf8(b):
    try:
        b.decode("utf-8")
        return True
    except UnicodeDecodeError:
        return False


def names_ok(p):
    """every channel name of the device is valid UTF-8 (else `connect()` cannot decode the channel info)"""
    return all(valid_utf8(nm) for _, _, _, nm in p["chans"][:len(p["en"])])


# the first bytes of a 600-byte stream frame that never gets completed (a frame cut off in flight)
CUT_FRAME = bytes([0x55, 0x58, 0x02, 0x01, 0x00]) + bytes(range(1, 20))


def plain_chans(n):
    return [(10, 1, 0, b"ch%d" % i) for i in range(n)]


NAMES = [b"", b"a", b"ch", b"chan0", b"\xc3\xa9t\xc3\xa9", b"x" * 40, b"A_b-c d", b"0"]
# names with a NUL (the client reports the text before it) …
NUL_NAMES = [b"\x00", b"ab\x00cd", b"t\x00", b"\x00\x00x", b"\xc3\xa9\x00\xc3\xa9"]
# … and names the strict UTF-8 decoder rejects (connect raises): Latin-1 text, stray continuation byte, overlong form,
# surrogate, truncated sequence, bad bytes after a NUL
BAD_NAMES = [b"temp_\xb0C", b"\xff\xfeab", b"\x80", b"\xc0\xaf", b"\xed\xa0\x80", b"ab\xe2\x82", b"ok\x00\xff", b"\xf5\x80\x80\x80"]


def gen_desc(rng, n, plain=False, p_nul=0.0, p_bad=0.0):
    """a static description for n channels: valid sample types (so that a running stream decodes), varied names;
    p_nul / p_bad: probability that the description has one name with a NUL / one name that is not UTF-8"""
    if plain:
        return 0, plain_chans(n)
    rxp, chans = gen_desc(rng, n) if (p_nul or p_bad) else (None, None)
    if chans is not None:
        if n and rng.random() < p_nul:
            i = rng.randrange(n)
            chans[i] = chans[i][:3] + (rng.choice(NUL_NAMES),)
        if n and rng.random() < p_bad:
            i = rng.randrange(n)
            chans[i] = chans[i][:3] + (rng.choice(BAD_NAMES),)
        return rxp, chans
    chans = []
    for i in range(n):
        t = rng.choice([2, 3, 4, 5, 6, 7, 8, 9, 10, 10, 11, 12, 13, 14, 15, 16, 17, 18, 1])
        vdim = 0 if t == 1 else rng.choice([1, 1, 2, 3, 4])
        if rng.random() < 0.15:
            t |= 0x80
        chans.append((t, vdim, rng.choice([0, 0, 1, 2, 4, 3]), rng.choice(NAMES) + (b"%d" % i if rng.random() < 0.5 else b"")))
    return rng.choice([0, 0, 0, 4, 8, 3, 16]), chans


# ---- "within a bounded time": the bound comes from the source's own time-outs ----------------------------------------

_TIMEOUTS = {}


def source_timeouts(repo=None):
    """every numeric literal the library's handler modules use as a time-out (keyword `timeout=` of a call, default of
    a parameter named `timeout`), read from the source under check; the properties say "bounded", not how long"""
    import ast
    repo = repo or os.environ.get("NXS_REPO", "/repo")
    if repo in _TIMEOUTS:
        return _TIMEOUTS[repo]
    vals = []

    def num(node):
        if isinstance(node, ast.Constant) and isinstance(node.value, (int, float)) and not isinstance(node.value, bool):
            vals.append(float(node.value))

    for fn in ("comm.py", "nxscope.py", "thread.py"):
        try:
            tree = ast.parse(open(os.path.join(repo, "src", "nxslib", fn)).read())
        except (OSError, SyntaxError):
            continue
        for node in ast.walk(tree):
            if isinstance(node, ast.Call):
                for kw in node.keywords:
                    if kw.arg == "timeout":
                        num(kw.value)
            elif isinstance(node, (ast.FunctionDef, ast.AsyncFunctionDef)):
                a = node.args
                pos = a.posonlyargs + a.args
                for arg, d in zip(pos[len(pos) - len(a.defaults):], a.defaults):
                    if arg.arg == "timeout":
                        num(d)
                for arg, d in zip(a.kwonlyargs, a.kw_defaults):
                    if arg.arg == "timeout" and d is not None:
                        num(d)
    _TIMEOUTS[repo] = vals
    return vals


def call_bound():
    """ceiling (virtual seconds) for ONE public call, threads joins included: the slowest call (the high-level
    disconnect) makes at most 3 ACK waits, 2 drains of 8 polls and 2 thread joins — 10 of the largest time-out the
    source uses is generous for that, and never less than 10 s.  A call that takes longer than this, or that the
    simulation gives up on (Deadlock, Spin, time limit), is reported as not returning."""
    return max(10.0, 10.0 * max(source_timeouts() or [1.0]))


# ---- bounded queue for vsim (vsim.VQueue used to ignore maxsize (it honours it now)) -----------------------------------------------------

class BoundedVQueue(vsim.VQueue):
    """queue.Queue semantics incl. a blocking put on a full bounded queue"""

    def __init__(self, maxsize=0):
        super().__init__(maxsize)
        self.maxsize = maxsize

    def put(self, item, block=True, timeout=None):
        s = vsim.sim()
        if self.maxsize and self.maxsize > 0:
            if not block:
                s._op()
                if len(self.items) >= self.maxsize:
                    raise vsim.Full()
            else:
                ok = s.block(lambda: len(self.items) < self.maxsize, timeout, "put-full")
                if not ok:
                    raise vsim.Full()
        else:
            s.yield_("put")
        self.items.append(item)


def install_bounded_queues():
    """inside a vsim scenario: make `queue.Queue(maxsize=n)` of nxslib.comm / nxslib.nxscope really bounded"""
    import nxslib.comm
    import nxslib.nxscope
    ns = vsim._NS(Queue=BoundedVQueue, Empty=vsim.Empty, Full=vsim.Full)
    nxslib.comm.queue = ns
    nxslib.nxscope.queue = ns


# ---- the session ---------------------------------------------------------------------------------------------

class RawName(str):
    """a channel name given to the reference device as raw bytes (refdev sends `name.encode("utf-8")`): lets a
    device description carry a name that is not UTF-8 or contains NUL"""

    def __new__(cls, raw):
        s = super().__new__(cls, raw.decode("latin-1"))
        s.raw = bytes(raw)
        return s

    def encode(self, *a, **k):
        return self.raw


def _desc_of(d):
    """digest of the static description a handler reports (public API only)"""
    if d is None:
        return None
    chans = []
    for i in range(d.data.chmax):
        ch = d.channel_get(i)
        chans.append((ch.data._type, ch.data.vdim, ch.data.mlen, ch.data.name.encode("utf-8")))
    return (d.data.chmax, d.data.flags, d.data.rxpadding, tuple(chans))


def _desc_digest(dg):
    chmax, flags, rxp, chans = dg
    return f"{chmax}.{flags}.{rxp}/" + (",".join(f"{t}.{v}.{m}.{hexs(nm)}" for t, v, m, nm in chans) or "-")


def run_life(p, rich=None, stream_every=2, time_limit=None, real_limit=12.0, burst=None):
    """p = parse_line(...).  Returns (per-call state strings, info).
    burst: optional {call index: n}: before that call the (still streaming) device emits n stream frames and the
    client is given the time to read them (C11: a device that keeps streaming after a failed stop)"""
    info = {}
    mode = p["mode"]
    if time_limit is None:
        # every call gets the per-call ceiling derived from the source's own time-outs (`call_bound`)
        time_limit = 20.0 + call_bound() * (len(p["calls"]) + 1) + (sum(burst.values()) * 0.001 + 1.0 if burst else 0.0)

    def scenario(sim):
        from nxslib.comm import CommHandler
        from nxslib.nxscope import NxscopeHandler
        from nxslib.proto.parse import Parser
        install_bounded_queues()
        pol = LifePolicy()
        chans = [dict(en=bool(e), type=t, vdim=v, div=int(d), mlen=m, name=RawName(nm))
                 for e, d, (t, v, m, nm) in zip(p["en"], p["div"], p["chans"])]
        dev = refdev.RefDevice(chans, flags=p["flags"], rxpadding=p["rxp"], policy=pol)
        dev.started = bool(p["started"])
        link = refdev.make_link(sim, dev, stream_every=stream_every)
        # a call that loops (sending request after request) is cut short here: vsim raises its TimeLimit in whichever
        # task advances the clock, which need not be the looping one
        budget = {"writes": 0}
        fwrite = link._fwrite

        def guarded_write(data):
            budget["writes"] += 1
            if sim.now > time_limit:
                raise vsim.TimeLimit(f"virtual time limit exceeded at t={sim.now:.2f} (the call keeps writing requests)")
            if budget["writes"] > 3000:
                raise vsim.Spin("more than 3000 writes in one call")
            if budget.get("fail_at") == budget["writes"]:
                raise OSError(f"injected: interface write {budget['writes']} of this call fails")
            return fwrite(data)
        link._fwrite = guarded_write
        if mode == "nx":
            nx = NxscopeHandler(link, Parser())
            comm = nx._comm
        else:
            nx = None
            comm = CommHandler(link, Parser())
        joined = [0.0]

        def wrap(thr):
            orig = thr.thread_stop

            def thread_stop():
                t0 = sim.now
                try:
                    return orig()
                finally:
                    joined[0] += sim.now - t0
            thr.thread_stop = thread_stop
        wrap(comm._thrd)
        if nx is not None:
            wrap(nx._thrd)
        api = nx if nx is not None else comm
        queues = []
        out = []
        descs = []

        def neutralise():
            # make the destructors of the handlers no-ops, so that a handler which could not be disconnected is not
            # disconnected again by the garbage collector in the middle of a later simulation
            if nx is not None:
                nx._connected = False
            comm._started = False

        try:
            return session(sim, pol, dev, link, nx, comm, api, joined, queues, out, descs, budget)
        except BaseException:
            neutralise()
            raise

    def session(sim, pol, dev, link, nx, comm, api, joined, queues, out, descs, budget):
        def chans_arg(txt, idx):
            """a list of ids; a single id is passed as a bare int at every other call (both forms are public API)"""
            cs = [int(x) for x in txt.split(",") if x != ""]
            return cs[0] if (len(cs) == 1 and idx % 2 == 0) else cs

        def hi(fn, *args, wn=False):
            """a wrapper of the high-level handler: `writenow` is passed only when set (its default is "buffered")"""
            return fn(*args, True) if wn else fn(*args)

        for idx, (call, ans) in enumerate(p["calls"]):
            if idx in p.get("cut", ()):
                dev.rx += CUT_FRAME
                vsim.vsleep(0.05)
            if burst and idx in burst:
                # the device streams `n` frames (if it is still streaming) and the client reads what it can
                n0 = len(dev.rx)
                for _ in range(burst[idx]):
                    dev.stream_tick()
                info.setdefault("burst", []).append((idx, dev.started, len(dev.rx) - n0))
                vsim.vsleep(burst[idx] * 0.001 + 0.5)
            wn = call.endswith("!")
            c = call[:-1] if wn else call
            budget["writes"] = 0
            budget["fail_at"] = p.get("wfail", {}).get(idx)
            w0 = len(link.writes)
            t0 = sim.now
            j0 = joined[0]
            # the spin verdict is about ONE library call: neither the harness's own observations after the previous
            # call nor earlier calls of a long history on a large device count against this one
            sim.ops_since_tick = 0
            req0 = dev.nreq
            log0 = len(dev.log)
            res = "ok"
            ret = None
            if c != "C":
                pol.set(ans)
            try:
                if c == "C":
                    d = api.connect()
                    descs.append(_desc_of(api.dev))
                elif c == "X":
                    api.disconnect()
                elif c == "S":
                    ret = api.stream_start()
                elif c == "T":
                    ret = api.stream_stop()
                elif c == "W":
                    api.channels_write()
                elif c == "N":
                    hi(api.ch_disable_all, wn=wn) if nx is not None else api.ch_disable_all()
                elif c == "A":
                    comm.ch_enable_all()
                elif c == "D":
                    hi(api.channels_default_cfg, wn=wn) if nx is not None else api.channels_default_cfg()
                elif c[0] == "s":
                    queues.append(nx.stream_sub(int(c[1:])))
                elif c[0] == "u":
                    k = int(c[1:])
                    if k < len(queues):
                        nx.stream_unsub(queues[k])
                elif c[0] == "g":
                    nx.dev_channel_get(int(c[1:]))
                elif c[0] == "e":
                    hi(api.ch_enable, chans_arg(c[1:], idx), wn=wn) if nx is not None else api.ch_enable(chans_arg(c[1:], idx))
                elif c[0] == "d":
                    hi(api.ch_disable, chans_arg(c[1:], idx), wn=wn) if nx is not None else api.ch_disable(chans_arg(c[1:], idx))
                elif c[0] == "v":
                    v, cs = c[1:].split(":")
                    if nx is not None:
                        hi(api.ch_divider, chans_arg(cs, idx), int(v), wn=wn)
                    else:
                        api.ch_divider(chans_arg(cs, idx), int(v))
                else:
                    raise ValueError(call)
            except Exception as e:
                if type(e).__name__ in STUCK:
                    raise              # the simulation gave up on this call: it never returns
                res = exc_name(e)
            pol.clear()
            budget["fail_at"] = None
            if mode == "comm" and c in ("S", "T") and res == "ok":
                res = "none" if ret is None else f"ack:{int(bool(ret.state))}:{int(ret.retcode)}"
            dt = sim.now - t0
            jt = joined[0] - j0
            live = {t.name for t in sim.live_tasks()}
            written = [strip_pad(x) for x in link.writes[w0:]]
            st = "".join(str(int(b)) for b in (nx is not None and nx._connected, comm._started, comm._dev is not None,
                                               nx is not None and nx._stream_started, "recv" in live, "stream" in live,
                                               link.started - link.stopped > 0))
            subs = "" if nx is None else ",".join(".".join(str(queues.index(q)) for q in l) for l in nx._sub_q)
            ch = getattr(comm, "_channels", None)
            view = None
            if ch is None:
                cli = "-"
            else:
                n = len(ch.en_now)
                now_en = [comm.ch_is_enabled(i) for i in range(n)]
                now_div = [comm.ch_div_get(i) for i in range(n)]
                if comm.dev is not None:
                    cp_en = [comm.dev.channel_get(i).data.en for i in range(n)]
                    cp_div = [comm.dev.channel_get(i).data.div for i in range(n)]
                    cp = f"{bits(cp_en)}/{ints(cp_div)}"
                else:
                    cp_en = cp_div = None
                    cp = "-/-"
                cli = (f"{bits(now_en)}/{ints(now_div)}/{bits(ch.en_new)}/{ints(ch.div_new)}/{cp}/"
                       f"{int(ch.en_resync)}{int(ch.div_resync)}")
                view = {"now_en": now_en, "now_div": now_div, "new_en": list(ch.en_new), "new_div": list(ch.div_new),
                        "cp_en": cp_en, "cp_div": cp_div}
            dg = _desc_of(api.dev)
            ds = "-" if dg is None else (_desc_digest(dg) if c == "C" else "+")
            out.append(f"r={res};t={round((dt - jt) * 10)};w={','.join(hexs(x) for x in written) or '-'};st={st};"
                       f"dev={bits(dev.en)}/{ints(dev.div)}/{int(dev.started)};subs={subs};cli={cli};desc={ds}")
            if rich is not None:
                rich.append({"call": call, "ans": ans, "res": res, "dt": dt, "join": jt, "nreq": dev.nreq - req0,
                             "reqs": [(k, bytes(pl)) for _, k, pl in dev.log[log0:]],
                             "nwrites": len(written), "live": sorted(live), "has_desc": dg is not None, "desc": dg,
                             "dev_en": dev.en, "dev_div": dev.div, "dev_started": dev.started, "view": view,
                             "state": f"dev={bits(dev.en)}/{ints(dev.div)}/{int(dev.started)};cli={cli};d={int(dg is not None)};st={st}",
                             "obs": f"r={res};dev={bits(dev.en)}/{ints(dev.div)}/{int(dev.started)};cli={cli};d={int(dg is not None)}"})
        info["descs"] = descs
        # leave nothing behind
        pol.clear()
        try:
            api.disconnect()
        except Exception as e:  # noqa: BLE001
            info["final_disconnect"] = exc_name(e) + ": " + str(e)[:120]
        info["live_end"] = [t.name for t in sim.live_tasks()]
        if nx is not None:
            nx._connected = False
        comm._started = False
        return out

    r, sim = vsim.run_sim(scenario, time_limit=time_limit, real_limit=real_limit,
                          spin_limit=60000 + (40 * sum(burst.values()) if burst else 0))
    info["errors"] = [(n, repr(e)) for n, e, _ in sim.errors]
    if isinstance(r, BaseException):
        raise r
    return r, info


STUCK = ("RealTimeLimit", "TimeLimit", "Spin", "Deadlock")


def impl_line(line):
    p = parse_line(line)
    out, info = run_life(p)
    if info["errors"] or info["live_end"] or info.get("final_disconnect"):
        return "harness: " + repr(info["errors"]) + repr(info["live_end"]) + repr(info.get("final_disconnect"))
    return "ok " + " | ".join(out)


# ---- configuration histories (`cfg run` lines of lean/NxsModel/Driver/Config.lean) -------------------------------
# own copy of what C11 needs (the C07 modules evolve independently)

def parse_cfg_line(line):
    """cfg run <flags> <en bits> <div ints> <op;op;…>  →  (flags, en, div, ops)"""
    t = line.split(" ")
    assert t[0] == "cfg" and t[1] == "run", line
    en = [] if t[3] == "-" else [c == "1" for c in t[3]]
    div = [] if t[4] == "-" else [int(x) for x in t[4].split(",")]
    return int(t[2]), en, div, t[5].split(";")


def cfg_dims(line):
    """dimensions of a `cfg run` session the model does not depend on, chosen by a hash of the line: stream left
    running at connect time, rx padding (stripped before comparing), CommHandler or the NxscopeHandler wrappers"""
    import zlib
    h = zlib.crc32(line.encode())
    return {"started": (h & 3) == 0, "rxpadding": [0, 0, 4, 16, 3, 8, 64, 255][(h >> 2) & 7], "high": bool((h >> 5) & 1)}


def run_cfg_history(flags, init_en, init_div, ops, rxpadding=0, started=False, high=False):
    """the real CommHandler (high: the NxscopeHandler wrappers, called without their `writenow` argument and with a
    bare int for a single channel) on a configuration history `e<cs> d<cs> v<val>:<cs> D A N W:<oDiv>:<oEn>`;
    returns (per-op state strings in the format of the Lean driver `cfg run`, info)"""
    info = {}

    def scenario(sim):
        from nxslib.comm import CommHandler
        from nxslib.proto.parse import Parser
        pol = LifePolicy()
        chans = [dict(en=bool(e), type=10, vdim=1, div=int(d), mlen=0, name=f"ch{i}") for i, (e, d) in enumerate(zip(init_en, init_div))]
        dev = refdev.RefDevice(chans, flags=flags, rxpadding=rxpadding, policy=pol)
        dev.started = started
        link = refdev.make_link(sim, dev, stream_every=3 if started else None)
        if high:
            from nxslib.nxscope import NxscopeHandler
            nx = NxscopeHandler(link, Parser())
            nx.connect()
            comm = nx._comm
        else:
            nx = None
            comm = CommHandler(link, Parser())
            comm.connect()
        api = nx if high else comm

        def chans_arg(txt):
            cs = [int(x) for x in txt.split(",") if x != ""]
            return cs[0] if (high and len(cs) == 1) else cs
        info["dev_started_after_connect"] = dev.started
        n = len(init_en)
        out = []
        try:
            for op in ops:
                w0 = len(link.writes)
                t0 = sim.now
                err = "-"
                try:
                    if op == "D":
                        api.channels_default_cfg()
                    elif op == "A":
                        comm.ch_enable_all()
                    elif op == "N":
                        api.ch_disable_all()
                    elif op.startswith("W:"):
                        _, od, oe = op.split(":")
                        pol.set(("a", od, oe))
                        api.channels_write()
                    elif op[0] == "e":
                        api.ch_enable(chans_arg(op[1:]))
                    elif op[0] == "d":
                        api.ch_disable(chans_arg(op[1:]))
                    elif op[0] == "v":
                        v, cs = op[1:].split(":")
                        api.ch_divider(chans_arg(cs), int(v))
                    else:
                        raise ValueError(op)
                except Exception as e:  # noqa: BLE001
                    if type(e).__name__ in STUCK:
                        raise
                    err = exc_name(e)
                pol.clear()
                sent = link.writes[w0:]
                if rxpadding:
                    for x in sent:
                        if len(x) % rxpadding:
                            info.setdefault("unaligned", []).append((op, len(x), rxpadding))
                    sent = [strip_pad(x) for x in sent]
                ch = comm._channels
                cp_en = [comm.dev.channel_get(i).data.en for i in range(n)]
                cp_div = [comm.dev.channel_get(i).data.div for i in range(n)]
                out.append(f"s={','.join(hexs(x) for x in sent) or '-'};t={round((sim.now - t0) * 10)};e={err};"
                           f"now={bits(comm.ch_is_enabled(i) for i in range(n))}/{ints(comm.ch_div_get(i) for i in range(n))};"
                           f"new={bits(ch.en_new)}/{ints(ch.div_new)};dev={bits(dev.en)}/{ints(dev.div)};"
                           f"cp={bits(cp_en)}/{ints(cp_div)};rs={int(ch.en_resync)}{int(ch.div_resync)}")
            (nx or comm).disconnect()
            info["live_after"] = [t.name for t in sim.live_tasks()]
        finally:
            if nx is not None:
                nx._connected = False
            comm._started = False
        return out

    r, sim = vsim.run_sim(scenario, time_limit=60.0 + call_bound() * len(ops), real_limit=20.0, spin_limit=200000)
    info["errors"] = [(n, repr(e)) for n, e, _ in sim.errors]
    if isinstance(r, BaseException):
        raise r
    return r, info


# ---- real threads, real time, real DummyDev (sub-process) ----------------------------------------------------------

REAL_HISTORIES = [
    # (name, calls): calls over C X S T e<c>! s<c> W
    ("plain", ["C", "X"]),
    ("stream", ["C", "e0!", "s0", "S", "sleep", "X"]),
    ("reconnect", ["C", "S", "T", "X", "X", "C", "C", "e1!", "S", "X"]),
    ("inert", ["S", "T", "e0", "W", "X", "C", "X", "S", "T", "W"]),
]


def real_session(calls):
    """one history on the real NxscopeHandler + DummyDev with real threads; returns a dict for the parent"""
    import threading
    import time
    from nxslib.intf.dummy import DummyDev
    from nxslib.nxscope import NxscopeHandler
    from nxslib.proto.parse import Parser

    def names():
        return sorted(t.name for t in threading.enumerate() if t is not threading.main_thread())

    base = names()
    nx = NxscopeHandler(DummyDev(), Parser())
    steps = []
    connected = False
    for c in calls:
        t0 = time.monotonic()
        res = "ok"
        try:
            if c == "C":
                nx.connect()
            elif c == "X":
                nx.disconnect()
            elif c == "S":
                nx.stream_start()
            elif c == "T":
                nx.stream_stop()
            elif c == "W":
                nx.channels_write()
            elif c == "sleep":
                time.sleep(0.3)
            elif c[0] == "e":
                nx.ch_enable(int(c[1:].rstrip("!")), c.endswith("!"))
            elif c[0] == "s":
                nx.stream_sub(int(c[1:]))
        except Exception as e:  # noqa: BLE001
            res = type(e).__name__
        steps.append({"call": c, "res": res, "dt": round(time.monotonic() - t0, 3), "threads": names(),
                      "was_connected": connected, "dev": nx.dev is not None})
        if c == "C" and res == "ok":
            connected = True
        if c == "X" and res == "ok":
            connected = False
    try:
        nx.disconnect()
    except Exception:  # noqa: BLE001
        pass
    return {"base": base, "steps": steps, "end": names()}


def real_sessions(histories=None, timeout=60.0):
    """run the histories concurrently, one sub-process each; returns {name: result | {'error': …}}"""
    return real_sessions_collect(real_sessions_start(histories), timeout)


def real_sessions_start(histories=None):
    histories = histories or REAL_HISTORIES
    here = os.path.dirname(os.path.abspath(__file__))
    repo = os.environ.get("NXS_REPO", "/repo")
    procs = []
    for name, calls in histories:
        code = ("import sys, json, logging; sys.path.insert(0, %r); sys.path.insert(0, %r); logging.disable(logging.CRITICAL);"
                "import lifelib; print('RESULT ' + json.dumps(lifelib.real_session(%r)))" % (os.path.join(repo, "src"), here, calls))
        procs.append((name, calls, subprocess.Popen([sys.executable, "-c", code], stdout=subprocess.PIPE,
                                                    stderr=subprocess.PIPE, text=True,
                                                    env={**os.environ, "NXS_REPO": repo})))
    return procs


def real_sessions_collect(procs, timeout=60.0):
    out = {}
    for name, calls, pr in procs:
        try:
            so, se = pr.communicate(timeout=timeout)
        except subprocess.TimeoutExpired:
            pr.kill()
            out[name] = {"error": f"no result within {timeout} s of real time (a call blocks)", "calls": calls}
            continue
        res = [l for l in so.splitlines() if l.startswith("RESULT ")]
        if not res:
            out[name] = {"error": "session crashed: " + se[-300:], "calls": calls}
        else:
            out[name] = json.loads(res[-1][7:])
            out[name]["calls"] = calls
    return out


def judge_real(name, r):
    """the thread clauses of C09 on a real-thread session: a disconnected handler has no library thread (compared
    with `threading.enumerate()` before the first connect), calls on it start none and return at once"""
    if "error" in r:
        return {"key": "does-not-terminate", "what": f"real-thread session {name}: {r['error']}", "expected": "every call returns",
                "observed": r["error"], "history": r["calls"]}
    base = r["base"]
    connected = False
    for i, s in enumerate(r["steps"]):
        c = s["call"]
        if c == "sleep":
            continue
        if c == "C" and s["res"] == "ok":
            connected = True
            continue
        if c == "X" and s["res"] == "ok":
            connected = False
        if not connected:
            extra = [t for t in s["threads"] if t not in base]
            if extra or s["dev"]:
                return {"key": "thread-left", "what": f"real-thread session {name}: after {c} on a disconnected handler threads {extra} are "
                        f"alive / description reported={s['dev']} (threading.enumerate() against the snapshot before connect)",
                        "expected": "no thread, no description", "observed": f"threads={extra} dev={s['dev']}", "history": r["calls"][:i + 1]}
            if c != "X" or not s["was_connected"]:
                if s["dt"] > 0.5:
                    return {"key": "disconnected-not-inert", "what": f"real-thread session {name}: call {c} on a disconnected handler "
                            f"took {s['dt']} s", "expected": "returns at once", "observed": s["dt"], "history": r["calls"][:i + 1]}
        if s["dt"] > 12.0:
            return {"key": "does-not-terminate", "what": f"real-thread session {name}: call {c} took {s['dt']} s", "expected": "bounded",
                    "observed": s["dt"], "history": r["calls"][:i + 1]}
    extra = [t for t in r["end"] if t not in base]
    if extra:
        return {"key": "thread-left", "what": f"real-thread session {name}: threads alive at the end: {extra}", "expected": "none",
                "observed": extra, "history": r["calls"]}
    return None
