"""sched.py — deterministic scheduler for REAL Python threads (used by C13; reusable for C12).

The code under test runs unmodified on real `threading.Thread`s, but exactly one managed
thread is runnable at any time; control changes hands only at *switch points*, and who runs
next is decided by a *policy*.  A run is therefore a deterministic function of the policy's
choices (the *schedule*) and can be replayed, enumerated, or random-walked.

How the code under test is put under the scheduler
--------------------------------------------------
    s = Scheduler(policy, trace_files=[nxslib.thread.__file__])
    nxslib.thread.threading = s.threading          # shim module object (rebind, no source change)
    nxslib.comm.queue       = s.queue              # (C12) shim `queue` module object
    res = s.run(main_fn)                           # main_fn runs as managed thread 0

`s.threading` offers `Thread, Event, Lock, RLock, current_thread, get_ident`; `s.queue` offers
`Queue, Empty, Full`.  Their semantics are the documented ones, implemented by the scheduler
itself on top of real OS threads (the real primitives are used only to park threads):
  Thread.start()   new thread becomes runnable and alive; second start() -> RuntimeError
  Thread.is_alive()true from start() until the run function returned
  Thread.join(t)   blocks the caller until the thread has terminated (RuntimeError if never
                   started / joining itself); with a timeout it may also give up (see below)
  Event            set / clear / is_set atomic; wait([t]) blocks until set
  Lock / RLock     acquire([blocking, timeout]) / release, context manager
  Queue            put / get([block, timeout]) / put_nowait / get_nowait / qsize / empty
Thread ids: 0 = the thread running `main_fn`; k >= 1 = the k-th `Thread(...)` object created.

Switch points (kinds)
  'line'   before every source line executed inside one of `trace_files` (sys.settrace)
  'prim'   before the effect of every shim primitive (disabled with prim_points=False when the
           calling code is line-traced anyway), and always before a thread's exit
  'yield'  `s.point('yield')` — a voluntary yield placed by the harness (e.g. in a callback)
  'block'  the current thread cannot continue (join / wait / acquire / get on something not
           available): somebody else must be chosen
  'exit'   the current thread has terminated
A decision is recorded only when at least two threads could be chosen.  A *pre-emption* is a
decision at a 'line' / 'prim' / 'yield' point that is not the default choice (default:
'line'/'prim' -> keep running the current thread; 'yield' -> the lowest-numbered other
runnable thread).  Blocking calls with a timeout are woken with "timed out" only when no
thread at all is runnable (virtual time advances only when everybody is stuck).

Events.  `s.event(name, *data)` appends `(tid, name, data)` to the trace; the shims record
  new(k) start(k) alive(k, b) join(k) exit() exc(type name)         threads
  set(e) clear(e) isset(e, b) wait(e, b)                            events (e = creation index)
  acq(l) rel(l) / put(q) get(q) / timeout(what)                     locks, queues
Recording and deciding stop after `s.quiesce()` (used for clean-up after the case proper).

Result of `s.run`:  `.events`, `.decisions` (list of Decision(kind, cur, options, chosen,
default, nevents)), `.choices` (the chosen tids = the schedule), `.deadlock` (tids blocked
forever), `.exceptions` ({tid: exception}), `.truncated` (step budget exhausted),
`.diverged` (a FixedSchedule asked for a thread that could not run).

Policies (any object with `choose(sched, kind, cur, options, default) -> tid`)
  Default()                       always the default choice (non-pre-emptive run)
  FixedSchedule(choices)          replay `choices`, then default
  RandomWalk(rng, p)              with probability p a uniformly random option, else default
Enumeration
  explore(run_fn, bound, limit=None, branch=None)
      run_fn(policy) -> Result.  Yields the Result of every schedule with at most `bound`
      pre-emptions (depth-first by re-execution; each schedule exactly once).  `branch(d)`
      may veto branching at a decision.
  preemptions(result) -> number of pre-emptions of a finished run
A policy that steers a run along a wanted event order (used to replay counterexample paths of
the Lean model on the real code) is `props/C13.py: Guided`.
`python3 harness/sched.py` runs a self-test (lock-order deadlock found by `explore`, queue, event).
"""
from __future__ import annotations

import _thread
import sys
import threading as _real_threading
import types
from collections import deque, namedtuple

Decision = namedtuple("Decision", "kind cur options chosen default nevents")


class SchedAbort(BaseException):
    """raised inside managed threads to unwind them when a run is aborted"""


class _T:
    """scheduler-side record of a managed thread"""
    __slots__ = ("tid", "go", "started", "finished", "blocked", "timeout_ok", "timed_out", "real", "obj")

    def __init__(self, tid):
        self.tid = tid
        self.go = _thread.allocate_lock()
        self.go.acquire()
        self.started = False
        self.finished = False
        self.blocked = None       # None or a zero-argument predicate "may continue now"
        self.timeout_ok = False   # the blocking call has a timeout
        self.timed_out = False
        self.real = None
        self.obj = None


class Default:
    def choose(self, sched, kind, cur, options, default):
        return default


class FixedSchedule:
    def __init__(self, choices, then=None):
        self.choices = list(choices)
        self.i = 0
        self.then = then or Default()

    def choose(self, sched, kind, cur, options, default):
        if self.i < len(self.choices):
            c = self.choices[self.i]
            self.i += 1
            if c in options:
                return c
            sched.result.diverged = True
            self.i = len(self.choices)
        return self.then.choose(sched, kind, cur, options, default)


class RandomWalk:
    def __init__(self, rng, p=0.2):
        self.rng = rng
        self.p = p

    def choose(self, sched, kind, cur, options, default):
        if self.rng.random() < self.p:
            return self.rng.choice(list(options))
        return default


class Result:
    def __init__(self):
        self.events = []
        self.decisions = []
        self.deadlock = []
        self.exceptions = {}
        self.truncated = False
        self.diverged = False
        self.steps = 0

    @property
    def choices(self):
        return [d.chosen for d in self.decisions]


def preemptions(result):
    return sum(1 for d in result.decisions if d.kind in ("line", "prim", "yield") and d.chosen != d.default)


class Scheduler:
    def __init__(self, policy=None, trace_files=(), prim_points=True, max_steps=20000):
        self.policy = policy or Default()
        self.trace_files = {self._norm(f) for f in trace_files}
        self.prim_points = prim_points
        self.max_steps = max_steps
        self.result = Result()
        self.threads = []
        self.by_ident = {}
        self.cur = None
        self.aborting = False
        self.quiet = False
        self._nobj = 0
        self.threading = self._make_threading()
        self.queue = self._make_queue()

    @staticmethod
    def _norm(f):
        return f[:-1] if f.endswith(".pyc") else f

    # -- public ---------------------------------------------------------------------------
    def event(self, name, *data):
        if not self.quiet and not self.aborting:
            self.result.events.append((self.me().tid, name, data))

    def point(self, kind="yield", info=None):
        """a switch point of the calling (current) thread"""
        self._switch(kind, info)

    def quiesce(self):
        """stop recording events and decisions; from now on run non-pre-emptively"""
        self.quiet = True

    def me(self):
        return self.by_ident[_thread.get_ident()]

    def run(self, main_fn):
        t0 = _T(0)
        self.threads.append(t0)
        done = _thread.allocate_lock()
        done.acquire()
        self._done = done
        t0.started = True
        t0.real = _real_threading.Thread(target=self._body, args=(t0, main_fn, (), {}), daemon=True)
        self.cur = t0
        t0.go.release()
        t0.real.start()
        done.acquire()
        for t in self.threads:
            if t.real is not None:
                t.real.join(5)
        return self.result

    # -- thread body ----------------------------------------------------------------------
    def _body(self, t, fn, args, kwargs):
        self.by_ident[_thread.get_ident()] = t
        t.go.acquire()
        try:
            if self.aborting:
                raise SchedAbort()
            if self.trace_files:
                sys.settrace(self._tracer)
            try:
                fn(*args, **kwargs)
            finally:
                sys.settrace(None)
            if t.tid != 0:
                self._switch("prim", "exit")
        except SchedAbort:
            pass
        except BaseException as e:  # uncaught exception in a managed thread
            if not self.aborting:
                self.result.exceptions[t.tid] = e
                if not self.quiet:
                    self.result.events.append((t.tid, "exc", (type(e).__name__,)))
        t.finished = True
        if not self.aborting:
            if t.tid != 0 and not self.quiet:
                self.result.events.append((t.tid, "exit", ()))
            try:
                self._switch("exit", None)
            except SchedAbort:
                pass

    def _tracer(self, frame, ev, arg):
        if ev == "call" and frame.f_code.co_filename in self.trace_files:
            return self._line_tracer
        return None

    def _line_tracer(self, frame, ev, arg):
        if ev == "line":
            self._switch("line", frame.f_lineno)
        return self._line_tracer

    # -- the core -------------------------------------------------------------------------
    def _runnable(self, t):
        if not t.started or t.finished:
            return False
        if t.blocked is None:
            return True
        return bool(t.blocked())

    def _abort(self):
        self.aborting = True
        for t in self.threads:
            try:
                t.go.release()
            except RuntimeError:
                pass
        try:
            self._done.release()
        except RuntimeError:
            pass

    def _switch(self, kind, info):
        if self.aborting:
            raise SchedAbort()
        me = self.me()
        res = self.result
        res.steps += 1
        if res.steps > self.max_steps:
            res.truncated = True
            self._abort()
            raise SchedAbort()
        options = [t.tid for t in self.threads if self._runnable(t)]
        if not options:
            # nobody can run: wake a timed-out waiter (virtual time), finish, or deadlock
            waiters = [t for t in self.threads if t.started and not t.finished and t.blocked is not None
                       and t.timeout_ok]
            if waiters:
                w = waiters[0]
                w.timed_out = True
                w.blocked = None
                options = [w.tid]
            else:
                stuck = [t.tid for t in self.threads if t.started and not t.finished]
                if stuck:
                    res.deadlock = stuck
                    if not self.quiet:
                        res.events.append((0, "deadlock", tuple(stuck)))
                self._abort()
                if me.finished:
                    return
                raise SchedAbort()
        can_stay = me.tid in options and kind in ("line", "prim", "yield")
        if kind == "yield":
            others = [o for o in options if o != me.tid]
            default = others[0] if others else me.tid
        elif can_stay:
            default = me.tid
        else:
            default = options[0]
        if len(options) == 1 or self.quiet:
            chosen = default if default in options else options[0]
        else:
            chosen = self.policy.choose(self, kind, me.tid, tuple(options), default)
            if chosen not in options:
                res.diverged = True
                chosen = default
            res.decisions.append(Decision(kind, me.tid, tuple(options), chosen, default, len(res.events)))
        if chosen == me.tid:
            return
        nxt = self.threads[chosen]
        self.cur = nxt
        nxt.go.release()
        if me.finished:
            return
        me.go.acquire()
        if self.aborting:
            raise SchedAbort()

    def _prim(self, what=None):
        if self.prim_points:
            self._switch("prim", what)
        elif self.aborting:
            raise SchedAbort()

    def _block(self, pred, timeout_ok=False):
        """block the current thread until pred() holds; returns False if woken by timeout"""
        me = self.me()
        if pred():
            return True
        me.blocked = pred
        me.timeout_ok = timeout_ok
        me.timed_out = False
        self._switch("block", None)
        me.blocked = None
        me.timeout_ok = False
        if me.timed_out:
            me.timed_out = False
            return False
        return True

    def _new_id(self):
        self._nobj += 1
        return self._nobj

    # -- shims ----------------------------------------------------------------------------
    def _make_threading(self):
        sched = self

        class Thread:
            def __init__(self, group=None, target=None, name=None, args=(), kwargs=None, *, daemon=None):
                sched._prim("new")
                self._target = target
                self._args = tuple(args)
                self._kwargs = dict(kwargs or {})
                self.name = name or f"Thread-{len(sched.threads)}"
                self.daemon = bool(daemon)
                self._t = _T(len(sched.threads))
                self._t.obj = self
                sched.threads.append(self._t)
                sched.event("new", self._t.tid)

            @property
            def ident(self):
                return self._t.real.ident if self._t.real else None

            def run(self):
                if self._target is not None:
                    self._target(*self._args, **self._kwargs)

            def start(self):
                sched._prim("start")
                t = self._t
                if t.started:
                    raise RuntimeError("threads can only be started once")
                t.started = True
                t.real = _real_threading.Thread(target=sched._body, args=(t, self.run, (), {}), daemon=True)
                t.real.start()
                sched.event("start", t.tid)

            def is_alive(self):
                sched._prim("is_alive")
                t = self._t
                b = t.started and not t.finished
                sched.event("alive", t.tid, int(b))
                return b

            def join(self, timeout=None):
                sched._prim("join")
                t = self._t
                if not t.started:
                    raise RuntimeError("cannot join thread before it is started")
                if t is sched.me():
                    raise RuntimeError("cannot join current thread")
                ok = sched._block(lambda: t.finished, timeout_ok=timeout is not None)
                if ok:
                    sched.event("join", t.tid)
                else:
                    sched.event("timeout", "join", t.tid)

        class Event:
            def __init__(self):
                self._flag = False
                self._id = sched._new_id()

            def is_set(self):
                sched._prim("is_set")
                sched.event("isset", self._id, int(self._flag))
                return self._flag

            isSet = is_set

            def set(self):
                sched._prim("set")
                self._flag = True
                sched.event("set", self._id)

            def clear(self):
                sched._prim("clear")
                self._flag = False
                sched.event("clear", self._id)

            def wait(self, timeout=None):
                sched._prim("wait")
                ok = sched._block(lambda: self._flag, timeout_ok=timeout is not None)
                sched.event("wait", self._id, int(ok))
                return ok

        class Lock:
            _reentrant = False

            def __init__(self):
                self._owner = None
                self._count = 0
                self._id = sched._new_id()

            def _free_for(self, me):
                return self._owner is None or (self._reentrant and self._owner is me)

            def acquire(self, blocking=True, timeout=-1):
                sched._prim("acquire")
                me = sched.me()
                if not self._free_for(me):
                    if not blocking:
                        return False
                    if not sched._block(lambda: self._free_for(me), timeout_ok=timeout is not None and timeout >= 0):
                        sched.event("timeout", "acquire", self._id)
                        return False
                self._owner = me
                self._count += 1
                sched.event("acq", self._id)
                return True

            def release(self):
                sched._prim("release")
                if self._owner is None or (self._reentrant and self._owner is not sched.me()):
                    raise RuntimeError("release unlocked lock")
                self._count -= 1
                if self._count == 0:
                    self._owner = None
                sched.event("rel", self._id)

            def locked(self):
                return self._owner is not None

            def __enter__(self):
                self.acquire()
                return self

            def __exit__(self, *a):
                self.release()

        class RLock(Lock):
            _reentrant = True

        def current_thread():
            t = sched.me()
            return t.obj if t.obj is not None else _real_threading.current_thread()

        return types.SimpleNamespace(Thread=Thread, Event=Event, Lock=Lock, RLock=RLock,
                                     current_thread=current_thread, get_ident=_thread.get_ident,
                                     main_thread=_real_threading.main_thread, TIMEOUT_MAX=_real_threading.TIMEOUT_MAX)

    def _make_queue(self):
        sched = self

        class Empty(Exception):
            pass

        class Full(Exception):
            pass

        class Queue:
            def __init__(self, maxsize=0):
                self.maxsize = maxsize
                self._q = deque()
                self._id = sched._new_id()

            def qsize(self):
                return len(self._q)

            def empty(self):
                return not self._q

            def full(self):
                return 0 < self.maxsize <= len(self._q)

            def put(self, item, block=True, timeout=None):
                sched._prim("put")
                if self.full():
                    if not block or not sched._block(lambda: not self.full(), timeout_ok=timeout is not None):
                        sched.event("timeout", "put", self._id)
                        raise Full
                self._q.append(item)
                sched.event("put", self._id)

            def get(self, block=True, timeout=None):
                sched._prim("get")
                if not self._q:
                    if not block or not sched._block(lambda: bool(self._q), timeout_ok=timeout is not None):
                        sched.event("timeout", "get", self._id)
                        raise Empty
                item = self._q.popleft()
                sched.event("get", self._id)
                return item

            def put_nowait(self, item):
                return self.put(item, block=False)

            def get_nowait(self):
                return self.get(block=False)

            def task_done(self):
                pass

        return types.SimpleNamespace(Queue=Queue, Empty=Empty, Full=Full)


def explore(run_fn, bound, limit=None, branch=None):
    """yield the Result of every schedule with <= bound pre-emptions (each exactly once)"""
    stack = [()]
    n = 0
    while stack:
        prefix = stack.pop()
        res = run_fn(FixedSchedule(prefix))
        n += 1
        yield res
        if limit is not None and n >= limit:
            return
        if res.diverged:
            continue
        ds = res.decisions
        cost = 0
        costs = []
        for d in ds:
            costs.append(cost)
            if d.kind in ("line", "prim", "yield") and d.chosen != d.default:
                cost += 1
        children = []
        for i in range(len(prefix), len(ds)):
            d = ds[i]
            if branch is not None and not branch(d):
                continue
            for alt in d.options:
                if alt == d.chosen:
                    continue
                c = costs[i] + (1 if (d.kind in ("line", "prim", "yield") and alt != d.default) else 0)
                if c <= bound:
                    children.append(tuple(x.chosen for x in ds[:i]) + (alt,))
        stack.extend(reversed(children))


def _selftest():
    """python3 harness/sched.py — exercises locks (incl. a lock-order deadlock), queues, events"""
    def run_fn(policy):
        s = Scheduler(policy)
        th = s.threading

        def main():
            a, b = th.Lock(), th.Lock()
            q = s.queue.Queue()
            ev = th.Event()

            def w1():
                with a:
                    with b:
                        q.put(1)
                ev.set()

            def w2():
                with b:
                    with a:
                        q.put(2)
                ev.wait()

            t1, t2 = th.Thread(target=w1), th.Thread(target=w2)
            t1.start()
            t2.start()
            t1.join()
            t2.join()
            s.event("got", sorted([q.get(), q.get()]))
        return s.run(main)

    n = dead = 0
    for res in explore(run_fn, 2):
        n += 1
        if res.deadlock:
            dead += 1
        else:
            assert res.events[-1][1:] == ("got", ([1, 2],)), res.events[-3:]
        assert not res.exceptions and not res.truncated
    assert dead > 0 and dead < n, (n, dead)
    r1 = run_fn(Default())
    r2 = run_fn(FixedSchedule(r1.choices))
    assert r1.events == r2.events
    print(f"sched self-test ok: {n} schedules with <= 2 pre-emptions, {dead} of them deadlock (lock order a/b vs b/a)")


if __name__ == "__main__":
    _selftest()
