"""vsim — deterministic virtual-time simulation of the unmodified nxslib code.

Real Python threads, but exactly one runs at a time (a baton is handed over at blocking
primitives), time is a virtual clock that only advances when nobody can run, and every choice
of "who runs next" goes through a chooser function (round-robin by default, or seeded random, or
a scripted schedule).  No source hooks: `install()` rebinds module globals of nxslib
(`nxslib.thread.threading`, `nxslib.comm.queue/Lock`, `nxslib.nxscope.queue/Lock`,
`nxslib.dev.Lock`, `nxslib.intf.dummy.queue/Lock/Event/time`) to the shims below, so the real
`ThreadCommon`, `CommHandler`, `NxscopeHandler`, `DummyDev` run unchanged, a connect costs
milliseconds instead of seconds, and "elapsed time" is `sim.now`.

API
  sim = Sim(chooser=None, seed=None, spin_limit=20000)
  with installed(sim): result = sim.run(fn)       # fn runs as task "main" in the calling thread
  sim.now, sim.errors (exceptions that ended library threads), sim.live_tasks()
  sim.block(pred, timeout, what)   -> True if pred() became true, False on timeout
  sim.yield_(what)                 -> voluntary switch point (used at lock/queue operations when
                                      `sim.preempt` is on: schedule exploration for C12)
Switch points: Queue.get/put, Lock.acquire/release, Event.wait/set/clear, Thread.start/join,
time.sleep, and link reads of the scripted links (harness/refdev.py).
Assumed (trusted base): FIFO order and timeout semantics of queue.Queue, mutual exclusion of Lock,
Event and Thread.start/join/is_alive as documented.
"""
from __future__ import annotations

import contextlib
import random
import queue as _queue
import threading as _th
import time as _time
import types as _types
import traceback


class Deadlock(Exception):
    pass


class Spin(Exception):
    """a task performed too many primitive operations without the clock advancing"""


class TimeLimit(Exception):
    """the simulation ran past its virtual time budget (something never terminates)"""


class Killed(BaseException):
    pass


class Task:
    def __init__(self, sim, name, fn=None):
        self.sim = sim
        self.name = name
        self.fn = fn
        self.state = "ready"       # ready | running | blocked | done
        self.pred = None
        self.deadline = None
        self.what = ""
        self.sem = _th.Semaphore(0)
        self.thread = None
        self.exc = None
        self.started_at = sim.now

    def __repr__(self):
        return f"<{self.name}:{self.state}:{self.what}>"


class Sim:
    def __init__(self, chooser=None, seed=None, spin_limit=5000000, preempt=False, time_limit=20000.0):
        self.time_limit = time_limit
        self.now = 0.0
        self.tasks: list[Task] = []
        self.cur: Task | None = None
        self.rng = random.Random(seed) if seed is not None else None
        self.chooser = chooser
        self.errors = []
        self.ops_since_tick = 0
        self.spin_limit = spin_limit
        self.killed = False
        self.preempt = preempt
        self.trace = []            # (task name, what) at every switch
        self.choices = []          # index chosen among candidates at every decision with > 1 candidate
        self.script = None         # optional list of indices to replay
        self.switches = 0

    # ---- scheduling core ------------------------------------------------------------------------
    def _candidates(self):
        out = []
        for t in self.tasks:
            if t.state == "ready":
                out.append(t)
            elif t.state == "blocked":
                try:
                    ok = t.pred()
                except Exception:
                    ok = True
                if ok or (t.deadline is not None and t.deadline <= self.now):
                    out.append(t)
        return out

    def _pick(self, cands):
        if len(cands) == 1:
            return cands[0]
        if self.script is not None and self.script:
            i = self.script.pop(0) % len(cands)
        elif self.chooser is not None:
            i = self.chooser(self, cands)
        elif self.rng is not None:
            i = self.rng.randrange(len(cands))
        else:
            # round robin: first candidate after the current task
            order = self.tasks
            k = order.index(self.cur) if self.cur in order else -1
            i = 0
            for off in range(1, len(order) + 1):
                t = order[(k + off) % len(order)]
                if t in cands:
                    i = cands.index(t)
                    break
        self.choices.append(i)
        return cands[i]

    def _switch(self, me_done=False):
        """hand the baton to the next task; returns when the calling task holds it again"""
        me = self.cur
        while True:
            cands = self._candidates()
            if cands:
                break
            timed = [t for t in self.tasks if t.state == "blocked" and t.deadline is not None]
            if not timed:
                raise Deadlock("no runnable task: " + repr(self.tasks))
            self.now = max(self.now, min(t.deadline for t in timed))
            self.ops_since_tick = 0
            if self.now > self.time_limit and not self.killed:
                self.time_limit = float("inf")
                raise TimeLimit(f"virtual time limit exceeded at t={self.now:.2f}: " + repr(self.tasks))
        nxt = self._pick(cands)
        self.switches += 1
        if len(self.trace) < 100000:
            self.trace.append((nxt.name, nxt.what))
        nxt.state = "running"
        self.cur = nxt
        if nxt is me:
            return
        nxt.sem.release()
        if not me_done:
            me.sem.acquire()
            if self.killed:
                raise Killed()

    def _op(self):
        self.ops_since_tick += 1
        if self.ops_since_tick > self.spin_limit:
            self.ops_since_tick = 0
            raise Spin(f"task {self.cur.name} spins: {self.spin_limit} primitive operations without the clock advancing")

    def block(self, pred, timeout, what=""):
        """wait until pred() or the virtual timeout (None = forever); True iff pred() holds"""
        self._op()
        me = self.cur
        if self.killed:
            raise Killed()
        if pred() and not self.preempt:
            return True
        me.pred = pred
        me.deadline = None if timeout is None else self.now + max(0.0, timeout)
        me.what = what
        me.state = "blocked"
        self._switch()
        me.what = ""
        return bool(pred())

    def yield_(self, what=""):
        self._op()
        if not self.preempt:
            return
        me = self.cur
        me.state = "ready"
        me.what = what
        self._switch()
        me.what = ""

    def spawn(self, fn, name):
        t = Task(self, name, fn)

        def body():
            # the watchdog's timer signals must reach the MAIN thread (only there does Python run the handler, and only a
            # signal delivered to that thread interrupts its blocking acquire): a CPU-time timer would otherwise be
            # delivered to whichever thread is burning the CPU
            try:
                import signal as _sig
                _sig.pthread_sigmask(_sig.SIG_BLOCK, {_sig.SIGPROF, _sig.SIGALRM})
            except (AttributeError, ValueError, OSError):
                pass
            t.sem.acquire()
            if self.killed:
                t.state = "done"
                return
            try:
                fn()
            except Killed:
                pass
            except BaseException as e:  # noqa: BLE001 - library thread died
                t.exc = e
                self.errors.append((name, e, traceback.format_exc()))
            t.state = "done"
            if not self.killed:
                try:
                    self._switch(me_done=True)
                except Deadlock as e:
                    self.errors.append((name, e, "deadlock at task exit"))
                    self._wake_main()
        t.thread = _th.Thread(target=body, name="vsim-" + name, daemon=True)
        self.tasks.append(t)
        t.thread.start()
        return t

    def _wake_main(self):
        m = self.tasks[0]
        self.killed = True
        m.sem.release()

    def run(self, fn):
        main = Task(self, "main")
        main.state = "running"
        self.tasks.insert(0, main)
        self.cur = main
        try:
            return fn()
        finally:
            main.state = "done"
            self.shutdown()

    def live_tasks(self):
        return [t for t in self.tasks[1:] if t.state != "done"]

    def shutdown(self):
        self.killed = True
        for t in self.tasks[1:]:
            if t.state != "done":
                t.sem.release()
        for t in self.tasks[1:]:
            if t.thread is not None:
                t.thread.join(timeout=0.5)
                if t.thread.is_alive():
                    _async_raise(t.thread, Killed)


# ---- shims ------------------------------------------------------------------------------------------

_SIM: Sim | None = None


class _DeadSim:
    """stands in after the simulation ended, so late destructors (`__del__` -> disconnect) finish quietly"""
    now = 0.0
    cur = None
    preempt = False

    def block(self, pred, timeout, what=""):
        return bool(pred())

    def yield_(self, what=""):
        pass

    def _op(self):
        pass

    def spawn(self, fn, name):
        raise RuntimeError("simulation is over")


def sim():
    return _SIM if _SIM is not None else _DeadSim()


# the library may catch these by module attribute (`queue.Empty`) or by a name imported from `queue`: use the real ones
Empty = _queue.Empty
Full = _queue.Full


class VQueue:
    def __init__(self, maxsize=0):
        self.items = []
        self.maxsize = maxsize or 0

    def full(self):
        return self.maxsize > 0 and len(self.items) >= self.maxsize

    def put(self, item, block=True, timeout=None):
        s = sim()
        if self.maxsize > 0:
            if not block:
                s._op()
                if self.full():
                    raise Full()
            elif not s.block(lambda: not self.full(), timeout, "put"):
                raise Full()
        else:
            s.yield_("put")
        self.items.append(item)

    def put_nowait(self, item):
        self.put(item)

    def get(self, block=True, timeout=None):
        s = sim()
        if not block:
            s._op()
            if not self.items:
                raise Empty()
            return self.items.pop(0)
        ok = s.block(lambda: bool(self.items), timeout, "get")
        if not ok:
            raise Empty()
        return self.items.pop(0)

    def get_nowait(self):
        return self.get(block=False)

    def empty(self):
        return not self.items

    def qsize(self):
        return len(self.items)

    def __class_getitem__(cls, item):
        return cls


class VLock:
    def __init__(self):
        self.owner = None

    def acquire(self, blocking=True, timeout=-1):
        s = sim()
        if not blocking:
            if self.owner is None:
                self.owner = s.cur
                return True
            return False
        forever = timeout is None or timeout < 0
        while True:
            s.block(lambda: self.owner is None, None if forever else timeout, "lock")
            if self.owner is None:
                self.owner = s.cur
                return True
            if not forever:
                return False

    def release(self):
        self.owner = None
        sim().yield_("unlock")

    def locked(self):
        return self.owner is not None

    def __enter__(self):
        self.acquire()
        return self

    def __exit__(self, *a):
        self.release()


class VRLock:
    def __init__(self):
        self.owner = None
        self.depth = 0

    def acquire(self, blocking=True, timeout=-1):
        s = sim()
        if self.owner is s.cur:
            self.depth += 1
            return True
        if not blocking:
            if self.owner is None:
                self.owner, self.depth = s.cur, 1
                return True
            return False
        forever = timeout is None or timeout < 0
        while True:
            s.block(lambda: self.owner is None, None if forever else timeout, "lock")
            if self.owner is None:
                self.owner, self.depth = s.cur, 1
                return True
            if not forever:
                return False

    def release(self):
        if self.owner is not sim().cur:
            raise RuntimeError("cannot release un-acquired lock")
        self.depth -= 1
        if self.depth == 0:
            self.owner = None
            sim().yield_("release")

    def __enter__(self):
        self.acquire()
        return self

    def __exit__(self, *a):
        self.release()


class VEvent:
    def __init__(self):
        self.flag = False

    def set(self):
        sim().yield_("event-set")
        self.flag = True

    def clear(self):
        sim().yield_("event-clear")
        self.flag = False

    def is_set(self):
        sim()._op()
        return self.flag

    def wait(self, timeout=None):
        return sim().block(lambda: self.flag, timeout, "event-wait")


class VThread:
    def __init__(self, target=None, name=None, args=(), kwargs=None, daemon=None):
        self.target = target
        self.name = name or "thread"
        self.args = args
        self.kwargs = kwargs or {}
        self.task = None

    def start(self):
        if self.task is not None:
            raise RuntimeError("threads can only be started once")
        s = sim()
        self.task = s.spawn(lambda: self.target(*self.args, **self.kwargs), self.name)
        self.task.vthread = self
        s.yield_("thread-start")

    def join(self, timeout=None):
        if self.task is None:
            raise RuntimeError("cannot join thread before it is started")
        if self.task is sim().cur:
            raise RuntimeError("cannot join current thread")
        sim().block(lambda: self.task.state == "done", timeout, "join")

    def is_alive(self):
        sim()._op()
        return self.task is not None and self.task.state != "done"


class _NS:
    def __init__(self, **kw):
        self.__dict__.update(kw)


_MAIN_STUB = _NS(name="MainThread", ident=1)


def vcurrent_thread():
    """`threading.current_thread()` inside the simulation (code under test may ask who it is)"""
    return getattr(sim().cur, "vthread", None) or _MAIN_STUB


def _async_raise(thread, exc):
    import ctypes
    if thread is not None and thread.ident is not None:
        ctypes.pythonapi.PyThreadState_SetAsyncExc(ctypes.c_ulong(thread.ident), ctypes.py_object(exc))


def vsleep(t):
    sim().block(lambda: False, t, "sleep")


class _VTime:
    @staticmethod
    def sleep(t):
        vsleep(t)

    @staticmethod
    def time():
        return sim().now

    @staticmethod
    def monotonic():
        return sim().now


def _queue_ns():
    return _NS(Queue=VQueue, SimpleQueue=VQueue, LifoQueue=VQueue, Empty=Empty, Full=Full)


def _threading_ns():
    return _NS(Thread=VThread, Event=VEvent, Lock=VLock, RLock=VRLock, current_thread=vcurrent_thread,
               main_thread=lambda: _MAIN_STUB, get_ident=lambda: id(sim().cur))


def _virtual_for(value):
    """the virtual stand-in for a standard concurrency / time primitive bound to a module global of the code under test,
    however it was imported (`import queue`, `from queue import Queue`, `import threading`, `from threading import Lock`…);
    None = leave the binding alone (anything else, e.g. a `contextlib.nullcontext` used "as a lock", runs as it is)"""
    if value is _queue:
        return _queue_ns()
    if value is _th:
        return _threading_ns()
    if value is _time:
        return _VTime
    table = {id(_queue.Queue): VQueue, id(_queue.SimpleQueue): VQueue, id(_queue.LifoQueue): VQueue,
             id(_th.Lock): VLock, id(_th.RLock): VRLock, id(_th.Event): VEvent, id(_th.Thread): VThread,
             id(_th.current_thread): vcurrent_thread, id(_time.sleep): _VTime.sleep, id(_time.time): _VTime.time,
             id(_time.monotonic): _VTime.monotonic}
    return table.get(id(value))


# modules of the code under test whose `time` is NOT virtualised (none needs it) are not listed: every loaded nxslib module is
# scanned; `time` is rebound only where the module binds it
@contextlib.contextmanager
def installed(s: Sim):
    """rebind, for the duration of the block, every module global of the loaded `nxslib` modules that is bound to a
    standard queue / threading / time primitive"""
    import importlib
    import sys
    global _SIM
    for mod in ("nxslib.thread", "nxslib.comm", "nxslib.nxscope", "nxslib.dev", "nxslib.intf.dummy", "nxslib.intf.iintf"):
        try:
            importlib.import_module(mod)
        except Exception:  # noqa: BLE001 - a module that does not import is the check's business, not ours
            pass
    saved = []
    prev = _SIM
    _SIM = s
    try:
        for name, m in list(sys.modules.items()):
            if m is None or not (name == "nxslib" or name.startswith("nxslib.")) or name.startswith("nxslib.intf.serial"):
                continue
            for attr, val in list(vars(m).items()):
                if attr.startswith("__"):
                    continue
                v = _virtual_for(val)
                if v is not None:
                    saved.append((m, attr, val))
                    setattr(m, attr, v)
        yield s
    finally:
        for m, attr, old in saved:
            setattr(m, attr, old)
        _SIM = prev


class RealTimeLimit(Exception):
    """the scenario did not finish within its real-time budget (a task loops without ever reaching a
    switch point, or virtual time crawls): reported as non-termination"""


def run_sim(fn, seed=None, preempt=False, script=None, spin_limit=5000000, time_limit=20000.0, real_limit=60.0):
    """convenience: run fn(sim) under a fresh simulation; returns (result | exception, sim).
    A real-time watchdog (SIGALRM, main thread only) aborts scenarios that never come back: the
    runaway task threads get an asynchronous `Killed` and the main task a `RealTimeLimit`."""
    import signal
    s = Sim(seed=seed, preempt=preempt, spin_limit=spin_limit, time_limit=time_limit)
    if script is not None:
        s.script = list(script)
    use_alarm = real_limit and _th.current_thread() is _th.main_thread()
    fired = {"v": False}

    def on_alarm(signum, frame):
        fired["v"] = True
        s.killed = True
        # no lock / semaphore operation in here: the handler may have interrupted the main thread inside
        # Semaphore.release (holding the semaphore's own non-reentrant lock); the tasks are released by
        # Sim.shutdown() once the exception has unwound the main task
        for t in s.tasks[1:]:
            if t.state != "done" and t.thread is not None:
                _async_raise(t.thread, Killed)
        raise RealTimeLimit(f"no result after {real_limit} s of CPU time (or ten times that of wall-clock time) at virtual t={s.now:.2f}; tasks: {s.tasks!r}")

    old = None
    old_prof = None
    if use_alarm:
        # the budget is CPU time of this process (a scenario that loops burns it; a process that is merely starved by a
        # busy machine does not), with a wall-clock backstop ten times as long for a scenario that blocks without
        # consuming anything (e.g. on a real primitive created outside the simulation)
        old = signal.signal(signal.SIGALRM, on_alarm)
        old_prof = signal.signal(signal.SIGPROF, on_alarm)
        signal.setitimer(signal.ITIMER_PROF, real_limit)
        signal.setitimer(signal.ITIMER_REAL, max(10.0 * real_limit, 120.0))
    try:
        with installed(s):
            try:
                r = s.run(lambda: fn(s))
            except BaseException as e:  # noqa: BLE001
                r = e
    finally:
        if use_alarm:
            signal.setitimer(signal.ITIMER_PROF, 0)
            signal.setitimer(signal.ITIMER_REAL, 0)
            signal.signal(signal.SIGALRM, old)
            signal.signal(signal.SIGPROF, old_prof)
    if fired["v"] and not isinstance(r, RealTimeLimit):
        r = RealTimeLimit(f"real-time budget of {real_limit} s exceeded")
    if isinstance(r, Killed):
        # the main task was woken up because the simulation had already been declared dead by another task
        # (a deadlock noticed at a task's exit): report that verdict, never the internal `Killed`
        dl = [e for _, e, _ in s.errors if isinstance(e, Deadlock)]
        r = dl[0] if dl else Deadlock("simulation killed while the main task was blocked: " + repr(s.tasks))
    return r, s
