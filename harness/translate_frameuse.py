"""Static check for C20: the client / device code reaches the frame codec only through the codec object.

`gen_frameuse(repo)` -> translate.Out("FrameUse") -> lean/NxsModel/Gen/FrameUse.lean

Pure `ast` work on comm.py, proto/parse.py, proto/parserecv.py, nxscope.py, intf/dummy.py:
  * the use table: every `self._frame.<member>` / `self._parse.frame.<member>` (file, function, member, via)
  * frame literals outside serialframe.py:
      R1 anywhere in these files: the integer 0x55 (85), a bytes constant containing byte 0x55, a string
         constant containing the header format "BHB";
      R2 anywhere: a reference to `ESerialFrameHdr`; a reference to `SerialFrame` other than the import and
         the default value of a `frame` parameter; the codec object escaping into a local alias;
      R3 in the functions that handle raw frame bytes (`_read_hdr`, `_read_frame`, `recv_handle`, and any
         function touching a decode-side member of the codec): any integer constant other than 0 and 1
         (the built-in sizes 4 / 2 / 6 in particular) — a header/footer size must come from the codec;
         and a `.find(` / `.index(` call (the start marker must be searched by `hdr_find`);
  * the members each receive function must use (so that a use replaced by a literal is also seen as missing).
Registration (owner of harness/translate_more.py):  from translate_frameuse import gen_frameuse
"""
import ast
import os

from translate import Out, Missing  # noqa: F401

FILES = ["comm.py", "proto/parse.py", "proto/parserecv.py", "nxscope.py", "intf/dummy.py"]
INTERFACE = ["hdr_len", "foot_len", "hdr_find", "hdr_decode", "foot_validate", "frame_decode", "frame_create"]
DECODE_SIDE = {"hdr_len", "foot_len", "hdr_find", "hdr_decode", "foot_validate", "frame_decode"}
CODEC_EXPR = {"self._frame": "self._frame", "self._parse.frame": "self._parse.frame",
              "self._parse._frame": "self._parse._frame"}
RAW_FUNCS = {"_read_hdr", "_read_frame", "recv_handle"}
REQUIRED = {("comm.py", "_read_hdr"): ["hdr_len", "hdr_find", "hdr_decode"],
            ("comm.py", "_read_frame"): ["frame_decode"],
            ("proto/parserecv.py", "recv_handle"): ["hdr_find", "hdr_len", "foot_len", "hdr_decode", "foot_validate"]}
SOF = 0x55


def lstr(s):
    return '"' + s.replace("\\", "\\\\").replace('"', '\\"') + '"'


def functions(tree):
    """(qualified name, node) of every function, methods as Class.name"""
    out = []

    def walk(node, prefix):
        for n in ast.iter_child_nodes(node):
            if isinstance(n, (ast.FunctionDef, ast.AsyncFunctionDef)):
                out.append((n.name, n))
                walk(n, prefix + n.name + ".")
            elif isinstance(n, ast.ClassDef):
                walk(n, prefix + n.name + ".")
            else:
                walk(n, prefix)
    walk(tree, "")
    return out


def own_nodes(func):
    """nodes of a function body, not descending into nested function definitions"""
    todo = list(ast.iter_child_nodes(func))
    while todo:
        n = todo.pop()
        yield n
        if not isinstance(n, (ast.FunctionDef, ast.AsyncFunctionDef, ast.ClassDef)):
            todo.extend(ast.iter_child_nodes(n))


def scan_file(repo, rel):
    path = os.path.join(repo, "src", "nxslib", rel)
    tree = ast.parse(open(path, encoding="utf-8").read(), filename=path)
    uses, lits = [], []
    funcs = functions(tree)
    # parents, to tell `X.member` from a bare `X`
    parent = {}
    for n in ast.walk(tree):
        for ch in ast.iter_child_nodes(n):
            parent[ch] = n
    func_of = {}
    for name, f in funcs:
        for n in own_nodes(f):
            func_of[n] = name
    default_nodes = set()
    for _, f in funcs:
        for d in list(f.args.defaults) + [d for d in f.args.kw_defaults if d is not None]:
            for n in ast.walk(d):
                default_nodes.add(n)

    def where(n):
        return func_of.get(n, "<module>")

    # R1 / R2: module-wide
    for n in ast.walk(tree):
        if isinstance(n, ast.Constant):
            v = n.value
            if isinstance(v, bool):
                continue
            if isinstance(v, int) and v == SOF:
                lits.append((rel, where(n), n.lineno, "start byte literal 0x55"))
            elif isinstance(v, bytes) and SOF in v:
                lits.append((rel, where(n), n.lineno, "bytes literal containing 0x55"))
            elif isinstance(v, str) and "BHB" in v and not isinstance(parent.get(n), ast.Expr):
                lits.append((rel, where(n), n.lineno, "header format literal " + v))
        elif isinstance(n, ast.Name) and n.id == "ESerialFrameHdr":
            lits.append((rel, where(n), n.lineno, "reference to ESerialFrameHdr"))
        elif isinstance(n, ast.Name) and n.id == "SerialFrame" and n not in default_nodes:
            lits.append((rel, where(n), n.lineno, "direct reference to SerialFrame"))
        elif isinstance(n, ast.Attribute) and n.attr in ("ESerialFrameHdr", "SerialFrame") and n not in default_nodes:
            lits.append((rel, where(n), n.lineno, "direct reference to " + n.attr))

    # use table + R3
    for name, f in funcs:
        members = []
        for n in own_nodes(f):
            if isinstance(n, ast.Attribute):
                base = ast.unparse(n.value)
                if base in CODEC_EXPR:
                    members.append(n.attr)
                    uses.append((rel, name, n.attr, CODEC_EXPR[base], (n.lineno, n.col_offset)))
                    if n.attr not in INTERFACE:
                        lits.append((rel, name, n.lineno, "codec member outside the interface: " + n.attr))
                # the codec object itself used as a value (alias / passed on), except the accessor and the constructor
                me = ast.unparse(n)
                if me in CODEC_EXPR and not isinstance(parent.get(n), ast.Attribute):
                    p = parent.get(n)
                    is_store = isinstance(n.ctx, ast.Store)
                    is_accessor = isinstance(p, ast.Return) and name == "frame"
                    if not is_store and not is_accessor:
                        uses.append((rel, name, "<object>", me, (n.lineno, n.col_offset)))
                        lits.append((rel, name, n.lineno, "codec object escapes into a value: " + me))
        raw = name in RAW_FUNCS or any(m in DECODE_SIDE for m in members)
        if raw:
            for n in own_nodes(f):
                if isinstance(n, ast.Constant) and isinstance(n.value, int) and not isinstance(n.value, bool) \
                        and n.value not in (0, 1):
                    lits.append((rel, name, n.lineno, f"size literal {n.value} next to frame data"))
                if isinstance(n, ast.Call) and isinstance(n.func, ast.Attribute) and n.func.attr in ("find", "index", "rfind"):
                    lits.append((rel, name, n.lineno, "start marker searched with ." + n.func.attr + "( instead of hdr_find"))
    uses = [u[:4] for u in sorted(uses, key=lambda u: u[4])]
    lits.sort(key=lambda x: (x[2], x[3]))
    return uses, lits, [n for n, _ in funcs]


def gen_frameuse(repo):
    o = Out("FrameUse", imports=())
    uses, lits, missing_req = [], [], []
    try:
        per_file = {}
        for rel in FILES:
            u, l, fn = scan_file(repo, rel)
            uses += u
            lits += l
            per_file[rel] = (u, fn)
        for (rel, fn), req in REQUIRED.items():
            u, fns = per_file[rel]
            if fn not in fns:
                missing_req.append((rel, fn, "<function>"))
                continue
            have = {m for (_, f, m, _) in u if f == fn}
            for m in req:
                if m not in have:
                    missing_req.append((rel, fn, m))
    except (SyntaxError, FileNotFoundError) as e:
        o.raw(f"def noFrameLiterals : Bool := translator_site_missing_FrameUse_scan  -- {e}")
        return o
    # de-duplicate literal findings (one constant can hit two rules)
    seen = set()
    lits2 = []
    for x in lits:
        if x not in seen:
            seen.add(x)
            lits2.append(x)
    lits = lits2
    o.raw("/-- every use of the frame codec: (file, function, member, expression it is reached through) -/")
    o.raw("def uses : List (String × String × String × String) := [")
    for i, (a, b, c, d) in enumerate(uses):
        o.raw(f"  ({lstr(a)}, {lstr(b)}, {lstr(c)}, {lstr(d)})" + ("," if i < len(uses) - 1 else ""))
    o.raw("]")
    o.raw("/-- frame literals / direct uses of the built-in codec outside serialframe.py: (file, function, line, what) -/")
    o.raw("def literals : List (String × String × Nat × String) := [")
    for i, (a, b, c, d) in enumerate(lits):
        o.raw(f"  ({lstr(a)}, {lstr(b)}, {c}, {lstr(d)})" + ("," if i < len(lits) - 1 else ""))
    o.raw("]")
    o.raw("/-- codec members a receive function must use and does not: (file, function, member) -/")
    o.raw("def missingUses : List (String × String × String) := [")
    for i, (a, b, c) in enumerate(missing_req):
        o.raw(f"  ({lstr(a)}, {lstr(b)}, {lstr(c)})" + ("," if i < len(missing_req) - 1 else ""))
    o.raw("]")
    o.raw(f"def nUses : Nat := {len(uses)}")
    o.raw(f"def nLiterals : Nat := {len(lits)}")
    o.raw(f"def noFrameLiterals : Bool := {'true' if not lits else 'false'}"
          "  -- no start byte / size / format literal, no direct SerialFrame use")
    o.raw(f"def receiveUsesComplete : Bool := {'true' if not missing_req else 'false'}"
          "  -- _read_hdr, _read_frame, recv_handle take every size / search / decode from the codec")
    o.facts = {"uses": uses, "literals": lits, "missing": missing_req}
    return o


if __name__ == "__main__":
    import sys
    r = gen_frameuse(sys.argv[1] if len(sys.argv) > 1 else os.environ.get("NXS_REPO", "/repo"))
    print(r.text())
