"""Static check for C20: the client / device code reaches the frame codec only through the codec object.

`gen_frameuse(repo)` -> translate.Out("FrameUse") -> lean/NxsModel/Gen/FrameUse.lean

Pure `ast` work on comm.py, proto/parse.py, proto/parserecv.py, nxscope.py, intf/dummy.py, proto/iframe.py,
proto/iparse.py, proto/iparserecv.py:
  * the use table: every `self._frame.<member>` / `self._parse.frame.<member>` (file, function, member, via)
  * frame literals outside serialframe.py:
      R1 anywhere in these files: the integer 0x55 (85), a bytes constant containing byte 0x55, a string
         constant containing the header format "BHB";
      R2 anywhere: a reference to `ESerialFrameHdr`; a reference to `SerialFrame` other than the import and
         the default value of a `frame` parameter; the codec object escaping into a local alias;
      R3 in the functions that handle raw frame bytes (`_read_hdr`, `_read_frame`, `recv_handle`, and any
         function touching a decode-side member of the codec): any integer constant other than 0 and 1
         (the built-in sizes 4 / 2 / 6 in particular) — a header/footer size must come from the codec;
         and a `.find(` / `.index(` call (the start marker must be searched by `hdr_find`);
      R3 applies to the CLOSURE of the raw functions under `self.<helper>(...)` calls inside the same file
         (a literal moved into a helper) and to `_recv_thread`;
      R4 in the raw functions: a name bound at module or class level to a literal (`FRAME_LEN_MAX = 0xFFFF`,
         `_HDR = 4`) — a size / bound next to frame data must come from the codec, whatever it is called;
      R5 in the raw functions: results of `hdr_decode` / `frame_decode` / `_read_hdr` are used only through the
         fields of `DParseHdr` / `DParseFrame` (`fid flen data err`), and `err` only in a comparison with
         `EParseError.NOERR` by `is` / `is not` (success is "no error", not "none of the errors I know");
      R6 anywhere in these files: a frame id compared by IDENTITY (`is` / `is not` with an `EParseId.X` member, a
         `.fid` field or a `fid` / `_id` variable on either side) — the id a codec reports only has to EQUAL the
         `EParseId` number (a codec may hand out the plain int read off the wire, or a member of its own IntEnum);
  * the members each receive function must use (so that a use replaced by a literal is also seen as missing);
  * the builder table: every request / response builder reaches the codec exactly once, through `frame_create`,
    and RETURNS that call (`return self._frame.frame_create(id, payload)`, or `return None` where the builder
    may have nothing to send) — no frame is kept, cached or post-processed between the codec and the caller;
  * the wrapper table: `Parser.frame_enable` / `Parser.frame_div` (tuple / ALL / BULK branches) never touch the codec
    themselves and every `return` is the unedited result of one of the `_frame_set_*` builders of the builder table
    (`return self._frame_set_single(EParseId.X, data, chan)`), i.e. every branch ends in the codec's `frame_create`;
  * the shape of the interface module proto/iframe.py: `ICommFrame` declares only abstract members (no state, no
    `__new__` / `__init__`, nothing a codec class would inherit), `DParseHdr` / `DParseFrame` are plain records
    of their fields, `EParseError` has exactly NOERR / ERR / HDR / FOOT.
Registration (owner of harness/translate_more.py):  from translate_frameuse import gen_frameuse
"""
import ast
import os

from translate import Out, Missing  # noqa: F401

FILES = ["comm.py", "proto/parse.py", "proto/parserecv.py", "nxscope.py", "intf/dummy.py", "proto/iframe.py",
         "proto/iparse.py", "proto/iparserecv.py"]
INTERFACE = ["hdr_len", "foot_len", "hdr_find", "hdr_decode", "foot_validate", "frame_decode", "frame_create"]
DECODE_SIDE = {"hdr_len", "foot_len", "hdr_find", "hdr_decode", "foot_validate", "frame_decode"}
CODEC_EXPR = {"self._frame": "self._frame", "self._parse.frame": "self._parse.frame",
              "self._parse._frame": "self._parse._frame"}
RAW_FUNCS = {"_read_hdr", "_read_frame", "recv_handle", "_recv_thread"}
RESULT_FIELDS = {"fid", "flen", "data", "err"}
BUILDERS = {"proto/parse.py": ["_frame_set_single", "_frame_set_bulk", "_frame_set_all", "frame_start", "frame_cmninfo",
                               "frame_chinfo"],
            "proto/parserecv.py": ["frame_cmninfo_encode", "frame_chinfo_encode", "frame_stream_encode",
                                   "frame_ack_encode"]}
# builders that reach the codec through another builder of BUILDERS: (function) -> the builders it may return
WRAPPERS = {"proto/parse.py": {"frame_enable": ["_frame_set_single", "_frame_set_all", "_frame_set_bulk"],
                               "frame_div": ["_frame_set_single", "_frame_set_all", "_frame_set_bulk"]}}
ID_NAMES = {"fid", "_id"}
REQUIRED = {("comm.py", "_read_hdr"): ["hdr_len", "hdr_find", "hdr_decode"],
            ("comm.py", "_read_frame"): ["frame_decode"],
            ("proto/parserecv.py", "recv_handle"): ["hdr_find", "hdr_len", "foot_len", "hdr_decode", "foot_validate"]}
SOF = 0x55


def lstr(s):
    return '"' + s.replace("\\", "\\\\").replace('"', '\\"') + '"'


def functions(tree):
    """(qualified name, node) of every function, methods as Class.name"""
    out = []

    def walk(node, prefix):
        for n in ast.iter_child_nodes(node):
            if isinstance(n, (ast.FunctionDef, ast.AsyncFunctionDef)):
                out.append((n.name, n))
                walk(n, prefix + n.name + ".")
            elif isinstance(n, ast.ClassDef):
                walk(n, prefix + n.name + ".")
            else:
                walk(n, prefix)
    walk(tree, "")
    return out


def own_nodes(func):
    """nodes of a function body, not descending into nested function definitions"""
    todo = list(ast.iter_child_nodes(func))
    while todo:
        n = todo.pop()
        yield n
        if not isinstance(n, (ast.FunctionDef, ast.AsyncFunctionDef, ast.ClassDef)):
            todo.extend(ast.iter_child_nodes(n))


def scan_file(repo, rel):
    path = os.path.join(repo, "src", "nxslib", rel)
    tree = ast.parse(open(path, encoding="utf-8").read(), filename=path)
    uses, lits = [], []
    funcs = functions(tree)
    # parents, to tell `X.member` from a bare `X`
    parent = {}
    for n in ast.walk(tree):
        for ch in ast.iter_child_nodes(n):
            parent[ch] = n
    func_of = {}
    for name, f in funcs:
        for n in own_nodes(f):
            func_of[n] = name
    default_nodes = set()
    for _, f in funcs:
        for d in list(f.args.defaults) + [d for d in f.args.kw_defaults if d is not None]:
            for n in ast.walk(d):
                default_nodes.add(n)

    def where(n):
        return func_of.get(n, "<module>")

    # R1 / R2: module-wide
    for n in ast.walk(tree):
        if isinstance(n, ast.Constant):
            v = n.value
            if isinstance(v, bool):
                continue
            if isinstance(v, int) and v == SOF:
                lits.append((rel, where(n), n.lineno, "start byte literal 0x55"))
            elif isinstance(v, bytes) and SOF in v:
                lits.append((rel, where(n), n.lineno, "bytes literal containing 0x55"))
            elif isinstance(v, str) and "BHB" in v and not isinstance(parent.get(n), ast.Expr):
                lits.append((rel, where(n), n.lineno, "header format literal " + v))
        elif isinstance(n, ast.Name) and n.id == "ESerialFrameHdr":
            lits.append((rel, where(n), n.lineno, "reference to ESerialFrameHdr"))
        elif isinstance(n, ast.Name) and n.id == "SerialFrame" and n not in default_nodes:
            lits.append((rel, where(n), n.lineno, "direct reference to SerialFrame"))
        elif isinstance(n, ast.Attribute) and n.attr in ("ESerialFrameHdr", "SerialFrame") and n not in default_nodes:
            lits.append((rel, where(n), n.lineno, "direct reference to " + n.attr))
        # R6: frame ids are compared by value
        if isinstance(n, ast.Compare) and any(isinstance(op, (ast.Is, ast.IsNot)) for op in n.ops):
            operands = [n.left] + list(n.comparators)
            for k, op in enumerate(n.ops):
                if not isinstance(op, (ast.Is, ast.IsNot)):
                    continue
                for side in (operands[k], operands[k + 1]):
                    txt = ast.unparse(side)
                    if txt.startswith("EParseId.") or (isinstance(side, ast.Attribute) and side.attr == "fid") \
                            or (isinstance(side, ast.Name) and side.id in ID_NAMES):
                        lits.append((rel, where(n), n.lineno,
                                     "frame id compared by identity (`" + ast.unparse(n)[:60] + "`): a codec may report the id "
                                     "as any int equal to the EParseId number"))
                        break

    # use table + R3
    members_of = {}
    for name, f in funcs:
        members = []
        for n in own_nodes(f):
            if isinstance(n, ast.Attribute):
                base = ast.unparse(n.value)
                if base in CODEC_EXPR:
                    members.append(n.attr)
                    uses.append((rel, name, n.attr, CODEC_EXPR[base], (n.lineno, n.col_offset)))
                    if n.attr not in INTERFACE:
                        lits.append((rel, name, n.lineno, "codec member outside the interface: " + n.attr))
                # the codec object itself used as a value (alias / passed on), except the accessor and the constructor
                me = ast.unparse(n)
                if me in CODEC_EXPR and not isinstance(parent.get(n), ast.Attribute):
                    p = parent.get(n)
                    is_store = isinstance(n.ctx, ast.Store)
                    is_accessor = isinstance(p, ast.Return) and name == "frame"
                    if not is_store and not is_accessor:
                        uses.append((rel, name, "<object>", me, (n.lineno, n.col_offset)))
                        lits.append((rel, name, n.lineno, "codec object escapes into a value: " + me))
        members_of[name] = members_of.get(name, []) + members

    # raw functions: the named ones, those touching a decode-side member, and (transitively) the helpers of the
    # same file they call as `self.<helper>(...)`
    fdict = {}
    for name, f in funcs:
        fdict.setdefault(name, []).append(f)
    raw = {name for name, _ in funcs if name in RAW_FUNCS or any(m in DECODE_SIDE for m in members_of.get(name, []))}
    todo = list(raw)
    while todo:
        name = todo.pop()
        for f in fdict.get(name, []):
            for n in own_nodes(f):
                if isinstance(n, ast.Call) and isinstance(n.func, ast.Attribute) and isinstance(n.func.value, ast.Name) \
                        and n.func.value.id in ("self", "cls") and n.func.attr in fdict and n.func.attr not in raw:
                    raw.add(n.func.attr)
                    todo.append(n.func.attr)

    # names bound to a literal at module level / class level
    def literal_value(v):
        try:
            return ast.literal_eval(v)
        except Exception:
            if isinstance(v, ast.BinOp) or isinstance(v, ast.UnaryOp):
                try:
                    return eval(compile(ast.Expression(v), "<lit>", "eval"), {"__builtins__": {}})
                except Exception:
                    return None
            return None

    mod_consts, cls_consts = {}, {}
    for n in tree.body:
        tg = None
        if isinstance(n, ast.Assign) and len(n.targets) == 1 and isinstance(n.targets[0], ast.Name):
            tg, val = n.targets[0].id, n.value
        elif isinstance(n, ast.AnnAssign) and isinstance(n.target, ast.Name) and n.value is not None:
            tg, val = n.target.id, n.value
        if tg is not None:
            lv = literal_value(val)
            if isinstance(lv, (int, bytes, str)) and not isinstance(lv, bool):
                mod_consts[tg] = lv
    for cn in ast.walk(tree):
        if isinstance(cn, ast.ClassDef):
            for n in cn.body:
                tg = None
                if isinstance(n, ast.Assign) and len(n.targets) == 1 and isinstance(n.targets[0], ast.Name):
                    tg, val = n.targets[0].id, n.value
                elif isinstance(n, ast.AnnAssign) and isinstance(n.target, ast.Name) and n.value is not None:
                    tg, val = n.target.id, n.value
                if tg is not None:
                    lv = literal_value(val)
                    if isinstance(lv, (int, bytes, str)) and not isinstance(lv, bool):
                        cls_consts[tg] = lv

    for name, f in funcs:
        if name not in raw:
            continue
        # R5: names holding a decode result
        results = set()
        for n in own_nodes(f):
            if isinstance(n, ast.Assign) and isinstance(n.value, ast.Call) and isinstance(n.value.func, ast.Attribute):
                fn = n.value.func
                from_codec = ast.unparse(fn.value) in CODEC_EXPR and fn.attr in ("hdr_decode", "frame_decode")
                from_hdr = ast.unparse(fn) == "self._read_hdr"
                for t in n.targets:
                    if isinstance(t, ast.Name) and from_codec:
                        results.add(t.id)
                    elif isinstance(t, ast.Tuple) and from_hdr and t.elts and isinstance(t.elts[0], ast.Name):
                        results.add(t.elts[0].id)
        for n in own_nodes(f):
            if isinstance(n, ast.Constant) and isinstance(n.value, int) and not isinstance(n.value, bool) \
                    and n.value not in (0, 1):
                lits.append((rel, name, n.lineno, f"size literal {n.value} next to frame data"))
            if isinstance(n, ast.Call) and isinstance(n.func, ast.Attribute) and n.func.attr in ("find", "index", "rfind"):
                lits.append((rel, name, n.lineno, "start marker searched with ." + n.func.attr + "( instead of hdr_find"))
            if isinstance(n, ast.Name) and isinstance(n.ctx, ast.Load) and n.id in mod_consts:
                lits.append((rel, name, n.lineno, f"module-level constant {n.id} = {mod_consts[n.id]!r} next to frame data"))
            if isinstance(n, ast.Attribute) and isinstance(n.value, ast.Name) and n.value.id in ("self", "cls") \
                    and n.attr in cls_consts and isinstance(n.ctx, ast.Load):
                lits.append((rel, name, n.lineno, f"class-level constant {n.attr} = {cls_consts[n.attr]!r} next to frame data"))
            if isinstance(n, ast.Attribute) and isinstance(n.value, ast.Name) and n.value.id in results:
                if n.attr not in RESULT_FIELDS:
                    lits.append((rel, name, n.lineno, f"decode result used through .{n.attr} (not a field of DParseHdr / DParseFrame)"))
                elif n.attr == "err":
                    pn = parent.get(n)
                    ok = (isinstance(pn, ast.Compare) and pn.left is n and len(pn.ops) == 1
                          and isinstance(pn.ops[0], (ast.Is, ast.IsNot))
                          and ast.unparse(pn.comparators[0]) == "EParseError.NOERR")
                    if not ok and not isinstance(n.ctx, ast.Store):
                        is_passthrough = isinstance(pn, ast.keyword) and pn.arg == "err"
                        if not is_passthrough:
                            lits.append((rel, name, n.lineno, "error code of a decode result not tested as `is (not) EParseError.NOERR`"))
                    if isinstance(n.ctx, ast.Store):
                        lits.append((rel, name, n.lineno, "error code of a decode result overwritten"))

    # builder table: (function, number of frame_create uses, every return is the codec call or None)
    builders = []
    for bname in BUILDERS.get(rel, []):
        fs = fdict.get(bname, [])
        if not fs:
            builders.append((rel, bname, 0, False))
            continue
        f = fs[0]
        ncreate = sum(1 for n in own_nodes(f) if isinstance(n, ast.Attribute) and n.attr == "frame_create"
                      and ast.unparse(n.value) == "self._frame")
        rets = [n for n in own_nodes(f) if isinstance(n, ast.Return)]
        good = bool(rets)
        for r in rets:
            v = r.value
            if v is None or (isinstance(v, ast.Constant) and v.value is None):
                continue
            if not (isinstance(v, ast.Call) and ast.unparse(v.func) == "self._frame.frame_create" and len(v.args) == 2
                    and not v.keywords):
                good = False
        if not any(isinstance(r.value, ast.Call) for r in rets):
            good = False
        builders.append((rel, bname, ncreate, good))
    # wrapper table: (function, number of returns, every return is the unedited result of one of its builders and the
    # function does not touch the codec itself)
    wrappers = []
    for wname, targets in WRAPPERS.get(rel, {}).items():
        fs = fdict.get(wname, [])
        if not fs:
            wrappers.append((rel, wname, 0, False))
            continue
        f = fs[0]
        rets = [n for n in own_nodes(f) if isinstance(n, ast.Return)]
        good = bool(rets) and not members_of.get(wname)
        for r in rets:
            v = r.value
            if not (isinstance(v, ast.Call) and isinstance(v.func, ast.Attribute) and isinstance(v.func.value, ast.Name)
                    and v.func.value.id == "self" and v.func.attr in targets and not v.keywords and v.args
                    and ast.unparse(v.args[0]).startswith("EParseId.")):
                good = False
        # every target is itself a row of the builder table
        if any(t not in BUILDERS.get(rel, []) for t in targets):
            good = False
        wrappers.append((rel, wname, len(rets), good))
    uses = [u[:4] for u in sorted(uses, key=lambda u: u[4])]
    lits.sort(key=lambda x: (x[2], x[3]))
    return uses, lits, [n for n, _ in funcs], builders, wrappers


def scan_interface(repo):
    """problems with the shape of proto/iframe.py (the module every codec class derives from)"""
    path = os.path.join(repo, "src", "nxslib", "proto", "iframe.py")
    tree = ast.parse(open(path, encoding="utf-8").read(), filename=path)
    classes = {n.name: n for n in tree.body if isinstance(n, ast.ClassDef)}
    probs = []

    def is_doc(n):
        return isinstance(n, ast.Expr) and isinstance(n.value, ast.Constant) and isinstance(n.value.value, str)

    want_fields = {"DParseHdr": ["fid", "flen", "err"], "DParseFrame": ["fid", "data", "err"]}
    for cname, fields in want_fields.items():
        c = classes.get(cname)
        if c is None:
            probs.append((cname, 0, "class not found"))
            continue
        got = []
        for n in c.body:
            if is_doc(n):
                continue
            if isinstance(n, ast.AnnAssign) and isinstance(n.target, ast.Name):
                got.append(n.target.id)
            else:
                what = getattr(n, "name", type(n).__name__)
                probs.append((cname, n.lineno, f"member other than a field: {what}"))
        if got != fields:
            probs.append((cname, c.lineno, f"fields {got} (expected {fields})"))
    c = classes.get("ICommFrame")
    if c is None:
        probs.append(("ICommFrame", 0, "class not found"))
    else:
        for n in c.body:
            if is_doc(n):
                continue
            if isinstance(n, ast.FunctionDef):
                decos = {ast.unparse(d) for d in n.decorator_list}
                if "abstractmethod" not in decos:
                    probs.append(("ICommFrame", n.lineno, f"non-abstract member {n.name} (inherited by every codec class)"))
                if n.name not in INTERFACE:
                    probs.append(("ICommFrame", n.lineno, f"member outside the interface: {n.name}"))
            else:
                probs.append(("ICommFrame", n.lineno, "class-level state in the interface: " + ast.unparse(n)[:60]))
        names = [n.name for n in c.body if isinstance(n, ast.FunctionDef)]
        if sorted(names) != sorted(INTERFACE):
            probs.append(("ICommFrame", c.lineno, f"members {names}"))
    c = classes.get("EParseError")
    if c is None:
        probs.append(("EParseError", 0, "class not found"))
    else:
        got = [(n.targets[0].id, ast.unparse(n.value)) for n in c.body if isinstance(n, ast.Assign)
               and isinstance(n.targets[0], ast.Name)]
        if got != [("NOERR", "0"), ("ERR", "1"), ("HDR", "2"), ("FOOT", "3")]:
            probs.append(("EParseError", c.lineno, f"members {got}"))
    return probs


def gen_frameuse(repo):
    o = Out("FrameUse", imports=())
    uses, lits, missing_req, builders, wrappers, iface = [], [], [], [], [], []
    try:
        per_file = {}
        for rel in FILES:
            u, l, fn, b, w = scan_file(repo, rel)
            uses += u
            lits += l
            builders += b
            wrappers += w
            per_file[rel] = (u, fn)
        iface = scan_interface(repo)
        for (rel, fn), req in REQUIRED.items():
            u, fns = per_file[rel]
            if fn not in fns:
                missing_req.append((rel, fn, "<function>"))
                continue
            have = {m for (_, f, m, _) in u if f == fn}
            for m in req:
                if m not in have:
                    missing_req.append((rel, fn, m))
    except (SyntaxError, FileNotFoundError) as e:
        o.raw(f"def noFrameLiterals : Bool := translator_site_missing_FrameUse_scan  -- {e}")
        return o
    # de-duplicate literal findings (one constant can hit two rules)
    seen = set()
    lits2 = []
    for x in lits:
        if x not in seen:
            seen.add(x)
            lits2.append(x)
    lits = lits2
    o.raw("/-- every use of the frame codec: (file, function, member, expression it is reached through) -/")
    o.raw("def uses : List (String × String × String × String) := [")
    for i, (a, b, c, d) in enumerate(uses):
        o.raw(f"  ({lstr(a)}, {lstr(b)}, {lstr(c)}, {lstr(d)})" + ("," if i < len(uses) - 1 else ""))
    o.raw("]")
    o.raw("/-- frame literals / direct uses of the built-in codec outside serialframe.py: (file, function, line, what) -/")
    o.raw("def literals : List (String × String × Nat × String) := [")
    for i, (a, b, c, d) in enumerate(lits):
        o.raw(f"  ({lstr(a)}, {lstr(b)}, {c}, {lstr(d)})" + ("," if i < len(lits) - 1 else ""))
    o.raw("]")
    o.raw("/-- codec members a receive function must use and does not: (file, function, member) -/")
    o.raw("def missingUses : List (String × String × String) := [")
    for i, (a, b, c) in enumerate(missing_req):
        o.raw(f"  ({lstr(a)}, {lstr(b)}, {lstr(c)})" + ("," if i < len(missing_req) - 1 else ""))
    o.raw("]")
    o.raw(f"def nUses : Nat := {len(uses)}")
    o.raw(f"def nLiterals : Nat := {len(lits)}")
    o.raw(f"def noFrameLiterals : Bool := {'true' if not lits else 'false'}"
          "  -- no start byte / size / format literal, no direct SerialFrame use")
    o.raw(f"def receiveUsesComplete : Bool := {'true' if not missing_req else 'false'}"
          "  -- _read_hdr, _read_frame, recv_handle take every size / search / decode from the codec")
    o.raw("/-- the request / response builders: (file, function, number of `self._frame.frame_create` uses, every `return` "
          "hands the codec's frame (or None) straight to the caller) -/")
    o.raw("def builders : List (String × String × Nat × Bool) := [")
    for i, (a, b, c, d) in enumerate(builders):
        o.raw(f"  ({lstr(a)}, {lstr(b)}, {c}, {'true' if d else 'false'})" + ("," if i < len(builders) - 1 else ""))
    o.raw("]")
    o.raw("/-- builders that reach the codec through the builders above (`frame_enable` / `frame_div`: tuple, ALL and BULK "
          "branch): (file, function, number of `return`s, no codec use of its own and every `return` is the unedited result "
          "of a `_frame_set_*` row of `builders`) -/")
    o.raw("def wrappers : List (String × String × Nat × Bool) := [")
    for i, (a, b, c, d) in enumerate(wrappers):
        o.raw(f"  ({lstr(a)}, {lstr(b)}, {c}, {'true' if d else 'false'})" + ("," if i < len(wrappers) - 1 else ""))
    o.raw("]")
    o.raw("/-- every builder row goes through the codec member `frame_create` exactly once and returns its result; every "
          "wrapper row returns only such builders -/")
    o.raw("def buildersUseCodec : Bool := (builders.all fun r => r.2.2.1 == 1 && r.2.2.2) && "
          "(wrappers.all fun r => r.2.2.1 != 0 && r.2.2.2)")
    o.raw("/-- problems with the shape of proto/iframe.py: (class, line, what) -/")
    o.raw("def interfaceProblems : List (String × Nat × String) := [")
    for i, (a, b, c) in enumerate(iface):
        o.raw(f"  ({lstr(a)}, {b}, {lstr(c)})" + ("," if i < len(iface) - 1 else ""))
    o.raw("]")
    o.raw(f"def interfaceShape : Bool := {'true' if not iface else 'false'}"
          "  -- ICommFrame purely abstract, DParseHdr / DParseFrame plain records, EParseError = NOERR ERR HDR FOOT")
    o.facts = {"uses": uses, "literals": lits, "missing": missing_req, "builders": builders, "wrappers": wrappers,
               "interface": iface}
    return o


if __name__ == "__main__":
    import sys
    r = gen_frameuse(sys.argv[1] if len(sys.argv) > 1 else os.environ.get("NXS_REPO", "/repo"))
    print(r.text())
