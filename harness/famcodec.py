"""The parameterised frame-codec family of C20, in Python (mirror of lean/NxsModel/Family.lean).

A codec is named by the same parameter string the Lean driver parses:
    sof=<hh>;hdr=S,<field>,...;foot=<kind>
      field : L1 | L<n>le | L<n>be (n=2..4) | I | F | F<hh>        (S first; exactly one L*, exactly one I; 3..8 bytes)
      kind  : xor | sum1 | sum<k>le | sum<k>be (k=2..4) | crc32le | crc32be

Two INDEPENDENT implementations live here:
  * `frame_cls(pstr)`  — class factory: an `ICommFrame` subclass (what a user of nxslib would write and hand to
                         `Parser(frame=cls)` / `ParseRecv(cb, frame=cls)`; these instantiate the class, hence a
                         factory).  Own bitwise CRC-32.  Checked against the Lean family on every run.
  * `RefCodec(pstr)`   — reference codec with the adapter interface of harness/refdev.py
                         (`create/find/decode_at/sof/hdr_len/foot_len`) plus `header_at/check_ok`; written with
                         offset tables and zlib / sum / reduce.  Used by the reference device and by the oracles.
"""
import functools
import struct
import zlib

FOOTS = ["xor", "sum1", "sum2le", "sum2be", "sum3le", "sum3be", "sum4le", "sum4be", "crc32le", "crc32be"]


class Params:
    def __init__(self, sof, fields, foot):
        self.sof = sof
        self.fields = fields          # list of ("L", n, be) | ("I",) | ("F", byte)
        self.foot = foot              # one of FOOTS
        self.hdr_len = 1 + sum(f[1] if f[0] == "L" else 1 for f in fields)
        self.foot_len = {"xor": 1, "sum1": 1, "crc32le": 4, "crc32be": 4}.get(foot) or int(foot[3])
        self.foot_kind = "xor" if foot == "xor" else ("crc32" if foot.startswith("crc32") else "sum")
        self.foot_be = foot.endswith("be")

    def valid(self):
        ls = [f for f in self.fields if f[0] == "L"]
        return (len(ls) == 1 and ls[0][1] in (1, 2, 3, 4) and sum(1 for f in self.fields if f[0] == "I") == 1
                and 3 <= self.hdr_len <= 8 and self.foot in FOOTS and 0 <= self.sof <= 255)

    def __str__(self):
        fs = []
        for f in self.fields:
            if f[0] == "L":
                fs.append("L1" if f[1] == 1 else "L%d%s" % (f[1], "be" if f[2] else "le"))
            elif f[0] == "I":
                fs.append("I")
            else:
                fs.append("F" if f[1] == 0 else "F%02x" % f[1])
        return "sof=%02x;hdr=%s;foot=%s" % (self.sof, ",".join(["S"] + fs), self.foot)


def parse_params(s):
    parts = dict(kv.split("=", 1) for kv in s.split(";"))
    names = parts["hdr"].split(",")
    if names[0] != "S":
        raise ValueError("start byte must be the first header field")
    fields = []
    for n in names[1:]:
        if n == "I":
            fields.append(("I",))
        elif n == "L1":
            fields.append(("L", 1, False))
        elif n in ("L2le", "L2be", "L3le", "L3be", "L4le", "L4be"):
            fields.append(("L", int(n[1]), n.endswith("be")))
        elif n == "F":
            fields.append(("F", 0))
        elif n[0] == "F" and len(n) == 3:
            fields.append(("F", int(n[1:], 16)))
        else:
            raise ValueError("field " + n)
    p = Params(int(parts["sof"], 16), fields, parts["foot"])
    if not p.valid():
        raise ValueError("not a valid member: " + s)
    return p


def random_params(rng, hdr_len=None, foot=None):
    """a valid member; header length and footer kind can be pinned (stratified draws)"""
    hdr_len = hdr_len or rng.randrange(3, 9)
    n = rng.choice([w for w in (1, 2, 2, 2, 3, 4) if w <= hdr_len - 2])
    fields = [("L", n, rng.random() < 0.5 if n >= 2 else False), ("I",)]
    for _ in range(hdr_len - 1 - n - 1):
        fields.append(("F", rng.choice([0, 0, 0xFF, rng.randrange(256)])))
    rng.shuffle(fields)
    sof = rng.choice([0x00, 0x55, 0xFF, 0x0A, 0x7E] + [rng.randrange(256)] * 7)
    return Params(sof, fields, foot or rng.choice(FOOTS))


# ---------------------------------------------------------------------------------------------------------
# the ICommFrame implementation (class factory)
# ---------------------------------------------------------------------------------------------------------
class Spin(Exception):
    """the codec was asked the same question tens of thousands of times in a row: the caller loops without reading"""


SPIN_LIMIT = 5000


def _crc32_bitwise(data):
    reg = 0xFFFFFFFF
    for b in data:
        reg ^= b
        for _ in range(8):
            reg = (reg >> 1) ^ 0xEDB88320 if reg & 1 else reg >> 1
    return reg ^ 0xFFFFFFFF


@functools.lru_cache(maxsize=None)
def frame_cls(pstr):
    from nxslib.proto.iframe import DParseFrame, DParseHdr, EParseError, EParseId, ICommFrame
    P = parse_params(pstr)
    HL, FL, SOF = P.hdr_len, P.foot_len, P.sof
    order = "big" if P.foot_be else "little"

    def check(data):
        if P.foot_kind == "xor":
            x = 0
            for b in data:
                x ^= b
            return bytes([x])
        if P.foot_kind == "sum":
            s = 0
            for b in data:
                s += b
            return (s % (1 << (8 * FL))).to_bytes(FL, order)
        return _crc32_bitwise(data).to_bytes(4, order)

    class FamFrame(ICommFrame):
        """custom frame codec generated from a parameter string"""
        params = pstr

        def __init__(self):
            super().__init__()
            self._last = None
            self._same = 0

        @property
        def hdr_len(self):
            return HL

        @property
        def foot_len(self):
            return FL

        def hdr_find(self, data):
            if data == self._last:
                self._same += 1
                if self._same > SPIN_LIMIT:
                    raise Spin("hdr_find called %d times in a row on the same %d-byte buffer" % (self._same, len(data)))
            else:
                self._last = data
                self._same = 0
            return data.find(bytes([SOF]))

        def hdr_decode(self, data):
            if data is None:
                return DParseHdr(err=EParseError.HDR)
            if len(data) < HL:
                return DParseHdr(err=EParseError.HDR)
            data = data[:HL]
            if data[0] != SOF:
                return DParseHdr(err=EParseError.HDR)
            off = 1
            flen = 0
            _id = 0
            for f in P.fields:
                if f[0] == "L":
                    flen = int.from_bytes(data[off:off + f[1]], "big" if f[2] else "little")
                    off += f[1]
                elif f[0] == "I":
                    _id = data[off]
                    off += 1
                else:
                    off += 1
            try:
                fid = EParseId(_id)
            except ValueError:
                return DParseHdr(err=EParseError.HDR)
            return DParseHdr(fid=fid, flen=flen)

        def foot_validate(self, data):
            if len(data) < FL:
                return False
            return check(data[:len(data) - FL]) == data[len(data) - FL:]

        def frame_decode(self, data):
            hdr = self.hdr_decode(data)
            if hdr.err is not EParseError.NOERR:
                return DParseFrame(err=hdr.err)
            if hdr.flen < HL + FL or hdr.flen > len(data):
                return DParseFrame(err=EParseError.FOOT)
            if self.foot_validate(data[:hdr.flen]) is False:
                return DParseFrame(err=EParseError.FOOT)
            return DParseFrame(fid=hdr.fid, data=data[HL:hdr.flen - FL])

        def frame_create(self, fid, data):
            assert fid <= 255
            total = HL + FL + (len(data) if data is not None else 0)
            out = bytearray([SOF])
            for f in P.fields:
                if f[0] == "L":
                    if total >= 1 << (8 * f[1]):
                        raise struct.error("frame length does not fit the length field")
                    out += total.to_bytes(f[1], "big" if f[2] else "little")
                elif f[0] == "I":
                    out.append(int(fid))
                else:
                    out.append(f[1])
            if data is not None:
                out += data
            return bytes(out) + check(bytes(out))

    FamFrame.__name__ = "FamFrame_" + "".join(c if c.isalnum() else "_" for c in pstr)
    return FamFrame


# ---------------------------------------------------------------------------------------------------------
# the reference codec (refdev adapter + oracle helpers)
# ---------------------------------------------------------------------------------------------------------
class RefCodec:
    def __init__(self, pstr):
        p = parse_params(pstr)
        self.name = pstr
        self.p = p
        self.sof = p.sof
        self.hdr_len = p.hdr_len
        self.foot_len = p.foot_len
        off = 1
        self.fill = {}
        for f in p.fields:
            if f[0] == "L":
                self.len_off, self.len_n, self.len_be = off, f[1], f[2]
                off += f[1]
            elif f[0] == "I":
                self.id_off = off
                off += 1
            else:
                self.fill[off] = f[1]
                off += 1
        assert off == self.hdr_len

    def footer(self, body):
        k = self.p.foot_kind
        if k == "xor":
            return bytes([functools.reduce(lambda a, b: a ^ b, body, 0)])
        if k == "sum":
            v = sum(body) & ((1 << (8 * self.foot_len)) - 1)
        else:
            v = zlib.crc32(body) & 0xFFFFFFFF
        return v.to_bytes(self.foot_len, "big" if self.p.foot_be else "little")

    def fits(self, n_payload):
        return self.hdr_len + n_payload + self.foot_len < 256 ** self.len_n

    def create(self, fid, payload, declared=None):
        total = self.hdr_len + len(payload) + self.foot_len if declared is None else declared
        if declared is None and not self.fits(len(payload)):
            raise ValueError("frame does not fit the length field of " + self.name)
        hdr = bytearray(self.hdr_len)
        hdr[0] = self.sof
        for o, b in self.fill.items():
            hdr[o] = b
        hdr[self.id_off] = fid & 0xFF
        hdr[self.len_off:self.len_off + self.len_n] = (total % 256 ** self.len_n).to_bytes(self.len_n, "big" if self.len_be else "little")
        body = bytes(hdr) + payload
        return body + self.footer(body)

    def find(self, data, start=0):
        return data.find(bytes([self.sof]), start)

    def header_at(self, data, i):
        """(fid, declared length) if a decodable header starts at i (start byte, hdr_len bytes, id 0..8) else None"""
        if len(data) - i < self.hdr_len or data[i] != self.sof:
            return None
        fid = data[i + self.id_off]
        if fid > 8:
            return None
        raw = data[i + self.len_off:i + self.len_off + self.len_n]
        return fid, int.from_bytes(raw, "big" if self.len_be else "little")

    def check_ok(self, frame):
        return len(frame) >= self.foot_len and self.footer(frame[:-self.foot_len]) == frame[-self.foot_len:]

    def decode_at(self, data, i):
        """(fid, payload, total length) of a valid frame starting at i, else None — the acceptance predicate"""
        h = self.header_at(data, i)
        if h is None:
            return None
        fid, flen = h
        if flen < self.hdr_len + self.foot_len or i + flen > len(data):
            return None
        if not self.check_ok(data[i:i + flen]):
            return None
        return fid, data[i + self.hdr_len:i + flen - self.foot_len], flen

    def set_len(self, frame, n):
        b = bytearray(frame)
        b[self.len_off:self.len_off + self.len_n] = (n % 256 ** self.len_n).to_bytes(self.len_n, "big" if self.len_be else "little")
        return bytes(b)

    def refoot(self, frame):
        """recompute the footer of an edited frame (so that only the edited field decides)"""
        body = frame[:-self.foot_len]
        return body + self.footer(body)


def ref_scan(rc, data):
    """one left-to-right pass over the received bytes (the reassembly property, parameterised by the framing)"""
    out = []
    i = 0
    n = len(data)
    sof = bytes([rc.sof])
    while True:
        j = data.find(sof, i)
        if j < 0 or n - j < rc.hdr_len:
            return out
        h = rc.header_at(data, j)
        if h is None:
            i = j + 1
            continue
        fid, flen = h
        if n - j < flen:
            return out
        if flen >= rc.hdr_len + rc.foot_len and rc.check_ok(data[j:j + flen]):
            out.append((fid, data[j + rc.hdr_len:j + flen - rc.foot_len]))
            i = j + flen
        else:
            i = j + 1


def accepts(rc, d):
    """(fid, payload) if `d` starts with an acceptable frame else None"""
    r = rc.decode_at(d, 0)
    return None if r is None else (r[0], r[1])


class SerialRef:
    """the built-in framing seen through the same helper interface (for the session comparison)"""

    def __init__(self):
        import refdev
        self.c = refdev.SerialCodec()
        self.name = "serial"

    def decode_at(self, data, i):
        return self.c.decode_at(data, i)
