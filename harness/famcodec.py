"""The parameterised frame-codec family of C20, in Python (mirror of lean/NxsModel/Family.lean).

A codec is named by the same parameter string the Lean driver parses:
    sof=<hh>;hdr=S,<field>,...;foot=<kind>
      field : L1 | L<n>le | L<n>be (n=2..4) | I | F | F<hh>        (S first; exactly one L*, exactly one I; 3..8 bytes)
      kind  : xor | sum1 | sum<k>le | sum<k>be (k=2..4) | crc32le | crc32be

A member can be REALISED in Python in several ways (fourth, optional part of the string: `;impl=<letters>`, ignored by
the model except for the canonicalisation of error kinds):
      s : the class is derived from ANOTHER CONCRETE codec class (the built-in `SerialFrame` for the first such member,
          then the previously generated `s` class: a chain SerialFrame <- A <- B <- ...), every member overridden — the
          natural way to write "the serial codec with another start marker / checksum".  The parent classes are
          instantiated BEFORE the derived class is created and used.
      e : the length-range rejections of `frame_decode` (declared length below header + footer, beyond the data) are
          reported with the generic `EParseError.ERR`
      E : every rejection of `hdr_decode` / `frame_decode` is reported with `EParseError.ERR`, and the rejected result
          still carries whatever was parsed (fid UNDEF, the declared length) — legal: the interface only says that
          `err` is not NOERR
    the concrete Python TYPES of the results (the model has `fid : Nat`, `data : List UInt8`; nxslib compares frame
    ids with `==` / `!=` only and treats payloads / frames as byte strings):
      i : the frame id of `DParseHdr` / `DParseFrame` is the plain `int` read off the wire (`fid=data[k]`), not a
          member of `EParseId`
      n : the frame id is a member of the codec's OWN `IntEnum` (`FamId`, same numbers as `EParseId`): an int subclass
          that is equal to, but never identical with, the `EParseId` member
      a : the payload of `DParseFrame` is a `bytearray`
      m : the codec works on a `memoryview` of its input (no copy until the result); payload / footer are
          `memoryview.tobytes()` results
      b : `frame_create` returns a `bytearray`
    NOT varied, on purpose (see `assumptions` of props/C20.py): `foot_validate` returns a real `bool` and `err` is a
    member of `EParseError` — nxslib itself tests these two by identity (`foot_validate(...) is False`,
    `hdr.err is not EParseError.NOERR`, pinned by rule R5 of the static scan), so a codec returning `int(ok)` / `0`
    there is outside "honours the frame interface" (`-> bool`, `err: EParseError`); `hdr_find`, `flen`, `hdr_len`,
    `foot_len` are plain ints.

Two INDEPENDENT implementations live here:
  * `frame_cls(pstr)`  — class factory: an `ICommFrame` subclass (what a user of nxslib would write and hand to
                         `Parser(frame=cls)` / `ParseRecv(cb, frame=cls)`; these instantiate the class, hence a
                         factory).  Own bitwise CRC-32.  Checked against the Lean family on every run.
  * `RefCodec(pstr)`   — reference codec with the adapter interface of harness/refdev.py
                         (`create/find/decode_at/sof/hdr_len/foot_len`) plus `header_at/check_ok`; written with
                         offset tables and zlib / sum / reduce.  Used by the reference device and by the oracles.
"""
import functools
import struct
import zlib

FOOTS = ["xor", "sum1", "sum2le", "sum2be", "sum3le", "sum3be", "sum4le", "sum4be", "crc32le", "crc32be"]


class Params:
    def __init__(self, sof, fields, foot):
        self.sof = sof
        self.fields = fields          # list of ("L", n, be) | ("I",) | ("F", byte)
        self.foot = foot              # one of FOOTS
        self.hdr_len = 1 + sum(f[1] if f[0] == "L" else 1 for f in fields)
        self.foot_len = {"xor": 1, "sum1": 1, "crc32le": 4, "crc32be": 4}.get(foot) or int(foot[3])
        self.foot_kind = "xor" if foot == "xor" else ("crc32" if foot.startswith("crc32") else "sum")
        self.foot_be = foot.endswith("be")

    def valid(self):
        ls = [f for f in self.fields if f[0] == "L"]
        return (len(ls) == 1 and ls[0][1] in (1, 2, 3, 4) and sum(1 for f in self.fields if f[0] == "I") == 1
                and 3 <= self.hdr_len <= 8 and self.foot in FOOTS and 0 <= self.sof <= 255)

    def __str__(self):
        fs = []
        for f in self.fields:
            if f[0] == "L":
                fs.append("L1" if f[1] == 1 else "L%d%s" % (f[1], "be" if f[2] else "le"))
            elif f[0] == "I":
                fs.append("I")
            else:
                fs.append("F" if f[1] == 0 else "F%02x" % f[1])
        return "sof=%02x;hdr=%s;foot=%s" % (self.sof, ",".join(["S"] + fs), self.foot)


def split_impl(s):
    """(member string without the realisation part, realisation letters)"""
    parts = s.split(";")
    impl = ""
    keep = []
    for kv in parts:
        if kv.startswith("impl="):
            impl = kv[5:]
        else:
            keep.append(kv)
    return ";".join(keep), impl


def parse_params(s):
    s, _ = split_impl(s)
    parts = dict(kv.split("=", 1) for kv in s.split(";"))
    names = parts["hdr"].split(",")
    if names[0] != "S":
        raise ValueError("start byte must be the first header field")
    fields = []
    for n in names[1:]:
        if n == "I":
            fields.append(("I",))
        elif n == "L1":
            fields.append(("L", 1, False))
        elif n in ("L2le", "L2be", "L3le", "L3be", "L4le", "L4be"):
            fields.append(("L", int(n[1]), n.endswith("be")))
        elif n == "F":
            fields.append(("F", 0))
        elif n[0] == "F" and len(n) == 3:
            fields.append(("F", int(n[1:], 16)))
        else:
            raise ValueError("field " + n)
    p = Params(int(parts["sof"], 16), fields, parts["foot"])
    if not p.valid():
        raise ValueError("not a valid member: " + s)
    return p


def random_params(rng, hdr_len=None, foot=None):
    """a valid member; header length and footer kind can be pinned (stratified draws)"""
    hdr_len = hdr_len or rng.randrange(3, 9)
    n = rng.choice([w for w in (1, 2, 2, 2, 3, 4) if w <= hdr_len - 2])
    fields = [("L", n, rng.random() < 0.5 if n >= 2 else False), ("I",)]
    for _ in range(hdr_len - 1 - n - 1):
        fields.append(("F", rng.choice([0, 0, 0xFF, rng.randrange(256)])))
    rng.shuffle(fields)
    sof = rng.choice([0x00, 0x55, 0xFF, 0x0A, 0x7E] + [rng.randrange(256)] * 7)
    return Params(sof, fields, foot or rng.choice(FOOTS))


# ---------------------------------------------------------------------------------------------------------
# the ICommFrame implementation (class factory)
# ---------------------------------------------------------------------------------------------------------
class Spin(Exception):
    """the codec was asked the same question tens of thousands of times in a row: the caller loops without reading"""


SPIN_LIMIT = 5000


def _crc32_bitwise(data):
    reg = 0xFFFFFFFF
    for b in data:
        reg ^= b
        for _ in range(8):
            reg = (reg >> 1) ^ 0xEDB88320 if reg & 1 else reg >> 1
    return reg ^ 0xFFFFFFFF


_S_CHAIN = []      # the classes realised as subclasses of concrete codecs, in creation order


@functools.lru_cache(maxsize=None)
def frame_cls(pstr):
    from nxslib.proto.iframe import DParseFrame, DParseHdr, EParseError, EParseId, ICommFrame
    from nxslib.proto.serialframe import SerialFrame
    from enum import IntEnum
    P = parse_params(pstr)
    _, impl = split_impl(pstr)
    HL, FL, SOF = P.hdr_len, P.foot_len, P.sof
    order = "big" if P.foot_be else "little"
    E_HDR = EParseError.ERR if "E" in impl else EParseError.HDR
    E_LEN = EParseError.ERR if ("e" in impl or "E" in impl) else EParseError.FOOT
    E_FOOT = EParseError.ERR if "E" in impl else EParseError.FOOT
    CARRY = "E" in impl
    INT_ID = "i" in impl
    OWN_ENUM = "n" in impl and not INT_ID
    DATA_BA = "a" in impl
    MVIEW = "m" in impl
    CREATE_BA = "b" in impl
    FamId = IntEnum("FamId", [(m.name, m.value) for m in EParseId])
    if "s" in impl:
        base = _S_CHAIN[-1] if _S_CHAIN else SerialFrame
        # the parents are in use before the derived codec class exists
        SerialFrame()
        for c in _S_CHAIN:
            c()
    else:
        base = ICommFrame

    def check(data):
        if P.foot_kind == "xor":
            x = 0
            for b in data:
                x ^= b
            return bytes([x])
        if P.foot_kind == "sum":
            s = 0
            for b in data:
                s += b
            return (s % (1 << (8 * FL))).to_bytes(FL, order)
        return _crc32_bitwise(data).to_bytes(4, order)

    class FamFrame(base):
        """custom frame codec generated from a parameter string"""
        params = pstr
        parent = base

        def __init__(self):
            super().__init__()
            self._last = None
            self._same = 0

        @property
        def hdr_len(self):
            return HL

        @property
        def foot_len(self):
            return FL

        def hdr_find(self, data):
            if data == self._last:
                self._same += 1
                if self._same > SPIN_LIMIT:
                    raise Spin("hdr_find called %d times in a row on the same %d-byte buffer" % (self._same, len(data)))
            else:
                self._last = data
                self._same = 0
            return data.find(bytes([SOF]))

        def hdr_decode(self, data):
            if data is None:
                return DParseHdr(err=E_HDR)
            if len(data) < HL:
                return DParseHdr(err=E_HDR)
            data = memoryview(data)[:HL] if MVIEW else data[:HL]
            if data[0] != SOF:
                return DParseHdr(err=E_HDR)
            off = 1
            flen = 0
            _id = 0
            for f in P.fields:
                if f[0] == "L":
                    flen = int.from_bytes(data[off:off + f[1]], "big" if f[2] else "little")
                    off += f[1]
                elif f[0] == "I":
                    _id = data[off]
                    off += 1
                else:
                    off += 1
            try:
                fid = EParseId(_id)
            except ValueError:
                return DParseHdr(flen=flen, err=E_HDR) if CARRY else DParseHdr(err=E_HDR)
            if INT_ID:
                fid = _id                   # the byte read off the wire: a plain int
                assert type(fid) is int
            elif OWN_ENUM:
                fid = FamId(_id)            # equal to, not identical with, the EParseId member
            return DParseHdr(fid=fid, flen=flen)

        def foot_validate(self, data):
            if len(data) < FL:
                return False
            if MVIEW:
                data = memoryview(data)
                return check(data[:len(data) - FL]) == data[len(data) - FL:].tobytes()
            return check(data[:len(data) - FL]) == data[len(data) - FL:]

        def frame_decode(self, data):
            hdr = self.hdr_decode(data)
            if hdr.err is not EParseError.NOERR:
                return DParseFrame(err=hdr.err)
            if hdr.flen < HL + FL or hdr.flen > len(data):
                return DParseFrame(err=E_LEN)
            if MVIEW:
                payload = memoryview(data)[HL:hdr.flen - FL].tobytes()
            else:
                payload = data[HL:hdr.flen - FL]
            if DATA_BA:
                payload = bytearray(payload)
            if self.foot_validate(data[:hdr.flen]) is False:
                return DParseFrame(fid=hdr.fid, data=payload, err=E_FOOT) if CARRY else DParseFrame(err=E_FOOT)
            return DParseFrame(fid=hdr.fid, data=payload)

        def frame_create(self, fid, data):
            assert fid <= 255
            total = HL + FL + (len(data) if data is not None else 0)
            out = bytearray([SOF])
            for f in P.fields:
                if f[0] == "L":
                    if total >= 1 << (8 * f[1]):
                        raise struct.error("frame length does not fit the length field")
                    out += total.to_bytes(f[1], "big" if f[2] else "little")
                elif f[0] == "I":
                    out.append(int(fid))
                else:
                    out.append(f[1])
            if data is not None:
                out += data
            out += check(bytes(out))
            return out if CREATE_BA else bytes(out)

    FamFrame.id_type = int if INT_ID else (FamId if OWN_ENUM else EParseId)
    FamFrame.__name__ = "FamFrame_" + "".join(c if c.isalnum() else "_" for c in pstr)
    if "s" in impl:
        _S_CHAIN.append(FamFrame)
    return FamFrame


def realisation(pstr):
    """how the member is realised as a Python class (for the replay files)"""
    _, impl = split_impl(pstr)
    cls = frame_cls(pstr)
    out = []
    if "s" in impl:
        out.append("class derived from the concrete codec class " + cls.parent.__name__ + " (instantiated before), every member overridden")
    if "E" in impl:
        out.append("every rejection reported as EParseError.ERR, rejected results carry the parsed fields")
    elif "e" in impl:
        out.append("length-range rejections of frame_decode reported as EParseError.ERR")
    if "i" in impl:
        out.append("frame id reported as the plain int read off the wire (DParseHdr(fid=data[k], ...))")
    elif "n" in impl:
        out.append("frame id reported as a member of the codec's own IntEnum (equal to, not identical with, EParseId.X)")
    if "a" in impl:
        out.append("payload of DParseFrame is a bytearray")
    if "m" in impl:
        out.append("codec slices a memoryview of its input")
    if "b" in impl:
        out.append("frame_create returns a bytearray")
    if "s" not in impl:
        out.insert(0, "class derived from ICommFrame")
    if not ("e" in impl or "E" in impl):
        out.append("rejections reported as HDR / FOOT")
    return "; ".join(out)


# ---------------------------------------------------------------------------------------------------------
# the reference codec (refdev adapter + oracle helpers)
# ---------------------------------------------------------------------------------------------------------
class RefCodec:
    def __init__(self, pstr):
        p = parse_params(pstr)
        self.name = pstr
        self.p = p
        self.sof = p.sof
        self.hdr_len = p.hdr_len
        self.foot_len = p.foot_len
        off = 1
        self.fill = {}
        for f in p.fields:
            if f[0] == "L":
                self.len_off, self.len_n, self.len_be = off, f[1], f[2]
                off += f[1]
            elif f[0] == "I":
                self.id_off = off
                off += 1
            else:
                self.fill[off] = f[1]
                off += 1
        assert off == self.hdr_len

    def footer(self, body):
        k = self.p.foot_kind
        if k == "xor":
            return bytes([functools.reduce(lambda a, b: a ^ b, body, 0)])
        if k == "sum":
            v = sum(body) & ((1 << (8 * self.foot_len)) - 1)
        else:
            v = zlib.crc32(body) & 0xFFFFFFFF
        return v.to_bytes(self.foot_len, "big" if self.p.foot_be else "little")

    def fits(self, n_payload):
        return self.hdr_len + n_payload + self.foot_len < 256 ** self.len_n

    def create(self, fid, payload, declared=None):
        total = self.hdr_len + len(payload) + self.foot_len if declared is None else declared
        if declared is None and not self.fits(len(payload)):
            raise ValueError("frame does not fit the length field of " + self.name)
        hdr = bytearray(self.hdr_len)
        hdr[0] = self.sof
        for o, b in self.fill.items():
            hdr[o] = b
        hdr[self.id_off] = fid & 0xFF
        hdr[self.len_off:self.len_off + self.len_n] = (total % 256 ** self.len_n).to_bytes(self.len_n, "big" if self.len_be else "little")
        body = bytes(hdr) + payload
        return body + self.footer(body)

    def find(self, data, start=0):
        return data.find(bytes([self.sof]), start)

    def header_at(self, data, i):
        """(fid, declared length) if a decodable header starts at i (start byte, hdr_len bytes, id 0..8) else None"""
        if len(data) - i < self.hdr_len or data[i] != self.sof:
            return None
        fid = data[i + self.id_off]
        if fid > 8:
            return None
        raw = data[i + self.len_off:i + self.len_off + self.len_n]
        return fid, int.from_bytes(raw, "big" if self.len_be else "little")

    def check_ok(self, frame):
        return len(frame) >= self.foot_len and self.footer(frame[:-self.foot_len]) == frame[-self.foot_len:]

    def decode_at(self, data, i):
        """(fid, payload, total length) of a valid frame starting at i, else None — the acceptance predicate"""
        h = self.header_at(data, i)
        if h is None:
            return None
        fid, flen = h
        if flen < self.hdr_len + self.foot_len or i + flen > len(data):
            return None
        if not self.check_ok(data[i:i + flen]):
            return None
        return fid, data[i + self.hdr_len:i + flen - self.foot_len], flen

    def set_len(self, frame, n):
        b = bytearray(frame)
        b[self.len_off:self.len_off + self.len_n] = (n % 256 ** self.len_n).to_bytes(self.len_n, "big" if self.len_be else "little")
        return bytes(b)

    def refoot(self, frame):
        """recompute the footer of an edited frame (so that only the edited field decides)"""
        body = frame[:-self.foot_len]
        return body + self.footer(body)


def ref_scan(rc, data):
    """one left-to-right pass over the received bytes (the reassembly property, parameterised by the framing)"""
    out = []
    i = 0
    n = len(data)
    sof = bytes([rc.sof])
    while True:
        j = data.find(sof, i)
        if j < 0 or n - j < rc.hdr_len:
            return out
        h = rc.header_at(data, j)
        if h is None:
            i = j + 1
            continue
        fid, flen = h
        if n - j < flen:
            return out
        if flen >= rc.hdr_len + rc.foot_len and rc.check_ok(data[j:j + flen]):
            out.append((fid, data[j + rc.hdr_len:j + flen - rc.foot_len]))
            i = j + flen
        else:
            i = j + 1


def accepts(rc, d):
    """(fid, payload) if `d` starts with an acceptable frame else None"""
    r = rc.decode_at(d, 0)
    return None if r is None else (r[0], r[1])


class SerialRef:
    """the built-in framing seen through the same helper interface (for the session comparison)"""

    def __init__(self):
        import refdev
        self.c = refdev.SerialCodec()
        self.name = "serial"

    def decode_at(self, data, i):
        return self.c.decode_at(data, i)


# ---------------------------------------------------------------------------------------------------------
# a device whose wire side is the REAL ParseRecv(cb, frame=cls)
# ---------------------------------------------------------------------------------------------------------
def pr_device_class():
    """RefDevice's state machine and answer policies (harness/refdev.py), with every byte on the wire produced and
    consumed by nxslib's own device-side parser configured with the custom codec — built like DummyDev's callbacks:
    `recv_handle` dispatches the written bytes to the callbacks, the answers come from `frame_cmninfo_encode`,
    `frame_chinfo_encode`, `frame_ack_encode`, `frame_stream_encode`.  (DummyDev itself constructs `ParseRecv(cb)`
    and cannot be given a codec.)"""
    import refdev
    from nxslib.proto.iparse import DParseStreamData
    from nxslib.proto.iparserecv import ParseRecvCb
    from nxslib.proto.parserecv import ParseRecv
    import streamglue as sg

    class _Obj:
        pass

    class PRDevice(refdev.RefDevice):
        frame_cls = None      # set by the factory

        def __init__(self, *a, **kw):
            super().__init__(*a, **kw)
            cb = ParseRecvCb(cmninfo=lambda d: self.handle(refdev.CMNINFO, bytes(d)),
                             chinfo=lambda d: self.handle(refdev.CHINFO, bytes(d)),
                             enable=lambda d: self.handle(refdev.ENABLE, bytes(d)),
                             div=lambda d: self.handle(refdev.DIV, bytes(d)),
                             start=lambda d: self.handle(refdev.START, bytes(d)))
            self.pr = ParseRecv(cb, frame=self.frame_cls) if self.frame_cls else ParseRecv(cb)
            self.wire_problems = []      # frames of the real encoders that are not the codec's framing of the NxScope payload
            self.rejected = 0

        # consumed bytes: the real dispatcher
        def on_write(self, data):
            try:
                self.pr.recv_handle(bytes(data))
            except AssertionError:
                self.rejected += 1       # a request of the wrong size: RefDevice ignores it, ParseRecv asserts

        # produced bytes: the real encoders
        def _send(self, fid, payload):
            f = None
            try:
                if fid == refdev.ACK and len(payload) == 4:
                    f = self.pr.frame_ack_encode(struct.unpack("<i", payload)[0])
                elif fid == refdev.CMNINFO and len(payload) == 3:
                    d = _Obj()
                    d.data = _Obj()
                    d.data.chmax, d.data.flags, d.data.rxpadding = payload[0], payload[1], payload[2]
                    f = self.pr.frame_cmninfo_encode(d)
                elif fid == refdev.CHINFO and len(payload) >= 5:
                    c = _Obj()
                    c.data = _Obj()
                    c.data.en, c.data._type, c.data.vdim, c.data.div, c.data.mlen = (bool(payload[0]), payload[1], payload[2],
                                                                                      payload[3], payload[4])
                    c.data.name = payload[5:].decode("utf-8")
                    f = self.pr.frame_chinfo_encode(c)
            except Exception as e:  # noqa: BLE001
                self.wire_problems.append((fid, bytes(payload), "raised " + type(e).__name__))
                return
            if f is None:
                f = self.pr._frame.frame_create(fid, payload)       # answers outside the regular shapes (fault policies)
            want = self.codec.create(fid, payload)
            if bytes(f) != want:
                self.wire_problems.append((fid, bytes(payload), bytes(f)))
            self.rx += f

        def stream_tick(self):
            if not self.started:
                return
            samples = []
            body = bytearray([0])
            for i, ch in enumerate(self.chans):
                if not ch["en"]:
                    continue
                raw = self.sample_bytes(ch, self.stream_cntr)
                meta = tuple((self.stream_cntr + k) & 0xFF for k in range(ch["mlen"]))
                if not raw and not meta:
                    continue      # nxslib's encoder leaves out samples that carry neither data nor metadata (C15)
                body.append(i)
                body += raw
                body += bytes(meta)
                samples.append(DParseStreamData(i, ch["type"] & 0x1F, ch["vdim"], ch["mlen"],
                                                self.sample_values(ch, self.stream_cntr), self.meta_values(ch, meta)))
            self.stream_cntr += 1
            if len(body) <= 1:
                return
            try:
                f = self.pr.frame_stream_encode(samples)
            except Exception as e:  # noqa: BLE001
                self.wire_problems.append((refdev.STREAM, bytes(body), "raised " + type(e).__name__ + ": " + str(e)[:60]))
                return
            want = self.codec.create(refdev.STREAM, bytes(body))
            if f is None or bytes(f) != want:
                self.wire_problems.append((refdev.STREAM, bytes(body), None if f is None else bytes(f)))
            if f is not None:
                self.rx += f

        @staticmethod
        def meta_values(ch, meta):
            """the metadata bytes as the values `struct.pack(msfmt_get(mlen), *meta)` expects"""
            n = ch["mlen"]
            if n in sg.META_SINGLE:
                return (int.from_bytes(bytes(meta), "little"),)
            return tuple(meta)

        @staticmethod
        def sample_values(ch, cntr):
            """the values whose NxScope encoding is RefDevice.sample_bytes(ch, cntr)"""
            t = ch["type"] & 0x1F
            code, size, frac = sg.STD[t]
            if code == "":
                return ()
            if code == "s":
                return ((b"s%d" % cntr + bytes(ch["vdim"]))[:ch["vdim"]].decode("latin-1"),)
            out = []
            for k in range(ch["vdim"]):
                if code in "fd":
                    out.append(float(cntr + k))
                else:
                    raw = (cntr + k) % (1 << (8 * size - 1))
                    out.append(raw / (1 << frac) if frac is not None else raw)
            return tuple(out)

    return PRDevice


def pr_device_factory(pstr):
    """a RefDevice-compatible constructor whose wire side is ParseRecv(cb, frame=<class of pstr>) (pstr None: built-in)"""
    base = pr_device_class()
    cls = frame_cls(pstr) if pstr else None
    return type("PRDevice_" + ("serial" if pstr is None else "custom"), (base,), {"frame_cls": cls})
