#!/bin/sh
# run every claimed check (tier $1, default quick) for the seeds given in $SEEDS (default "0"); prints a summary
cd "$(dirname "$0")/.." || exit 2
tier=${1:-quick}
fail=0
for seed in ${SEEDS:-0}; do
  for p in $(python3 -c "import json;print(' '.join(c['property_id'] for c in json.load(open('MANIFEST.json'))['checks']))"); do
    out=$(VERIF_SEED=$seed ./check "$p" "$tier" 2>&1)
    rc=$?
    echo "$out" | tail -1
    if [ $rc -ne 0 ]; then fail=1; echo "$out" | grep -E "VIOLATION|broken step" | head -5; fi
  done
done
exit $fail
