"""Source pins: the functions of /repo that the hand-written Lean models transcribe, pinned to the exact text
(AST-normalised: comments, docstrings, formatting and annotations do not matter; statements, nesting,
parameter names and defaults do) they had when the model was last validated against them by the
correspondence check.

For every property Cxx a module `lean/NxsModel/Gen/PinsCxx.lean` is generated with one Bool per pinned
function and `all`; `Props/Cxx.lean` proves `source_pins : Gen.PinsCxx.all = true`.  A pinned function whose
body or parameter list changes turns its fact into `false`: the theorem stops checking, the property's check
reports the obligation as broken and searches for a failing input (and reports `no-failing-input-found` if
the change was harmless — the hand model then has to be re-validated and the snapshot renewed, by the owner:
`python3 harness/translate_pins.py --snapshot` after a clean correspondence run).

The snapshots live in harness/pins/<file>__<Class>__<func>.txt.
"""
import ast
import os
import re
import sys

HERE = os.path.dirname(os.path.abspath(__file__))
sys.path.insert(0, HERE)
from translate import Out, Missing, parse, find_class, body_text, sig_text, REPO  # noqa: E402

PINDIR = os.path.join(HERE, "pins")

COMM = "comm.py"
NX = "nxscope.py"
DEV = "dev.py"
THR = "thread.py"
SF = "proto/serialframe.py"
IF = "proto/iframe.py"
PA = "proto/parse.py"
PR = "proto/parserecv.py"
IP = "proto/iparse.py"
II = "intf/iintf.py"
SE = "intf/serial.py"
DU = "intf/dummy.py"

# what each property's hand model transcribes (file, class, function)
_SERIAL = [(SF, "SerialFrame", f) for f in ("__init__", "hdr_find", "hdr_decode", "foot_validate", "frame_decode", "frame_create")]
_RECV = [(PR, "ParseRecv", "recv_handle")]
_REASM = [(COMM, "CommHandler", f) for f in ("__init__", "_read_hdr", "_read_frame", "_recv_thread")] + \
         [(PA, "Parser", "frame_is_ack"), (PA, "Parser", "frame_is_stream")]
_REQ = [(PA, "Parser", f) for f in ("_frame_set_data", "_frame_set_single", "_frame_set_bulk", "_frame_set_all", "frame_start",
                                    "frame_cmninfo", "frame_chinfo", "frame_enable", "frame_div")] + \
       [(PR, "ParseRecv", f) for f in ("frame_set_decode", "frame_start_decode", "frame_enable_decode", "frame_div_decode")]
_INFO = [(PA, "Parser", f) for f in ("frame_cmninfo_decode", "frame_chinfo_decode", "frame_ack_decode")] + \
        [(PR, "ParseRecv", f) for f in ("frame_cmninfo_encode", "frame_chinfo_encode", "frame_ack_encode", "_cmninfo_data_encode",
                                         "_chinfo_data_encode")] + \
        [(PA, "Parser", "frame_is_ack"), (PA, "Parser", "frame_is_stream")] + \
        [(DEV, "DDeviceChannelData", "__post_init__"), (DEV, "DDeviceData", "__post_init__"), (DEV, "DeviceChannel", "__init__")]
_CFG = [(COMM, "CommHandler", f) for f in ("__init__", "_channel_enable", "_channel_div", "_nxslib_channels_enable", "_nxslib_channels_div",
                                            "_ch_divider_default", "_channels_init", "channels_write", "ch_enable", "ch_disable",
                                            "ch_divider", "ch_enable_all", "ch_disable_all", "channels_default_cfg",
                                            "ch_is_enabled", "ch_div_get", "_get_ack", "_get_frame")] + \
       [(NX, "NxscopeHandler", f) for f in ("__init__", "channels_default_cfg", "ch_enable", "ch_disable", "ch_disable_all", "ch_divider",
                                            "channels_write")] + \
       [(DEV, "Device", f) for f in ("en_channels_update", "div_channels_update")]
_LIFE = [(COMM, "CommHandler", f) for f in ("__init__", "_start", "_stop", "connect", "disconnect", "_drop_all", "_drop_all_frames",
                                             "_devinfo_get", "_nxslib_cmninfo", "_nxslib_chinfo", "stream_start", "stream_stop",
                                             "_get_stream_frame")] + \
        [(NX, "NxscopeHandler", f) for f in ("__init__", "_stream_start", "_stream_stop", "connect", "disconnect", "stream_start",
                                             "stream_stop", "stream_sub", "stream_unsub", "dev_channel_get")] + \
        [(THR, "ThreadCommon", f) for f in ("__init__", "_thread_loop", "thread_start", "thread_stop", "thread_is_alive",
                                            "stop_set", "_stop_is_set", "_stop_clear")]
_FAN = [(NX, "NxscopeHandler", f) for f in ("__init__", "_stream_thread", "stream_sub", "stream_unsub", "_stream_start", "_stream_stop",
                                            "stream_start", "stream_stop", "_reset_stats", "connect")] + \
       [(COMM, "CommHandler", f) for f in ("__init__", "stream_data", "_recv_thread", "_get_stream_frame", "ch_is_enabled", "_channels_init")] + \
       [(DEV, "DeviceChannel", "__init__"), (DEV, "Device", "channel_get"), (PA, "Parser", "frame_stream_decode")] + \
       [(THR, "ThreadCommon", f) for f in ("_thread_loop", "thread_start", "thread_stop")] + \
       [(COMM, "CommHandler", "_read_hdr"), (COMM, "CommHandler", "_read_frame"), (II, "CommInterfaceCommon", "read"),
        (PA, "Parser", "frame_is_stream")] + _SERIAL
_STREAMDEC = [(PA, "Parser", f) for f in ("_stream_data_get", "frame_stream_decode")] + \
             [(IP, None, f) for f in ("dsfmt_get", "msfmt_get")]
_STREAMENC = [(PR, "ParseRecv", f) for f in ("_stream_bytes_get", "_stream_data_encode", "frame_stream_encode")]
_PAD = [(II, "CommInterfaceCommon", f) for f in ("__init__", "write_padding", "data_align", "write", "read")]
_THREAD = [(THR, "ThreadCommon", f) for f in ("__init__", "_thread_loop", "thread_start", "thread_stop", "thread_is_alive",
                                              "stop_set", "_stop_is_set", "_stop_clear")]
_DUMMY = [(DU, "DummyDev", f) for f in ("__init__", "_cmninfo_cb", "_chinfo_cb", "_enable_cb", "_div_cb", "_start_cb",
                                         "_stream_data_get", "_thread_stream", "_thread_recv", "start", "stop", "_read", "_write",
                                         "drop_all")] + \
         [(DEV, "DeviceChannel", f) for f in ("__init__", "reset", "data_get")] + \
         [(DEV, "Device", f) for f in ("__init__", "reset", "channel_get", "channels_en", "channels_div")] + \
         [(DU, "ChannelFunc%d" % i, m) for i in range(10) for m in ("reset", "get")]
_REC = [(DEV, "DDeviceChannelData", f) for f in ("__post_init__", "__setattr__")] + \
       [(DEV, "DDeviceData", f) for f in ("__post_init__", "__setattr__")]
_SERIALDEV = [(SE, "SerialDevice", f) for f in ("__init__", "start", "stop", "drop_all", "_read", "_write")] + _PAD

PINS = {
    "C01": _SERIAL,
    "C02": _SERIAL + _RECV,
    "C03": _REASM + _SERIAL,
    "C04": _STREAMDEC,
    "C05": _REQ + _RECV + [(II, "CommInterfaceCommon", "data_align"), (DEV, "Device", "channels_en"), (DEV, "Device", "channels_div"),
                           (DEV, "Device", "channel_get"), (DEV, "DeviceChannel", "__init__")],
    "C06": _INFO + [(COMM, "CommHandler", "_devinfo_get"), (COMM, "CommHandler", "_nxslib_cmninfo"), (COMM, "CommHandler", "_nxslib_chinfo")],
    "C07": _CFG,
    "C08": _FAN,
    "C09": _LIFE + _CFG,
    "C10": _LIFE + _REASM + [(COMM, "CommHandler", f) for f in ("_get_ack", "_get_frame", "channels_write", "_nxslib_channels_enable",
                                                              "_nxslib_channels_div", "_channel_enable", "_channel_div",
                                                              "ch_disable_all", "stream_data")] +
           [(NX, "NxscopeHandler", f) for f in ("ch_disable_all", "channels_write", "_stream_thread")],
    "C11": _LIFE + _CFG,
    "C12": _CFG + _FAN,
    "C13": _THREAD,
    "C14": _DUMMY + _RECV + [(PR, "ParseRecv", f) for f in ("_cmninfo_data_encode", "_chinfo_data_encode", "frame_cmninfo_encode",
                                                           "frame_chinfo_encode", "frame_ack_encode", "frame_set_decode",
                                                           "frame_start_decode", "frame_enable_decode", "frame_div_decode")],
    "C15": _STREAMENC + _STREAMDEC,
    "C16": _DUMMY,
    "C17": _PAD + _RECV + _SERIAL + [(PA, "Parser", f) for f in ("__init__", "_frame_set_data", "_frame_set_single", "_frame_set_bulk",
                                                                 "_frame_set_all", "frame_start", "frame_cmninfo", "frame_chinfo",
                                                                 "frame_enable", "frame_div")] +
           [(DU, "DummyDev", "_write"), (DU, "DummyDev", "_thread_recv")],
    "C18": _SERIALDEV,
    "C19": _REC + [(DEV, "Device", "__init__"), (DEV, "Device", "channel_get"), (DEV, "DeviceChannel", "__init__")] +
           [(DEV, "Device", f) for f in ("channels_en", "channels_div", "en_channels_update", "div_channels_update")],   # DevRecords.lean
    "C20": _REASM + _RECV + [(PA, "Parser", "__init__"), (PR, "ParseRecv", "__init__")] + _REQ + _INFO[:6] + _STREAMENC + _STREAMDEC +
           [(PA, "Parser", f) for f in ("frame", "frame_is_ack", "frame_is_stream")] +
           [(PR, "ParseRecv", f) for f in ("_recv_cb_handle", "_cmninfo_data_encode", "_chinfo_data_encode")],
}


def _find(tree, cls, fn):
    scope = find_class(tree, cls) if cls else tree
    for n in scope.body:
        if isinstance(n, ast.FunctionDef) and n.name == fn:
            return n
        # property getter / setter pairs share a name: take them all in order
    raise Missing(f"function {cls + '.' if cls else ''}{fn}")


def _find_all(tree, cls, fn):
    scope = find_class(tree, cls) if cls else tree
    out = [n for n in scope.body if isinstance(n, ast.FunctionDef) and n.name == fn]
    if not out:
        raise Missing(f"function {cls + '.' if cls else ''}{fn}")
    return out


def pin_text(tree, cls, fn):
    parts = []
    for f in _find_all(tree, cls, fn):
        deco = " ".join("@" + ast.unparse(d) for d in f.decorator_list)
        parts.append(f"{deco} def {fn}({sig_text(f)}):".strip() + "\n" + body_text(f))
    return "\n".join(parts) + "\n"


def members_text(tree, cls):
    """bases and the names of everything defined in the class body (methods, class attributes), in order"""
    c = find_class(tree, cls)
    out = ["bases: " + ", ".join(ast.unparse(b) for b in c.bases)]
    for n in c.body:
        if isinstance(n, (ast.FunctionDef, ast.AsyncFunctionDef)):
            out.append("def " + n.name)
        elif isinstance(n, ast.ClassDef):
            out.append("class " + n.name)
        elif isinstance(n, ast.Assign):
            out.append("attr " + ", ".join(ast.unparse(t) for t in n.targets))
        elif isinstance(n, ast.AnnAssign):
            out.append("attr " + ast.unparse(n.target))
    return "\n".join(out) + "\n"


def pin_path(rel, cls, fn):
    return os.path.join(PINDIR, f"{rel.replace('/', '_')}__{cls or 'module'}__{fn}.txt")


def fact_name(rel, cls, fn):
    return re.sub(r"[^A-Za-z0-9]", "_", f"{os.path.splitext(os.path.basename(rel))[0]}_{cls or 'mod'}_{fn}").strip("_")


def gen_pins_for(pid):
    def gen(repo):
        o = Out("Pins" + pid, imports=())
        names = []
        seen = set()
        trees = {}
        for rel, cls, fn in PINS[pid]:
            if (rel, cls, fn) in seen:
                continue
            seen.add((rel, cls, fn))
            nm = fact_name(rel, cls, fn)
            names.append(nm)

            def check(rel=rel, cls=cls, fn=fn):
                if rel not in trees:
                    trees[rel] = parse(repo, rel)
                try:
                    want = open(pin_path(rel, cls, fn), encoding="utf-8").read()
                except FileNotFoundError:
                    raise Missing(f"no snapshot for {rel}:{cls}.{fn}")
                got = pin_text(trees[rel], cls, fn)
                if got != want:
                    raise Missing(f"{rel}: {cls + '.' if cls else ''}{fn} is not the function the model was validated against")
                return "true"
            o.d(nm, "Bool", check)
        # the member lists of the classes involved: a method ADDED to a class (an override in a subclass, a new dunder) is
        # invisible to per-function pins
        classes = []
        for rel, cls, fn in PINS[pid]:
            if cls and (rel, cls) not in classes:
                classes.append((rel, cls))
        for rel, cls in classes:
            nm = fact_name(rel, cls, "members") + "_"
            names.append(nm)

            def check_members(rel=rel, cls=cls):
                if rel not in trees:
                    trees[rel] = parse(repo, rel)
                try:
                    want = open(pin_path(rel, cls, "=members"), encoding="utf-8").read()
                except FileNotFoundError:
                    raise Missing(f"no member snapshot for {rel}:{cls}")
                if members_text(trees[rel], cls) != want:
                    raise Missing(f"{rel}: class {cls} has other members / bases than the class the model was validated against")
                return "true"
            o.d(nm, "Bool", check_members)
        o.raw("/-- every function the hand-written model of this property transcribes is textually the one it was validated against -/")
        o.raw("def all : Bool := " + (" && ".join(names) if names else "true"))
        return o
    gen.__name__ = "gen_pins" + pid
    return gen


GENERATORS = [gen_pins_for(pid) for pid in sorted(PINS)]


def snapshot(repo=REPO):
    os.makedirs(PINDIR, exist_ok=True)
    trees = {}
    n = 0
    keep = set()
    for pid in PINS:
        for rel, cls, fn in PINS[pid]:
            if rel not in trees:
                trees[rel] = parse(repo, rel)
            p = pin_path(rel, cls, fn)
            keep.add(os.path.basename(p))
            txt = pin_text(trees[rel], cls, fn)
            if not os.path.exists(p) or open(p, encoding="utf-8").read() != txt:
                with open(p, "w", encoding="utf-8") as f:
                    f.write(txt)
                n += 1
            if cls:
                pm = pin_path(rel, cls, "=members")
                keep.add(os.path.basename(pm))
                tm = members_text(trees[rel], cls)
                if not os.path.exists(pm) or open(pm, encoding="utf-8").read() != tm:
                    with open(pm, "w", encoding="utf-8") as f:
                        f.write(tm)
                    n += 1
    for f in os.listdir(PINDIR):
        if f not in keep:
            os.unlink(os.path.join(PINDIR, f))
    return n


if __name__ == "__main__":
    if "--snapshot" in sys.argv:
        print("snapshots written:", snapshot())
    else:
        for pid in sorted(PINS):
            o = gen_pins_for(pid)(REPO)
            bad = [k for k, v in o.facts.items() if v is None]
            print(pid, len(o.facts), "pins", ("CHANGED: " + ", ".join(bad)) if bad else "ok")
