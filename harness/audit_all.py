#!/usr/bin/env python3
"""Audit every Props module (incl. the cross-property compositions in Props/E2E.lean, which belong to no
single check): forbidden tokens in the import closure, `#print axioms` of every theorem.
usage: /venv/bin/python harness/audit_all.py"""
import os
import sys

HERE = os.path.dirname(os.path.abspath(__file__))
sys.path.insert(0, HERE)
import common  # noqa: E402

mods = sorted("NxsModel.Props." + f[:-5] for f in os.listdir(os.path.join(common.LEAN, "NxsModel", "Props")) if f.endswith(".lean"))
bad = 0
total = 0
axioms = set()
for m in mods:
    ok, rep = common.audit(m)
    total += len(rep["theorems"])
    for v in rep["axioms"].values():
        axioms.update(v)
    print(f"{m}: {len(rep['theorems'])} theorems, {'ok' if ok else 'PROBLEMS: ' + '; '.join(rep['problems'])}")
    bad += not ok
print(f"{total} theorems in {len(mods)} modules; axioms used: {sorted(axioms)}")
sys.exit(1 if bad else 0)
