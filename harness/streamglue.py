"""Glue between the model-level representation of stream samples and Python objects (trusted base;
DESIGN.md section 5/C04 "value glue").  Independent reference encoder/parser of the stream wire
format written from the NxScope protocol description.

The table `STD` below is written by hand from the NxScope documentation (type id -> struct letter = width and
signedness, bytes per value, fraction bits); nothing in this module reads nxslib's own type table
(`iparse.dsfmt_get`), so the reference parsing and the value judgement stay put when that table is edited.

Model syntax (see lean/NxsModel/Driver/Stream.lean):
  layout : `dtype:vdim:mlen[:x],…`       user : `ty/dtype/n.code+n.code;…`
           x (optional, ignored by the model — the decoder never reads these fields) tells `real_device` what
           else to put into the real device object: bit 0 critical type bit (0x80), bit 1 `en`, bits 2-3 the
           reserved type bits (0x20, 0x40), bits 6.. `div`; of channel 0 also bits 4-5 = device flags
  sample : `chan,dtype,vdim,mlen,[v;v],[m;m]`
  values : i:<int>  f:<hex8>  d:<hex16>  x:<raw>:<frac>  t:<hex>  t~<len>  b:<hex>  o:<0|1>
"""
import math
import struct
from fractions import Fraction

# NxScope standard sample types: code, size, fraction bits (None = not fixed point)
STD = {
    1: ("", 0, None), 2: ("B", 1, None), 3: ("b", 1, None), 4: ("H", 2, None), 5: ("h", 2, None),
    6: ("I", 4, None), 7: ("i", 4, None), 8: ("Q", 8, None), 9: ("q", 8, None), 10: ("f", 4, None),
    11: ("d", 8, None), 12: ("H", 2, 8), 13: ("h", 2, 8), 14: ("I", 4, 16), 15: ("i", 4, 16),
    16: ("Q", 8, 32), 17: ("q", 8, 32), 18: ("s", 1, None), 19: ("s", 1, None),
}
SIZE = {"B": 1, "b": 1, "?": 1, "c": 1, "s": 1, "H": 2, "h": 2, "I": 4, "i": 4, "f": 4, "Q": 8, "q": 8, "d": 8}
NUM, CHAR, COMPLEX, NONE = 1, 2, 3, 0       # the MODEL's codes of the data kinds (its sample syntax); nxslib's own numbers
KIND_NAMES = {NONE: "NONE", NUM: "NUM", CHAR: "CHAR", COMPLEX: "COMPLEX"}   # are never used: kinds are matched by NAME
META_SINGLE = {1: "B", 2: "H", 4: "I", 8: "Q"}


def hexs(b):
    return b.hex() if b else "-"


# ---- textual forms ----------------------------------------------------------------------------

def layout_str(layout, xs=None):
    if xs is None:
        return ",".join(f"{t}:{v}:{m}" for t, v, m in layout) or "-"
    return ",".join(f"{t}:{v}:{m}:{x}" for (t, v, m), x in zip(layout, xs)) or "-"


def parse_layout(s):
    """-> ([(ty, vdim, mlen)], [x] or None)"""
    if s == "-":
        return [], None
    rows = [tuple(int(x) for x in c.split(":")) for c in s.split(",")]
    xs = [r[3] for r in rows] if all(len(r) == 4 for r in rows) else None
    return [r[:3] for r in rows], xs


def user_str(user):
    """user: {ty: (dtype, [(n, code)])}"""
    if not user:
        return "-"
    return ";".join(f"{ty}/{dt}/" + "+".join(f"{n}.{c}" for n, c in items) for ty, (dt, items) in sorted(user.items()))


def user_fmt(items):
    return "".join((str(n) if (n != 1 or c == "s") else "") + c for n, c in items)


def user_size(items):
    return sum(n if c == "s" else n * SIZE[c] for n, c in items)


def user_atoms(items):
    out = []
    for n, c in items:
        if c == "s":
            out.append(("s", n))
        else:
            out += [(c, SIZE[c])] * n
    return out


# ---- real nxslib objects ------------------------------------------------------------------------

def real_device(layout, xs=None):
    from nxslib.dev import Device, DeviceChannel
    if xs is None:
        chans = [DeviceChannel(i, t, v, "c", mlen=m) for i, (t, v, m) in enumerate(layout)]
        return Device(len(chans), 0b11, 0, chans)
    chans = []
    for i, ((t, v, m), x) in enumerate(zip(layout, xs)):
        tb = (t & 0x1F) | (0x80 if x & 1 else 0) | (0x20 if x & 4 else 0) | (0x40 if x & 8 else 0)
        chans.append(DeviceChannel(i, tb, v, f"c{i}", en=bool(x & 2), div=(x >> 6) & 0xFF, mlen=m))
    return Device(len(chans), (xs[0] >> 4) & 3 if xs else 0, 0, chans)


def real_kind(dt):
    """model code of a data kind -> nxslib's enum member, by NAME (the numeric values of `EParseDataType` are nobody's
    business: no property mentions them); if a name is gone, by position in the enum's definition order"""
    from nxslib.proto.iparse import EParseDataType
    try:
        return EParseDataType[KIND_NAMES[dt]]
    except KeyError:
        members = list(EParseDataType)
        if len(members) == len(KIND_NAMES):
            return members[dt]
        raise


def kind_code(k):
    """a sample's `dtype` as nxslib returned it -> the model's code (by name / definition order); `?…` if it is no data kind"""
    from nxslib.proto.iparse import EParseDataType
    try:
        m = k if isinstance(k, EParseDataType) else EParseDataType(k)
    except ValueError:
        return f"?{k!r}"
    for code, name in KIND_NAMES.items():
        if m.name == name:
            return code
    members = list(EParseDataType)
    return members.index(m) if len(members) == len(KIND_NAMES) else f"?{m.name}"


def real_user(user):
    if not user:
        return None
    from nxslib.proto.iparse import DsfmtItem
    out = {}
    for ty, (dt, items) in user.items():
        cdec = [real_kind(NUM)] * len(user_atoms(items)) if dt == COMPLEX else None
        out[ty] = DsfmtItem(1, user_fmt(items), None, real_kind(dt), cdec, True)
    return out


def drop_kind(line):
    """a canonical decode line without the data-kind field of its samples (what the C04 oracle compares: the property
    speaks of channel id, values and metadata)"""
    t = line.split(" ")
    if len(t) != 3 or t[0] != "ok" or t[2] == "-":
        return line
    out = []
    for smp in t[2].split("|"):
        f = smp.split(",", 2)
        out.append(f"{f[0]},{f[2]}" if len(f) == 3 else smp)
    return f"{t[0]} {t[1]} " + "|".join(out)


# ---- reference wire format ------------------------------------------------------------------------

def ref_value_bytes(code, size, val):
    """val in model syntax -> little-endian wire bytes (independent of nxslib)"""
    k, _, rest = val.partition(":")
    if code in "BHIQ":
        v = int(rest.split(":")[0])
        return v.to_bytes(size, "little", signed=False)
    if code in "bhiq":
        v = int(rest.split(":")[0])
        return v.to_bytes(size, "little", signed=True)
    if code == "f":
        return int(rest, 16).to_bytes(4, "little")
    if code == "d":
        return int(rest, 16).to_bytes(8, "little")
    if code == "?":
        return bytes([int(rest)])
    if code in "cs":
        b = b"" if rest == "-" else bytes.fromhex(rest)
        return b[:size] + bytes(max(0, size - len(b)))
    raise ValueError(code)


def sample_atoms(ty, vdim, user):
    """[(code, size)] of the data part of one sample of a channel"""
    if ty in STD:
        code, size, _ = STD[ty]
        if code == "":
            return []
        if code == "s":
            return [("s", vdim)]
        return [(code, size)] * vdim
    dt, items = user[ty]
    return user_atoms(items)


def meta_atoms(mlen):
    if mlen == 0:
        return []
    if mlen in META_SINGLE:
        return [(META_SINGLE[mlen], mlen)]
    return [("B", 1)] * mlen


def ref_wire(layout, user, samples, flags=0):
    """samples: [(chan, [vals], [meta ints])] -> stream payload"""
    out = bytes([flags])
    for chan, vals, meta in samples:
        ty, vdim, mlen = layout[chan]
        out += bytes([chan])
        atoms = sample_atoms(ty, vdim, user)
        assert len(atoms) == len(vals), (atoms, vals)
        for (code, size), v in zip(atoms, vals):
            out += ref_value_bytes(code, size, v)
        for (code, size), m in zip(meta_atoms(mlen), meta):
            out += int(m).to_bytes(size, "little")
    return out


def ref_parse(layout, user, payload):
    """payload -> [(chan, [raw bytes per value atom], [raw bytes per meta atom])] or None if malformed"""
    i = 1
    out = []
    while i < len(payload):
        chan = payload[i]
        i += 1
        if chan >= len(layout):
            return None
        ty, vdim, mlen = layout[chan]
        vals = []
        for code, size in sample_atoms(ty, vdim, user):
            if i + size > len(payload):
                return None
            vals.append((code, payload[i:i + size]))
            i += size
        metas = []
        for code, size in meta_atoms(mlen):
            if i + size > len(payload):
                return None
            metas.append(payload[i:i + size])
            i += size
        out.append((chan, vals, metas))
    return out


def dtype_of(ty, user):
    if ty in STD:
        if ty == 1:
            return NONE
        return CHAR if ty in (18, 19) else NUM
    return user[ty][0]


def frac_of(ty):
    return STD[ty][2] if ty in STD else None


def valid_utf8(b):
    try:
        b.decode("utf-8")
        return True
    except UnicodeDecodeError:
        return False


# ---- canonicalisation of what the real decoder returned ----------------------------------------------

def canon_value(pyv, code, raw, frac, as_text):
    """Python value from nxslib's decoder -> model syntax, judged against the wire bytes `raw`"""
    if as_text:
        if not isinstance(pyv, str):
            return f"t!:{type(pyv).__name__}"
        if valid_utf8(raw):
            return "t:" + hexs(raw) if pyv.encode("utf-8") == raw else "t!:" + hexs(pyv.encode("utf-8", "replace"))
        return f"t~{len(raw)}"
    if code in "BHIQbhiq":
        rawint = int.from_bytes(raw, "little", signed=code.islower())
        if frac:
            if type(pyv) is float and pyv == float(Fraction(rawint, 2 ** frac)):
                return f"x:{rawint}:{frac}"
            return f"x!:{pyv!r}"
        # integers exactly: a Python int equal to the raw value as THIS module's table reads it from the wire
        # (width and signedness from `STD` / the user format, never from nxslib's table)
        if type(pyv) is int and pyv == rawint:
            return f"i:{rawint}"
        return f"i!:{type(pyv).__name__}:{pyv!r}"
    if code in "fd":
        n = 4 if code == "f" else 8
        if type(pyv) is not float:
            return f"{code}!:{pyv!r}"
        back = struct.pack("<" + code, pyv)
        rawv = struct.unpack("<" + code, raw)[0]
        if back == raw or (math.isnan(pyv) and math.isnan(rawv)):
            return f"{code}:" + format(int.from_bytes(raw, "little"), f"0{2 * n}x")
        return f"{code}!:{pyv!r}"
    if code == "?":
        return f"o:{int(pyv)}" if type(pyv) is bool and pyv == (raw != bytes(1)) else f"o!:{pyv!r}"
    if code in "cs":
        return "b:" + hexs(raw) if type(pyv) is bytes and pyv == raw else f"b!:{pyv!r}"
    return "?"


def canon_decoded(ds, layout, user, payload):
    """DParseStream | None -> model output line body"""
    if ds is None:
        return "ok none"
    parsed = ref_parse(layout, user, payload)
    out = []
    for k, s in enumerate(ds.samples):
        ty, vdim, mlen = layout[s.chan] if s.chan < len(layout) else (None, None, None)
        raws = parsed[k] if parsed is not None and k < len(parsed) else None
        vals = []
        for j, v in enumerate(s.data):
            if raws is None or j >= len(raws[1]):
                vals.append("noraw")
                continue
            code, raw = raws[1][j]
            dt = dtype_of(ty, user)
            as_text = dt == CHAR and len(s.data) == 1
            vals.append(canon_value(v, code, raw, frac_of(ty), as_text))
        out.append(f"{s.chan},{kind_code(s.dtype)},{s.vdim},{s.mlen},[{';'.join(vals)}],[{';'.join(str(int(m)) for m in s.meta)}]")
    return f"ok {ds.flags} " + ("|".join(out) or "-")


# ---- model samples -> real DParseStreamData ----------------------------------------------------------------

def py_value(val, code=None):
    k, _, rest = val.partition(":")
    if k == "i":
        return int(rest)
    if k == "f":
        return struct.unpack("<f", int(rest, 16).to_bytes(4, "little"))[0]
    if k == "d":
        return struct.unpack("<d", int(rest, 16).to_bytes(8, "little"))[0]
    if k == "x":
        raw, frac = rest.split(":")
        return float(Fraction(int(raw), 2 ** int(frac)))
    if k == "t":
        return (b"" if rest == "-" else bytes.fromhex(rest)).decode("utf-8")
    if k == "b":
        return b"" if rest == "-" else bytes.fromhex(rest)
    if k == "o":
        return bool(int(rest))
    raise ValueError(val)


def parse_sample(s):
    c, dt, vd, ml, rest = s.split(",", 4)
    data, meta = rest.split("],[")
    data = data[1:]
    meta = meta[:-1]
    return int(c), int(dt), int(vd), int(ml), ([] if data == "" else data.split(";")), ([] if meta == "" else [int(x) for x in meta.split(";")])


def real_samples(samples_str):
    from nxslib.proto.iparse import DParseStreamData
    if samples_str == "-":
        return []
    out = []
    for s in samples_str.split("|"):
        c, dt, vd, ml, data, meta = parse_sample(s)
        out.append(DParseStreamData(c, dt, vd, ml, tuple(py_value(v) for v in data), tuple(meta)))
    return out


# ---- reporting -------------------------------------------------------------------------------------------------------------

def first_difference(want, got, kind=True):
    """where two canonical decode lines (`ok <flags> <sample>|<sample>…`) first differ: a short human-readable note"""
    w, g = want.split(" "), got.split(" ")
    if len(w) < 3 or len(g) < 3 or w[0] != "ok" or g[0] != "ok":
        return f"expected {want[:120]!r}, observed {got[:120]!r}"
    if w[1] != g[1]:
        return f"flags byte: expected {w[1]}, observed {g[1]}"
    ws, gs = w[2].split("|"), g[2].split("|")
    nk = (lambda x: x) if kind else (lambda x: ",".join(x.split(",", 2)[::2]))
    for k, (a, b) in enumerate(zip(ws, gs)):
        if nk(a) != nk(b):
            try:
                pa, pb = parse_sample(a), parse_sample(b)
                for name, x, y in zip(("chan", "dtype", "vdim", "mlen"), pa[:4], pb[:4]):
                    if x != y and (kind or name != "dtype"):
                        return f"sample #{k}: {name} expected {x}, observed {y}"
                for j, (x, y) in enumerate(zip(pa[4], pb[4])):
                    if x != y:
                        return f"sample #{k} (channel {pa[0]}), value #{j}: expected {x}, observed {y}"
                if len(pa[4]) != len(pb[4]):
                    return f"sample #{k} (channel {pa[0]}): {len(pa[4])} values expected, {len(pb[4])} observed"
                return f"sample #{k} (channel {pa[0]}), metadata: expected {pa[5][:16]}, observed {pb[5][:16]}"
            except Exception:
                return f"sample #{k}: expected {a[:100]}, observed {b[:100]}"
    return f"{len(ws)} samples expected, {len(gs)} observed"
