"""Generators contributed by the per-property slices; picked up by translate.run()."""
GENERATORS = []
try:
    from translate_thread import gen_thread
    GENERATORS.append(gen_thread)
except ImportError:
    pass
