"""Generators contributed by the per-property slices; picked up by translate.run()."""
GENERATORS = []
try:
    from translate_thread import gen_thread
    GENERATORS.append(gen_thread)
except ImportError:
    pass
try:
    from translate_frameuse import gen_frameuse
    GENERATORS.append(gen_frameuse)
except ImportError:
    pass
try:
    from translate_serial import gen_serialintf
    GENERATORS.append(gen_serialintf)
except ImportError:
    pass
try:
    from translate_locks import gen_locks
    GENERATORS.append(gen_locks)
except ImportError:
    pass
try:
    from translate_dummy import gen_dummy
    GENERATORS.append(gen_dummy)
except ImportError:
    pass
try:
    from translate_pins import GENERATORS as _PIN_GENS
    GENERATORS.extend(_PIN_GENS)
except ImportError:
    pass
