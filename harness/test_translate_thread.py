#!/usr/bin/env python3
"""Regression test of harness/translate_thread.py (the thread.py -> ThreadIR translator of C13).

Feeds hand-mutated copies of /repo/src/nxslib/thread.py to the translator and checks

  1. the generated program differs from the pinned one exactly where the mutation is
     (statement order is preserved by the translation), and
  2. (unless --no-lean) in a scratch copy of the Lean project — never in /verif/lean — the
     kernel check `certified c (R c)` of C13 (init ∈ R, R closed, all safety predicates hold on R)
     FAILS for the three harmful mutations, still SUCCEEDS for the pinned source and for a
     harmless reordering, and a statement outside the understood subset yields
     `translator_site_missing_Thread_…` (so the build fails naming the site).

Usage: /venv/bin/python harness/test_translate_thread.py [--no-lean] [--repo /repo]
Exit code 0 = all expectations met.
"""
from __future__ import annotations

import concurrent.futures
import os
import shutil
import subprocess
import sys
import tempfile

HERE = os.path.dirname(os.path.abspath(__file__))
sys.path.insert(0, HERE)
import translate_thread as TT  # noqa: E402

LEAN = os.path.join(os.path.dirname(HERE), "lean")

CLEAR_AFTER_START = ("clear-after-start", '''            self._stop_clear()
            self._thrd = threading.Thread(
                target=self._thread_loop, name=self._name
            )
            self._thrd.start()
''', '''            self._thrd = threading.Thread(
                target=self._thread_loop, name=self._name
            )
            self._thrd.start()
            self._stop_clear()
''')
JOIN_DROPPED = ("join-dropped", '''        if self.thread_is_alive():  # pragma: no cover
            self._thrd.join()
''', '''        if self.thread_is_alive():  # pragma: no cover
            pass
''')
TEST_AFTER_TARGET = ("flag-tested-after-target", '''        while not self._stop_is_set():
            self._target()
''', '''        while True:
            self._target()
            if self._stop_is_set():
                break
''')
HARMLESS = ("harmless-clear-between-create-and-start", '''            self._stop_clear()
            self._thrd = threading.Thread(
                target=self._thread_loop, name=self._name
            )
            self._thrd.start()
''', '''            self._thrd = threading.Thread(
                target=self._thread_loop, name=self._name
            )
            self._stop_clear()
            self._thrd.start()
''')
UNKNOWN = ("unknown-statement", '''            self._target()
''', '''            self._target()
            print("tick")
''')
HELPER_CHANGED = ("helper-not-the-primitive", '''        return self._stop_flag.is_set()
''', '''        return not self._stop_flag.is_set()
''')


def ops(rows):
    return [r[0] for r in rows]


def mutated_repo(tmp, name, old, new, base):
    assert old in base, f"{name}: pattern not found in thread.py (source changed?)"
    d = os.path.join(tmp, name)
    os.makedirs(os.path.join(d, "src", "nxslib"))
    with open(os.path.join(d, "src", "nxslib", "thread.py"), "w") as f:
        f.write(base.replace(old, new))
    return d


def lean_check(tmp, name, gen_text):
    """build Worker.lean against gen_text in a scratch project and kernel-check the certificate.
    returns (certificate_holds, output)"""
    d = os.path.join(tmp, "lean_" + name)
    os.makedirs(os.path.join(d, "NxsModel", "Gen"))
    for f in ("lakefile.toml", "lake-manifest.json", "lean-toolchain"):
        if os.path.exists(os.path.join(LEAN, f)):
            shutil.copy(os.path.join(LEAN, f), d)
    for f in ("ThreadIR.lean", "Worker.lean"):
        shutil.copy(os.path.join(LEAN, "NxsModel", f), os.path.join(d, "NxsModel", f))
    with open(os.path.join(d, "NxsModel", "Gen", "Thread.lean"), "w") as f:
        f.write(gen_text)
    with open(os.path.join(d, "NxsModel.lean"), "w") as f:
        f.write("import NxsModel.Worker\n")
    with open(os.path.join(d, "Main.lean"), "w") as f:
        f.write("def main : IO Unit := pure ()\n")
    with open(os.path.join(d, "Cert.lean"), "w") as f:
        f.write("import NxsModel.Worker\nopen Nxs.Worker\n"
                "theorem cert_tt : certified ⟨true, true⟩ (R ⟨true, true⟩) = true := by decide +kernel\n"
                "theorem cert_ff : certified ⟨false, false⟩ (R ⟨false, false⟩) = true := by decide +kernel\n")
    env = dict(os.environ, PATH="/opt/veriftools/lean/bin:" + os.environ.get("PATH", ""))
    p = subprocess.run(["lake", "build", "NxsModel.Worker"], cwd=d, capture_output=True, text=True, env=env, timeout=900)
    if p.returncode != 0:
        return False, "model build failed: " + (p.stdout + p.stderr)[-600:]
    p = subprocess.run(["lake", "env", "lean", "Cert.lean"], cwd=d, capture_output=True, text=True, env=env, timeout=900)
    return p.returncode == 0, (p.stdout + p.stderr)[-600:]


def main(argv):
    repo = argv[argv.index("--repo") + 1] if "--repo" in argv else os.environ.get("NXS_REPO", "/repo")
    with_lean = "--no-lean" not in argv
    base = open(os.path.join(repo, "src", "nxslib", "thread.py")).read()
    fails = []

    def expect(cond, msg):
        print(("ok   " if cond else "FAIL ") + msg)
        if not cond:
            fails.append(msg)

    tmp = tempfile.mkdtemp(prefix="tt_thread_")
    try:
        base_rows = TT.compile_all(repo)
        base_text = TT.gen_thread(repo).text()
        expect("translator_site_missing" not in base_text, "pinned source translates without missing sites")
        expect(ops(base_rows["_thread_loop"]) == ["testInit", "callInit", "testStop", "callTarget", "testFinal",
                                                  "callFinal", "ret"], "pinned _thread_loop is init/test/target/final")
        texts = {"pinned": base_text}
        # 1. clear after start
        r = mutated_repo(tmp, *CLEAR_AFTER_START, base)
        rows = TT.compile_all(r)
        o = ops(rows["thread_start"])
        expect(o.index("clearFlag") > o.index("startThread") > o.index("createThread"),
               "clear-after-start: clear-flag now follows start-thread in thread_start")
        expect(rows["_thread_loop"] == base_rows["_thread_loop"], "clear-after-start: _thread_loop unchanged")
        texts["clear-after-start"] = TT.gen_thread(r).text()
        # 2. join dropped
        r = mutated_repo(tmp, *JOIN_DROPPED, base)
        rows = TT.compile_all(r)
        expect("join" not in ops(rows["thread_stop"]) and "join" in ops(base_rows["thread_stop"]),
               "join-dropped: no join instruction in thread_stop any more")
        texts["join-dropped"] = TT.gen_thread(r).text()
        # 3. flag tested after the target call
        r = mutated_repo(tmp, *TEST_AFTER_TARGET, base)
        rows = TT.compile_all(r)
        o = ops(rows["_thread_loop"])
        expect(o.index("callTarget") < o.index("testStop"), "flag-tested-after-target: call-target precedes test-stop-flag")
        ts = rows["_thread_loop"][o.index("testStop")]
        expect(ts[2] == o.index("callTarget"), "flag-tested-after-target: flag clear jumps back to the target call")
        texts["flag-tested-after-target"] = TT.gen_thread(r).text()
        # 4. harmless reordering
        r = mutated_repo(tmp, *HARMLESS, base)
        rows = TT.compile_all(r)
        o = ops(rows["thread_start"])
        expect(o.index("createThread") < o.index("clearFlag") < o.index("startThread"),
               "harmless: clear-flag between create-thread and start-thread")
        texts["harmless"] = TT.gen_thread(r).text()
        for k, t in texts.items():
            if k != "pinned":
                expect(t != base_text, f"{k}: generated file differs from the pinned one")
        # 5. shapes the translator does not understand
        for mut in (UNKNOWN, HELPER_CHANGED):
            r = mutated_repo(tmp, *mut, base)
            t = TT.gen_thread(r).text()
            expect("translator_site_missing_Thread_threadLoop" in t, f"{mut[0]}: site reported missing, nothing guessed")
        if with_lean:
            want = {"pinned": True, "harmless": True, "clear-after-start": False, "join-dropped": False,
                    "flag-tested-after-target": False}
            with concurrent.futures.ThreadPoolExecutor(max_workers=5) as ex:
                futs = {k: ex.submit(lean_check, tmp, k, t) for k, t in texts.items()}
                for k, f in futs.items():
                    holds, out = f.result()
                    if want[k]:
                        expect(holds, f"lean: certificate holds for {k}" + ("" if holds else " — " + out))
                    else:
                        expect((not holds) and "is false" in out,
                               f"lean: `decide` refutes the certificate for {k}" + ("" if not holds else " — it passed!"))
    finally:
        shutil.rmtree(tmp, ignore_errors=True)
    print(f"{'FAILED' if fails else 'passed'}: {len(fails)} failing expectation(s)")
    return 1 if fails else 0


if __name__ == "__main__":
    sys.exit(main(sys.argv[1:]))
