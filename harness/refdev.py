"""Reference NxScope device + simulated link, written from the protocol description (independent of
nxslib's device-side code).  Used as the harness-owned device of C07 C09 C10 C11 C20 and as the
oracle for C14.

RefDevice(chans, flags, rxpadding, codec, policy)
  chans  : list of dicts {en, type, vdim, div, mlen, name}
  policy : callable(device, kind, req) -> action, per decoded request; actions:
           "ack" | ("nack", r) | "applied-ack-lost" | "lost" | "wrong-frame" | "garbage" | "silent"
           ("silent" = this and all later requests are lost); for get requests "ack" means "answer".
  .log   : [(virtual time, kind, detail)] of every decoded request
SimLink(sim, device) : ICommInterface whose reads never block longer than `poll` virtual seconds.
"""
import struct

from ref import ref_crc16_xmodem, ref_frame

STREAM, CMNINFO, CHINFO, ACK, START, ENABLE, DIV = 1, 2, 3, 4, 5, 6, 7


class SerialCodec:
    """the built-in framing, independent implementation"""
    name = "serial"
    sof = 0x55
    hdr_len = 4
    foot_len = 2

    def create(self, fid, payload):
        return ref_frame(fid, payload)

    def find(self, data, start=0):
        return data.find(bytes([self.sof]), start)

    def decode_at(self, data, i):
        """(fid, payload, total length) of a valid frame starting at i, else None"""
        if len(data) - i < 4 or data[i] != 0x55:
            return None
        flen = data[i + 1] | data[i + 2] << 8
        fid = data[i + 3]
        if fid > 8 or flen < 6 or i + flen > len(data):
            return None
        if ref_crc16_xmodem(data[i:i + flen]) != 0:
            return None
        return fid, data[i + 4:i + flen - 2], flen


class RefDevice:
    def __init__(self, chans, flags=3, rxpadding=0, codec=None, policy=None, now=lambda: 0.0):
        self.chans = [dict(c) for c in chans]
        self.flags = flags
        self.rxpadding = rxpadding
        self.codec = codec or SerialCodec()
        self.policy = policy or (lambda dev, kind, req: "ack")
        self.started = False
        self.rx = bytearray()          # bytes waiting for the client
        self.log = []
        self.silent = False
        self.now = now
        self.stream_cntr = 0
        self.nreq = 0

    # -- state views -------------------------------------------------------------------------------------
    @property
    def en(self):
        return [bool(c["en"]) for c in self.chans]

    @property
    def div(self):
        return [int(c["div"]) for c in self.chans]

    def ack_supported(self):
        return bool(self.flags & 2)

    # -- wire ----------------------------------------------------------------------------------------------
    def _send(self, fid, payload):
        self.rx += self.codec.create(fid, payload)

    def _ack(self, r=0):
        if self.ack_supported():
            self._send(ACK, struct.pack("<i", r))

    def on_write(self, data):
        """a conforming receiver: first start byte, declared length, checksum; everything else ignored"""
        i = self.codec.find(data)
        if i < 0:
            return
        fr = self.codec.decode_at(data, i)
        if fr is None:
            return
        fid, p, _ = fr
        self.handle(fid, p)

    def handle(self, fid, p):
        kind = {CMNINFO: "cmninfo", CHINFO: "chinfo", START: "start", ENABLE: "enable", DIV: "div"}.get(fid)
        if kind is None:
            return
        ok_len = {"cmninfo": len(p) == 0, "chinfo": len(p) == 1, "start": len(p) == 1,
                  "enable": len(p) >= 3, "div": len(p) >= 3}[kind]
        if not ok_len:
            return
        self.nreq += 1
        self.log.append((self.now(), kind, bytes(p)))
        if self.silent:
            return
        act = self.policy(self, kind, bytes(p))
        if act == "silent":
            self.silent = True
            return
        if act == "lost":
            return
        if act == "garbage":
            self.rx += bytes([0x13, 0x37, 0x55, 0x01, 0xFF, 0x00, 0x55])
            return
        if act == "wrong-frame":
            # a well-formed frame of a kind the client is not waiting for
            if kind == "cmninfo":
                self._send(CHINFO, bytes([0, 2, 1, 0, 0]) + b"x")
            elif kind == "chinfo":
                self._send(CMNINFO, bytes([len(self.chans), self.flags, self.rxpadding]))
            else:
                self._send(CMNINFO, bytes([len(self.chans), self.flags, self.rxpadding]))
            return
        if act == "short":
            # a frame of the expected kind whose payload is too short to unpack
            self._send({"cmninfo": CMNINFO, "chinfo": CHINFO}.get(kind, ACK), b"\x01")
            return
        nack = act[1] if isinstance(act, tuple) and act[0] == "nack" else None
        if kind == "cmninfo":
            self._send(CMNINFO, bytes([len(self.chans), self.flags, self.rxpadding]))
        elif kind == "chinfo":
            c = p[0]
            if c < len(self.chans):
                ch = self.chans[c]
                self._send(CHINFO, bytes([int(bool(ch["en"])), ch["type"], ch["vdim"], ch["div"], ch["mlen"]])
                           + ch["name"].encode("utf-8"))
        elif kind == "start":
            if nack is None:
                self.started = p[0] != 0
            if act != "applied-ack-lost":
                self._ack(0 if nack is None else nack)
        else:
            if nack is None:
                self._apply_set(kind, p)
            if act != "applied-ack-lost":
                self._ack(0 if nack is None else nack)

    def _apply_set(self, kind, p):
        key = "en" if kind == "enable" else "div"
        conv = (lambda b: b != 0) if kind == "enable" else (lambda b: b)
        flags, chan = p[0], p[1]
        n = len(self.chans)
        if flags == 0 and chan < n:
            self.chans[chan][key] = conv(p[2])
        elif flags == 2:
            for c in self.chans:
                c[key] = conv(p[2])
        elif flags == 1 and len(p) >= 2 + n:
            for i, c in enumerate(self.chans):
                c[key] = conv(p[2 + i])

    # -- streaming ---------------------------------------------------------------------------------------------
    def stream_tick(self):
        """one stream frame with one sample of every enabled channel (values derived from a counter)"""
        if not self.started:
            return
        body = bytearray([0])
        for i, ch in enumerate(self.chans):
            if not ch["en"]:
                continue
            body.append(i)
            body += self.sample_bytes(ch, self.stream_cntr)
            body += bytes((self.stream_cntr + k) & 0xFF for k in range(ch["mlen"]))
        self.stream_cntr += 1
        if len(body) > 1:
            self._send(STREAM, bytes(body))

    @staticmethod
    def sample_bytes(ch, cntr):
        import streamglue as sg
        t = ch["type"] & 0x1F
        code, size, _ = sg.STD[t]
        if code == "":
            return b""
        if code == "s":
            return (b"s%d" % cntr + bytes(ch["vdim"]))[:ch["vdim"]]
        out = b""
        for k in range(ch["vdim"]):
            if code in "fd":
                out += struct.pack("<" + code, float(cntr + k))
            else:
                out += ((cntr + k) % (1 << (8 * size - 1))).to_bytes(size, "little")
        return out


def make_link(sim, device, poll=0.01, chunker=None, stream_every=None):
    """ICommInterface over the reference device inside the simulation `sim`"""
    from nxslib.intf.iintf import ICommInterface

    class SimLink(ICommInterface):
        def __init__(self):
            super().__init__()
            self.started = 0
            self.stopped = 0
            self.writes = []
            self.reads = 0

        def start(self):
            self.started += 1

        def stop(self):
            self.stopped += 1

        def drop_all(self):
            pass

        def _read(self):
            self.reads += 1
            if stream_every and self.reads % stream_every == 0:
                device.stream_tick()
            ok = sim.block(lambda: len(device.rx) > 0, poll, "link-read")
            if not ok:
                return b""
            n = len(device.rx) if chunker is None else max(1, min(len(device.rx), chunker(len(device.rx))))
            out = bytes(device.rx[:n])
            del device.rx[:n]
            return out

        def _write(self, data):
            self.writes.append(bytes(data))
            sim.yield_("link-write")
            device.on_write(bytes(data))

    device.now = lambda: sim.now
    return SimLink()
