#!/usr/bin/env python3
"""Regression test of harness/translate_frameuse.py (static scan of codec uses / frame literals, C20).

Feeds hand-mutated copies of /repo/src/nxslib to the scan and checks that each mutation is reported by the rule
that is meant to see it (and that the pinned source is clean).  No Lean involved: the generated Booleans
`noFrameLiterals`, `receiveUsesComplete`, `buildersUseCodec`, `interfaceShape` are what `Props/C20.lean` decides.

Usage: /venv/bin/python harness/test_translate_frameuse.py [--repo /repo]
Exit code 0 = all expectations met.
"""
from __future__ import annotations

import os
import shutil
import sys
import tempfile

HERE = os.path.dirname(os.path.abspath(__file__))
sys.path.insert(0, HERE)
import translate_frameuse as TF  # noqa: E402

# (name, file, old, new, fact that must become false, substring of the finding)
MUTS = [
    ("size-literal-in-read-hdr", "comm.py", "if len(_bytes) < self._parse.frame.hdr_len:\n                # hdr candidate",
     "if len(_bytes) < 4:\n                # hdr candidate", "noFrameLiterals", "size literal 4"),
    ("module-constant-bound", "comm.py", "            hdr = self._parse.frame.hdr_decode(data=_bytes)\n",
     "            hdr = self._parse.frame.hdr_decode(data=_bytes)\n            if hdr.flen > FRAME_LEN_MAX:\n                return None, None\n",
     "noFrameLiterals", "module-level constant FRAME_LEN_MAX"),
    ("literal-in-helper", "comm.py", "        # get possible frame\n        possible_frame = _bytes[: hdr.flen]\n",
     "        # get possible frame\n        possible_frame = self._crop(_bytes, hdr)\n",
     "noFrameLiterals", "size literal 1024"),
    ("class-constant", "proto/parserecv.py", "        if hdr.flen > len(data):\n            return\n",
     "        if hdr.flen > len(data) or hdr.flen > self._MAXREQ:\n            return\n", "noFrameLiterals",
     "class-level constant _MAXREQ"),
    ("valid-property", "comm.py", "if hdr.err is not EParseError.NOERR:  # pragma: no cover\n                # drop 1 byte",
     "if not hdr.valid:  # pragma: no cover\n                # drop 1 byte", "noFrameLiterals", ".valid"),
    ("err-compared-with-hdr", "proto/parserecv.py", "        if hdr.err is not EParseError.NOERR:\n            return\n",
     "        if hdr.err is EParseError.HDR:\n            return\n", "noFrameLiterals", "not tested as"),
    ("find-in-recv-thread", "comm.py", "        frame = self._read_frame()\n        if frame:",
     "        frame = self._read_frame()\n        if frame and self._prev_read.find(b\"\\x00\") != 2:", "noFrameLiterals", ".find("),
    ("chinfo-cache", "proto/parserecv.py",
     "        _bytes = self._chinfo_data_encode(chan)\n        return self._frame.frame_create(EParseId.CHINFO, _bytes)\n",
     "        _bytes = self._chinfo_data_encode(chan)\n        frame = self._cache.get(_bytes)\n        if frame is None:\n"
     "            frame = self._frame.frame_create(EParseId.CHINFO, _bytes)\n            self._cache[_bytes] = frame\n        return frame\n",
     "buildersUseCodec", "frame_chinfo_encode"),
    ("builder-bypasses-codec", "proto/parse.py", "        return self._frame.frame_create(EParseId.CMNINFO, None)\n",
     "        return SerialFrame().frame_create(EParseId.CMNINFO, None)\n", "buildersUseCodec", "frame_cmninfo"),
    ("interface-singleton", "proto/iframe.py", "    \"\"\"The Nxslib frame interface.\"\"\"\n",
     "    \"\"\"The Nxslib frame interface.\"\"\"\n\n    _instance = None\n\n    def __new__(cls):\n        if cls._instance is None:\n"
     "            cls._instance = super().__new__(cls)\n        return cls._instance\n", "interfaceShape", "__new__"),
    ("result-record-property", "proto/iframe.py", "    flen: int = 0\n    err: EParseError = EParseError.NOERR\n",
     "    flen: int = 0\n    err: EParseError = EParseError.NOERR\n\n    @property\n    def valid(self):\n        return self.err is not EParseError.HDR\n",
     "interfaceShape", "valid"),
    ("sof-literal-in-iparserecv", "proto/iparserecv.py", "\"\"\"", "SOF = 0x55\n\"\"\"", "noFrameLiterals", "0x55"),
    # R6: frame ids compared by identity (reviewer edit E20a and its siblings)
    ("fid-is-stream", "proto/parse.py", "        return frame.fid == EParseId.STREAM\n", "        return frame.fid is EParseId.STREAM\n",
     "noFrameLiterals", "frame id compared by identity"),
    ("fid-is-ack", "proto/parse.py", "        return frame.fid == EParseId.ACK\n", "        return frame.fid is EParseId.ACK\n",
     "noFrameLiterals", "frame id compared by identity"),
    ("fid-is-not-in-decoder", "proto/parse.py", "        if frame.fid != EParseId.CMNINFO:\n", "        if frame.fid is not EParseId.CMNINFO:\n",
     "noFrameLiterals", "frame id compared by identity"),
    ("fid-is-in-dispatch", "proto/parserecv.py", "        elif fid == EParseId.START:\n", "        elif fid is EParseId.START:\n",
     "noFrameLiterals", "frame id compared by identity"),
    # the wrapper table: frame_enable / frame_div end in a `_frame_set_*` builder in every branch
    ("wrapper-edits-frame", "proto/parse.py", "            return self._frame_set_all(EParseId.ENABLE, data)\n",
     "            return self._frame_set_all(EParseId.ENABLE, data)[:6] + b\"\\x00\\x00\"\n", "buildersUseCodec", "frame_enable"),
    ("wrapper-bypasses-builders", "proto/parse.py", "            return self._frame_set_single(EParseId.DIV, data, chan)\n",
     "            return self._frame.frame_create(EParseId.DIV, bytes([0, chan]) + data)\n", "buildersUseCodec", "frame_div"),
    ("wrapper-caches", "proto/parse.py", "        return self._frame_set_bulk(EParseId.DIV, data)\n",
     "        frame = self._frame_set_bulk(EParseId.DIV, data)\n        self._last_div = frame\n        return self._last_div\n",
     "buildersUseCodec", "frame_div"),
]
EXTRA_SRC = {"literal-in-helper": ("comm.py", "    def _drop_all_frames(self) -> None:",
                                   "    def _crop(self, b, hdr):\n        return b[-1024:][: hdr.flen]\n\n    def _drop_all_frames(self) -> None:"),
             "module-constant-bound": ("comm.py", "if TYPE_CHECKING:\n", "FRAME_LEN_MAX = 0xFFFF\nif TYPE_CHECKING:\n"),
             "class-constant": ("proto/parserecv.py", "    def __init__(\n        self,\n        cb: ParseRecvCb,",
                                "    _MAXREQ = 64\n\n    def __init__(\n        self,\n        cb: ParseRecvCb,")}


def facts(repo):
    o = TF.gen_frameuse(repo)
    f = o.facts
    return {"noFrameLiterals": not f["literals"], "receiveUsesComplete": not f["missing"],
            "buildersUseCodec": all(n == 1 and ok for (_, _, n, ok) in f["builders"])
            and all(n != 0 and ok for (_, _, n, ok) in f["wrappers"]),
            "interfaceShape": not f["interface"]}, f


def main():
    repo = "/repo"
    if "--repo" in sys.argv:
        repo = sys.argv[sys.argv.index("--repo") + 1]
    bad = 0
    fs, raw = facts(repo)
    if not all(fs.values()):
        print("FAIL pinned source is not clean:", fs, raw["literals"], raw["interface"])
        bad += 1
    else:
        print("ok   pinned source clean:", fs)
    for name, rel, old, new, fact, needle in MUTS:
        tmp = tempfile.mkdtemp(prefix="frameuse_")
        try:
            shutil.copytree(os.path.join(repo, "src"), os.path.join(tmp, "src"))
            edits = [(rel, old, new)] + ([EXTRA_SRC[name]] if name in EXTRA_SRC else [])
            for r, o_, n_ in edits:
                p = os.path.join(tmp, "src", "nxslib", r)
                src = open(p).read()
                if o_ not in src:
                    print(f"FAIL {name}: edit site not found in {r}")
                    bad += 1
                    break
                open(p, "w").write(src.replace(o_, n_, 1))
            else:
                fs, raw = facts(tmp)
                text = repr(raw["literals"]) + repr(raw["interface"]) + repr([b for b in raw["builders"] if not (b[2] == 1 and b[3])]) \
                    + repr([w for w in raw["wrappers"] if not (w[2] != 0 and w[3])])
                if fs[fact] or needle not in text:
                    print(f"FAIL {name}: expected {fact} = false with a finding mentioning {needle!r}; got {fs} {text[:300]}")
                    bad += 1
                else:
                    print(f"ok   {name}: {fact} = false")
        finally:
            shutil.rmtree(tmp, ignore_errors=True)
    print("all expectations met" if not bad else f"{bad} expectation(s) failed")
    return 1 if bad else 0


if __name__ == "__main__":
    sys.exit(main())
