"""Shared check pipeline: translate -> build -> audit -> correspondence -> (search) -> evidence.

Every property module (harness/props/Cxx.py) provides a `Prop` subclass instance `PROP`.
Run through /verif/check.
"""
from __future__ import annotations

import fcntl
import hashlib
import json
import os
import random
import re
import subprocess
import sys
import time
import traceback

HERE = os.path.dirname(os.path.abspath(__file__))
ROOT = os.path.dirname(HERE)
LEAN = os.path.join(ROOT, "lean")
REPO = os.environ.get("NXS_REPO", "/repo")
DRIVER = os.path.join(LEAN, ".lake", "build", "bin", "nxsdriver")
EVID = os.path.join(ROOT, "evidence")
REPLAYS = os.path.join(ROOT, "replays")
ALLOWED_AXIOMS = {"propext", "Classical.choice", "Quot.sound"}
FORBIDDEN = re.compile(r"\b(sorry|admit|native_decide|bv_decide|implemented_by|unsafe)\b|^\s*axiom\s|maxHeartbeats\s+0\b")

sys.path.insert(0, HERE)
if os.path.join(REPO, "src") not in sys.path:
    sys.path.insert(0, os.path.join(REPO, "src"))

import translate  # noqa: E402
import logging  # noqa: E402

logging.disable(logging.CRITICAL)  # nxslib logs every rejected frame; keep check output readable


def log(*a):
    print(*a, flush=True)


class Lock:
    """serialise translate+lake between concurrently running checks"""

    def __enter__(self):
        os.makedirs(os.path.join(LEAN, ".lake"), exist_ok=True)
        self.f = open(os.path.join(LEAN, ".lake", "verif.lock"), "w")
        fcntl.flock(self.f, fcntl.LOCK_EX)
        return self

    def __exit__(self, *a):
        fcntl.flock(self.f, fcntl.LOCK_UN)
        self.f.close()


def run_cmd(cmd, cwd=None, timeout=3600, inp=None):
    p = subprocess.run(cmd, cwd=cwd, input=inp, capture_output=True, text=True, timeout=timeout)
    return p.returncode, p.stdout, p.stderr


def lake_build(targets, timeout=3600):
    rc, out, err = run_cmd(["lake", "build"] + list(targets), cwd=LEAN, timeout=timeout)
    msgs = [l for l in (out + err).splitlines() if not l.startswith("trace:")]
    return rc == 0, "\n".join(msgs[-60:])


def strip_comments(text):
    text = re.sub(r"/-.*?-/", "", text, flags=re.S)
    text = re.sub(r"--.*", "", text)
    return text


def lean_closure(module):
    """source files of the import closure of `module` inside NxsModel"""
    seen = {}
    todo = [module]
    while todo:
        m = todo.pop()
        if m in seen or not m.startswith("NxsModel"):
            continue
        path = os.path.join(LEAN, *m.split(".")) + ".lean"
        try:
            src = open(path, encoding="utf-8").read()
        except FileNotFoundError:
            continue
        seen[m] = path
        for mm in re.findall(r"^import\s+(\S+)", src, flags=re.M):
            todo.append(mm)
    return seen


def prop_modules(prop):
    """the property's theorem module plus, when present, its source-pin module (Props/PinsCxx.lean)"""
    mods = [prop.lean_module]
    pins = f"NxsModel.Props.Pins{prop.id}"
    if os.path.exists(os.path.join(LEAN, *pins.split(".")) + ".lean"):
        mods.append(pins)
    return mods


def theorem_names(module):
    if isinstance(module, (list, tuple)):
        return [n for m in module for n in theorem_names(m)]
    path = os.path.join(LEAN, *module.split(".")) + ".lean"
    src = strip_comments(open(path, encoding="utf-8").read())
    ns = re.findall(r"^namespace\s+(\S+)", src, flags=re.M)
    prefix = ns[0] + "." if ns else ""
    return [prefix + n for n in re.findall(r"^theorem\s+(\S+)", src, flags=re.M)]


def audit(module):
    """(ok, report): forbidden tokens in the closure's sources; axioms of every theorem of module"""
    if isinstance(module, (list, tuple)):
        ok, rep = True, {"theorems": [], "axioms": {}, "problems": []}
        for m in module:
            o, r = audit(m)
            ok = ok and o
            rep["theorems"] += r["theorems"]
            rep["axioms"].update(r["axioms"])
            rep["problems"] += r["problems"]
        return ok, rep
    problems = []
    for m, path in lean_closure(module).items():
        body = strip_comments(open(path, encoding="utf-8").read())
        for i, line in enumerate(body.splitlines(), 1):
            if FORBIDDEN.search(line):
                problems.append(f"{m}:{i}: forbidden token: {line.strip()[:80]}")
    names = theorem_names(module)
    if not names:
        problems.append(f"{module}: no theorems")
    src = f"import {module}\n" + "".join(f"#print axioms {n}\n" for n in names)
    tmp = os.path.join(LEAN, ".lake", f"audit_{module.split('.')[-1]}_{os.getpid()}.lean")
    with open(tmp, "w") as f:
        f.write(src)
    try:
        rc, out, err = run_cmd(["lake", "env", "lean", tmp], cwd=LEAN, timeout=1200)
    finally:
        os.unlink(tmp)
    axioms = {}
    text = out + err
    for mm in re.finditer(r"'([^']+)' depends on axioms: \[([^\]]*)\]", text):
        axioms[mm.group(1)] = [a.strip() for a in mm.group(2).replace("\n", " ").split(",") if a.strip()]
    for mm in re.finditer(r"'([^']+)' does not depend on any axioms", text):
        axioms[mm.group(1)] = []
    for n in names:
        if n not in axioms:
            problems.append(f"{n}: no axiom report (rc={rc}) {text[-300:] if rc else ''}")
        else:
            bad = [a for a in axioms[n] if a not in ALLOWED_AXIOMS]
            if bad:
                problems.append(f"{n}: disallowed axioms {bad}")
    return (not problems), {"theorems": names, "axioms": axioms, "problems": problems}


_driver_proc = None


def driver_run(lines, timeout=3600):
    """run the compiled model driver over the lines; returns list of output lines"""
    if not lines:
        return []
    inp = "\n".join(lines) + "\n"
    rc, out, err = run_cmd([DRIVER], inp=inp, timeout=timeout)
    if rc != 0:
        raise RuntimeError(f"driver failed rc={rc}: {err[-500:]}")
    res = out.split("\n")
    if res and res[-1] == "":
        res.pop()
    if len(res) != len(lines):
        raise RuntimeError(f"driver returned {len(res)} lines for {len(lines)} inputs")
    return res


def hexs(b):
    return b.hex() if b else "-"


def unhex(s):
    return b"" if s == "-" else bytes.fromhex(s)


def exc_name(e):
    import struct as _s
    if isinstance(e, _s.error):
        return "struct"
    return {"AssertionError": "assert", "ValueError": "value", "KeyError": "key", "IndexError": "index",
            "UnicodeDecodeError": "unicode", "UnicodeEncodeError": "unicode", "TypeError": "type",
            "OverflowError": "overflow", "TimeoutError": "timeout", "UnboundLocalError": "unbound",
            "AttributeError": "attr"}.get(type(e).__name__, "exc:" + type(e).__name__)


class Prop:
    """Base class of a property check."""
    id = "C00"
    lean_module = "NxsModel.Props.C00"
    level = "proof"
    trusted_base = ["Lean 4.33.0 kernel", "axioms: propext, Classical.choice, Quot.sound",
                    "harness/translate.py (generated definitions are what the source says)",
                    "correspondence harness canonicalisation"]
    assumptions: list[str] = []
    rule = ""

    # -- to override --------------------------------------------------------------------
    def cases(self, rng, tier):
        """yield (driver_line, tag) — tag names the generator branch (for the distribution)"""
        return []

    def impl(self, line):
        """run the real code on the case; return the canonical output line"""
        raise NotImplementedError

    def oracle(self, line, impl_out=None):
        """the property itself, independent of model and nxslib internals.
        Return None if the real code satisfies the property on this case, else a dict
        {key, what, expected, observed}."""
        return None

    def search_cases(self, rng):
        """extra targeted cases for the failing-input search"""
        return []

    def nontrivial(self, line, out):
        return True

    def extra_checks(self, rng, tier, ev):
        """additional property-specific checks; return list of violation dicts"""
        return []

    def replay(self, obj):
        """re-execute a replay file's failing input on the real code; returns the violation dict or None"""
        return self.oracle(obj["case"])

    def deep_search(self, rng):
        """failing-input search beyond the line-protocol cases (only run when a step broke or in the thorough
        tier): e.g. real-time scenarios. Returns a list of violation dicts."""
        return []


import contextlib  # noqa: E402


@contextlib.contextmanager
def debug_logging():
    """run the block with the library's logger enabled at DEBUG (output discarded)"""
    lg = logging.getLogger("nxslib")
    old_level, old_prop, old_disable = lg.level, lg.propagate, logging.root.manager.disable
    h = logging.NullHandler()
    lg.addHandler(h)
    lg.setLevel(logging.DEBUG)
    lg.propagate = False
    logging.disable(logging.NOTSET)
    try:
        yield
    finally:
        logging.disable(old_disable)
        lg.setLevel(old_level)
        lg.propagate = old_prop
        lg.removeHandler(h)


def load_known():
    p = os.path.join(ROOT, "known_findings.json")
    try:
        return json.load(open(p))
    except FileNotFoundError:
        return {"known": [], "fixed": []}


def write_replay(pid, obj):
    d = os.path.join(REPLAYS, pid)
    os.makedirs(d, exist_ok=True)
    blob = json.dumps(obj, sort_keys=True, indent=1, default=str)
    h = hashlib.sha1(blob.encode()).hexdigest()[:12]
    path = os.path.join(d, f"{h}.json")
    with open(path, "w") as f:
        f.write(blob + "\n")
    return os.path.relpath(path, ROOT)


def corpus_cases(pid):
    d = os.path.join(HERE, "corpus", pid)
    out = []
    if os.path.isdir(d):
        for fn in sorted(os.listdir(d)):
            for l in open(os.path.join(d, fn)):
                l = l.strip()
                if l and not l.startswith("#"):
                    out.append((l, "corpus"))
    return out


def run_check(prop: Prop, tier: str, seed: int) -> int:
    t0 = time.time()
    pid = prop.id
    rng = random.Random(f"{pid}:{seed}:{tier}")
    broken = []      # list of (kind, detail)
    ev = {"property_id": pid, "tier": tier, "seed": seed, "level": prop.level, "coverage": {}, "wall_s": 0.0,
          "violations": 0, "assumptions": list(prop.assumptions)}
    cov = ev["coverage"]

    # 1 translate + 2 build + 3 audit (serialised across concurrent checks)
    with Lock():
        tr = translate.run(REPO)
        # an extraction site that is gone concerns the properties whose theorems import that generated module
        # (Bool shape facts become `false`, so the module and the driver still build for everybody else)
        mods = prop_modules(prop)
        closure = {m for mod in mods for m in lean_closure(mod)}
        missing = [m for k, v in tr.items() for m in v["missing"] if f"NxsModel.Gen.{k}" in closure]
        others = [m for k, v in tr.items() for m in v["missing"] if f"NxsModel.Gen.{k}" not in closure]
        cov["translator"] = {k: ("changed" if v["changed"] else "same") for k, v in tr.items()}
        if others:
            cov["translator_sites_missing_elsewhere"] = [m.split("  --")[0].strip() for m in others]
        if missing:
            broken.append(("translate", "extraction sites not found: " + "; ".join(missing)))
        if tier == "thorough":
            # rebuild the property's own modules from clean
            for m in closure:
                if ".Props." in m or ".Lemmas." in m:
                    for ext in ("olean", "ilean", "olean.hash", "ilean.hash", "trace", "c", "c.hash"):
                        p = os.path.join(LEAN, ".lake", "build", "lib", "lean", *m.split(".")) + "." + ext
                        if os.path.exists(p):
                            os.unlink(p)
        ok_model, msg_model = lake_build(["nxsdriver"])
        if not ok_model:
            broken.append(("build-model", msg_model))
        ok_thm, msg_thm = lake_build(mods)
        if not ok_thm:
            broken.append(("build-theorems", msg_thm))
        aud = {"theorems": [], "axioms": {}, "problems": []}
        if ok_thm:
            ok_a, aud = audit(mods)
            if not ok_a:
                broken.append(("audit", "; ".join(aud["problems"])))
            if tier == "thorough":
                rc, out, err = run_cmd(["lake", "env", "leanchecker"] + mods, cwd=LEAN, timeout=3600)
                cov["leanchecker"] = "ok" if rc == 0 else f"rc={rc} {(out + err)[-300:]}"
                if rc != 0:
                    broken.append(("leanchecker", (out + err)[-400:]))
    n_thm = len(aud["theorems"]) if ok_thm else len(theorem_names(mods))
    cov["obligations"] = n_thm
    cov["discharged"] = n_thm if (ok_thm and not any(k in ("audit", "leanchecker") for k, _ in broken)) else 0
    cov["theorems"] = aud["theorems"] if ok_thm else theorem_names(mods)
    cov["axioms_used"] = sorted({a for v in aud["axioms"].values() for a in v})
    cov["checker_cmd"] = f"lake build {' '.join(mods)} && lake env lean <#print axioms of every theorem>" + \
        (f" && lake env leanchecker {' '.join(mods)}" if tier == "thorough" else "")
    cov["trusted_base"] = prop.trusted_base

    # 4 correspondence
    cases = corpus_cases(pid) + list(prop.cases(rng, tier))
    lines = [c[0] for c in cases]
    tags = {}
    for _, t in cases:
        tags[t] = tags.get(t, 0) + 1
    impl_out = []
    stuck = 0
    for l in lines:
        if stuck >= 3:
            # the real code repeatedly failed to come back within the scenario's time budget: do not
            # spend the whole run on it — the cases evaluated so far go to the failing-input search
            impl_out.append("skipped-after-timeouts")
            continue
        try:
            o = prop.impl(l)
            impl_out.append(o)
            if any(k in o for k in ("RealTimeLimit", "TimeLimit(", "Spin(", "Deadlock(")):
                stuck += 1
        except (KeyboardInterrupt, SystemExit):
            raise
        except BaseException as e:  # noqa: BLE001 - harness bug, unexpected exception kind, or a simulation verdict
            impl_out.append("harness-exc " + type(e).__name__ + ": " + str(e)[:100])
            if type(e).__name__ in ("RealTimeLimit", "TimeLimit", "Spin", "Deadlock"):
                stuck += 1
    disagreements = []
    model_out = None
    if ok_model:
        try:
            model_out = driver_run(lines)
        except Exception as e:
            broken.append(("driver", str(e)))
    if model_out is not None:
        for l, a, b in zip(lines, impl_out, model_out):
            if a != b:
                disagreements.append({"case": l, "impl": a, "model": b})
        if disagreements:
            broken.append(("correspondence", f"{len(disagreements)} of {len(lines)} cases differ; first: "
                           + json.dumps(disagreements[0])))
    distinct = len({(l, o) for l, o in zip(lines, impl_out) if prop.nontrivial(l, o)})
    kinds = {}
    for o in impl_out:
        k = " ".join(o.split(" ")[:2]) if o.startswith("err") else o.split(" ")[0]
        kinds[k] = kinds.get(k, 0) + 1
    cov["evaluations"] = len(lines)
    cov["distinct_nontrivial"] = distinct
    cov["rule"] = prop.rule
    cov["generator_branches"] = tags
    cov["outcome_kinds"] = kinds
    cov["disagreements"] = len(disagreements)
    cov["samples"] = [{"case": l, "impl": a} for l, a in list(zip(lines, impl_out))[:: max(1, len(lines) // 6)][:8]]

    violations = []
    # property-specific extra checks (both tiers); they return concrete violations on the real code
    try:
        violations += prop.extra_checks(rng, tier, ev) or []
    except (KeyboardInterrupt, SystemExit):
        raise
    except BaseException as e:  # noqa: BLE001
        broken.append(("extra-checks", traceback.format_exc()[-800:]))

    # 5 failing-input search: always in thorough (cross-check), and whenever something broke;
    #   the regression corpus (inputs of repaired defects, minimised past failures) always goes through the oracle
    oracle_runs = 0
    seen = set()
    for l, _ in corpus_cases(pid):
        seen.add(l)
        oracle_runs += 1
        try:
            v = prop.oracle(l)
        except (KeyboardInterrupt, SystemExit):
            raise
        except BaseException as e:  # noqa: BLE001
            v = {"key": "oracle-exception", "what": f"oracle raised {type(e).__name__}: {e}", "case": l}
        if v:
            v.setdefault("case", l)
            violations.append(v)
    if not broken and tier != "thorough" and stuck < 3:
        # quick tier with nothing broken: the independent oracle still judges a time-boxed random sample of the
        # cases (a change under which model and code move together, or which the translator reads into both the
        # model and the specification, is seen only by the oracle)
        t_or = time.time()
        sample = [l for l in lines if l not in seen]
        random.Random(seed * 7919 + 13).shuffle(sample)
        budget = float(os.environ.get("VERIF_QUICK_ORACLE_S", "6"))
        for l in sample[:400]:
            if time.time() - t_or > budget:
                break
            seen.add(l)
            oracle_runs += 1
            try:
                v = prop.oracle(l)
            except (KeyboardInterrupt, SystemExit):
                raise
            except BaseException as e:  # noqa: BLE001
                v = {"key": "oracle-exception", "what": f"oracle raised {type(e).__name__}: {e}", "case": l}
            if v:
                v.setdefault("case", l)
                violations.append(v)
                if len(violations) >= 6:
                    break
        cov["quick_oracle_sample"] = oracle_runs
    if broken or tier == "thorough":
        stuck_lines = [l for l, o in zip(lines, impl_out)
                       if any(k in o for k in ("RealTimeLimit", "TimeLimit", "Spin", "Deadlock", "harness-exc"))]
        pool = stuck_lines + [d["case"] for d in disagreements] + lines + [c[0] for c in prop.search_cases(rng)]
        for l in pool:
            if l in seen:
                continue
            if stuck >= 3 and (len(violations) >= 2 or oracle_runs >= 12):
                break
            seen.add(l)
            oracle_runs += 1
            try:
                v = prop.oracle(l)
            except (KeyboardInterrupt, SystemExit):
                raise
            except BaseException as e:  # noqa: BLE001
                v = {"key": "oracle-exception", "what": f"oracle raised {type(e).__name__}: {e}", "case": l}
            if v:
                v.setdefault("case", l)
                violations.append(v)
                if len(violations) >= 20:
                    break
        if len(violations) < 20:
            try:
                violations += prop.deep_search(rng) or []
            except Exception:
                broken.append(("deep-search", traceback.format_exc()[-600:]))
        if broken and not violations:
            # a configuration dimension of the process: the library's logger at DEBUG (code under `isEnabledFor(DEBUG)`
            # only runs then); the oracle judges a bounded share of the pool again
            with debug_logging():
                for l in pool[:300]:
                    oracle_runs += 1
                    try:
                        v = prop.oracle(l)
                    except (KeyboardInterrupt, SystemExit):
                        raise
                    except BaseException as e:  # noqa: BLE001
                        v = {"key": "oracle-exception", "what": f"oracle raised {type(e).__name__}: {e}", "case": l}
                    if v:
                        v.setdefault("case", l)
                        v["what"] = "with the `nxslib` logger at DEBUG: " + str(v.get("what", ""))
                        v["environment"] = "logging.getLogger('nxslib').setLevel(logging.DEBUG)"
                        violations.append(v)
                        if len(violations) >= 3:
                            break
    cov["oracle_runs"] = oracle_runs

    # 6 report
    known = load_known()
    kn = {(k["property"], k["key"]): k for k in known.get("known", [])}
    rc = 0
    reported = set()
    for v in violations:
        key = (pid, v.get("key", ""))
        if key in reported:
            continue
        reported.add(key)
        if key in kn:
            log(f"KNOWN-FINDING: property={pid} {kn[key]['what']}")
            continue
        path = write_replay(pid, {"property": pid, "kind": "failing-input", **v,
                                  "how_to_replay": f"./check {pid} --replay <this file>",
                                  "broken_steps": [k for k, _ in broken]})
        log(f"VIOLATION property={pid} replay={path}")
        rc = 1
    if broken and rc == 0:
        # (a known finding among the violations does not explain a broken obligation: known findings are re-found
        #  on every run, also on the unchanged tree, where nothing is broken)
        path = write_replay(pid, {"property": pid, "kind": "obligation-broken",
                                  "broken": [{"step": k, "detail": d[-3000:]} for k, d in broken],
                                  "theorems": cov["theorems"],
                                  "note": "proof obligation or correspondence no longer checks; the failing-input "
                                          "search over the disagreeing cases, the corpus and the targeted generator "
                                          f"({oracle_runs} oracle runs) found no input on which the real code breaks "
                                          "the property"})
        log(f"VIOLATION property={pid} replay={path} no-failing-input-found")
        rc = 1
    if broken:
        for k, d in broken:
            log(f"[{pid}] broken step {k}: {d[:600]}")
    ev["violations"] = len(violations) if rc else 0
    ev["wall_s"] = round(time.time() - t0, 2)
    os.makedirs(EVID, exist_ok=True)
    with open(os.path.join(EVID, f"{pid}.json"), "w") as f:
        json.dump(ev, f, indent=1, default=str)
        f.write("\n")
    log(f"[{pid}] {tier} seed={seed}: theorems={cov['obligations']} discharged={cov['discharged']} "
        f"cases={len(lines)} disagreements={len(disagreements)} violations={len(violations)} "
        f"wall={ev['wall_s']}s -> exit {rc}")
    return rc


def run_replay(prop: Prop, path: str) -> int:
    obj = json.load(open(path))
    if obj.get("kind") != "failing-input":
        log(f"[{prop.id}] replay names a broken obligation, not an input: {[b['step'] for b in obj.get('broken', [])]}")
        return 1
    v = prop.replay(obj)
    if v:
        log(f"[{prop.id}] replay reproduces: {v.get('what')}")
        log(f"VIOLATION property={prop.id} replay={path}")
        return 1
    log(f"[{prop.id}] replay passes on the current tree")
    return 0
