"""Translator part for intf/dummy.py -> lean/NxsModel/Gen/Dummy.lean   (pure `ast`, nxslib is never imported)

Facts extracted (each with the syntactic shape it expects; an unknown shape gives
`translator_site_missing_Dummy_<what>` so the Lean build fails naming the site):
  defaultCopied        `channels = copy.deepcopy(DUMMY_DEV_CHANNELS)` in the `if not channels:` branch of __init__
  ackGuard{Enable,Div,Start}   the ACK put of each set/start callback sits under `if self._dummydev.data.ack_supported:`
  applies{Enable,Div}  `for chid, x in enumerate(decoded): chan = channel_get(chid); assert chan; chan.data.<f> = x`
  streamWaitsStarted   `_thread_stream` produces only inside `if self._stream_started.wait(...)`
  streamOnlyEnabled    `_stream_data_get` takes a channel only under `if chan.data.en is True:`
  streamLoopShape      `for _ in range(snum): for chid in range(chmax)` (rounds outside, channels inside)
  startResets          `start()` calls `self._dummydev.reset()`; `Device.reset` resets every channel; `DeviceChannel.reset`
                       resets the attached function
  resetZeroesCalls     `DeviceChannel.reset` ends with `self._cntr = 0` at function level (the call counter handed to
                       `func.get(cntr)` restarts with the generators — finding F19); `data_get` increments it on every call
  stopDrainsOne        `stop()` takes at most one item from each queue with get_nowait
  defaultSnum / defaultFlags / default channel table (type, vdim, mlen, name, generator class)
  generator constants  ChannelFunc1/2/6/7/8/9 literals, ChannelFunc5/7 data tuples
"""
from __future__ import annotations

import ast
import re

from translate import Missing, Out, find_class, find_func, lean_bool, parse, unparse


def _ifs(node):
    return [n for n in ast.walk(node) if isinstance(n, ast.If)]


def _body_src(stmts):
    return "\n".join(unparse(s) for s in stmts)


def gen_dummy(repo) -> Out:
    o = Out("Dummy", imports=("NxsModel.Struct",))
    t = parse(repo, "intf/dummy.py")
    tdev = parse(repo, "dev.py")
    D = find_class(t, "DummyDev")

    # ---- constructor ---------------------------------------------------------------------------------
    def default_copied():
        f = find_func(D, "__init__")
        for i in _ifs(f):
            if unparse(i.test) == "not channels":
                for s in i.body:
                    if isinstance(s, ast.Assign) and unparse(s.targets[0]) == "channels":
                        v = unparse(s.value)
                        if v == "copy.deepcopy(DUMMY_DEV_CHANNELS)":
                            return True
                        if v == "DUMMY_DEV_CHANNELS":
                            return False
                        raise Missing(f"__init__: channels = {v}")
        raise Missing("__init__: `if not channels:` branch assigning `channels`")
    o.d("defaultCopied", "Bool", lambda: lean_bool(default_copied()),
        "the default channel list is deep-copied per instance")

    def ctor_shape():
        f = find_func(D, "__init__")
        s = unparse(f)
        for need in ["self._dummydev = Device(chmax, flags, rxpadding, channels)", "self._stream_snum = stream_snum",
                     "self._qwrite: queue.Queue[bytes] = queue.Queue()", "self._qread: queue.Queue[bytes] = queue.Queue()",
                     "self._stream_started = Event()", "chmax = DUMMY_DEV_CHMAX"]:
            if need not in s:
                raise Missing(f"__init__: {need}")
        return "true"
    o.d("ctorShape", "Bool", ctor_shape, "Device(chmax, flags, rxpadding, channels); two FIFO queues; start event")

    def default_arg(name):
        f = find_func(D, "__init__")
        args = f.args.args
        defs = f.args.defaults
        off = len(args) - len(defs)
        for i, a in enumerate(args):
            if a.arg == name and i >= off:
                return defs[i - off]
        raise Missing(f"__init__ default of {name}")

    def snum():
        v = default_arg("stream_snum")
        if isinstance(v, ast.Constant) and isinstance(v.value, int):
            return str(v.value)
        raise Missing("stream_snum default literal")
    o.d("defaultSnum", "Nat", snum)

    def dflags():
        if unparse(default_arg("flags")) != "DUMMY_DEV_FLAGS":
            raise Missing("flags default DUMMY_DEV_FLAGS")
        for s in t.body:
            if isinstance(s, ast.Assign) and unparse(s.targets[0]) == "DUMMY_DEV_FLAGS":
                v = unparse(s.value)
                if v == "EDeviceFlags.DIVIDER_SUPPORT.value + EDeviceFlags.ACK_SUPPORT.value":
                    return "3"
                raise Missing(f"DUMMY_DEV_FLAGS = {v}")
        raise Missing("DUMMY_DEV_FLAGS")
    o.d("defaultFlags", "Nat", dflags)

    def drxp():
        v = default_arg("rxpadding")
        if isinstance(v, ast.Constant) and isinstance(v.value, int):
            return str(v.value)
        raise Missing("rxpadding default literal")
    o.d("defaultRxpadding", "Nat", drxp)

    # ---- callbacks -----------------------------------------------------------------------------------
    ACK = ["_bytes = self._parse.frame_ack_encode(0)", "self._qread.put(_bytes)"]

    def ack_guard(fname):
        f = find_func(D, fname)
        guarded = 0
        for i in _ifs(f):
            if unparse(i.test) == "self._dummydev.data.ack_supported" and [unparse(x) for x in i.body] == ACK and not i.orelse:
                guarded += 1
        # every put of an ACK frame in the function must be inside such an `if`
        puts = unparse(f).count("self._parse.frame_ack_encode(")
        if puts == 0:
            raise Missing(f"{fname}: no ACK is sent")
        return guarded == 1 and puts == 1
    o.d("ackGuardEnable", "Bool", lambda: lean_bool(ack_guard("_enable_cb")), "ACK only under `if ack_supported`")
    o.d("ackGuardDiv", "Bool", lambda: lean_bool(ack_guard("_div_cb")))
    o.d("ackGuardStart", "Bool", lambda: lean_bool(ack_guard("_start_cb")))

    def applies_en():
        f = find_func(D, "_enable_cb")
        s = unparse(f)
        pat = (r"enables = self\._parse\.frame_enable_decode\(data, self\._dummydev\)\n\s+for chid, en in enumerate\(enables\):\n"
               r"\s+chan = self\._dummydev\.channel_get\(chid\)\n\s+assert chan\n\s+chan\.data\.en = en\n")
        if not re.search(pat, s):
            raise Missing("_enable_cb: for chid, en in enumerate(enables): chan = channel_get(chid); assert chan; chan.data.en = en")
        return "true"

    def applies_div():
        f = find_func(D, "_div_cb")
        s = unparse(f)
        pat = (r"dividers = self\._parse\.frame_div_decode\(data, self\._dummydev\)\n\s+for chid, div in enumerate\(dividers\):\n"
               r"\s+chan = self\._dummydev\.channel_get\(chid\)\n\s+assert chan\n\s+chan\.data\.div = div\n")
        if not re.search(pat, s):
            raise Missing("_div_cb: for chid, div in enumerate(dividers): chan = channel_get(chid); assert chan; chan.data.div = div")
        return "true"
    o.d("appliesEnable", "Bool", applies_en, "value i of the decoded vector goes to channel i")
    o.d("appliesDiv", "Bool", applies_div)

    def start_cb():
        f = find_func(D, "_start_cb")
        s = unparse(f)
        if not re.search(r"start = self\._parse\.frame_start_decode\(data\)\n\s+if start is True:\n\s+self\._stream_started\.set\(\)\n"
                         r"\s+else:\n\s+self\._stream_started\.clear\(\)", s):
            raise Missing("_start_cb: decode; if start is True: set() else: clear()")
        return "true"
    o.d("startCbShape", "Bool", start_cb)

    def info_cbs():
        c = unparse(find_func(D, "_cmninfo_cb"))
        h = unparse(find_func(D, "_chinfo_cb"))
        if "_bytes = self._parse.frame_cmninfo_encode(self._dummydev)" not in c or "self._qread.put(_bytes)" not in c:
            raise Missing("_cmninfo_cb: encode device, put")
        if not re.search(r"chan = self\._dummydev\.channel_get\(data\[0\]\)\n\s+assert chan\n\s+_bytes = self\._parse\.frame_chinfo_encode\(chan\)", h) \
           or "self._qread.put(_bytes)" not in h:
            raise Missing("_chinfo_cb: channel_get(data[0]); assert chan; encode; put")
        return "true"
    o.d("infoCbShape", "Bool", info_cbs)

    # ---- stream thread ---------------------------------------------------------------------------------
    def stream_waits():
        f = find_func(D, "_thread_stream")
        prod = "self._stream_data_get(self._stream_snum)"
        s = unparse(f)
        if prod not in s:
            raise Missing("_thread_stream: samples = self._stream_data_get(self._stream_snum)")
        for i in _ifs(f):
            if re.fullmatch(r"self\._stream_started\.wait\(timeout=[\d.]+\)", unparse(i.test)):
                b = _body_src(i.body)
                inside = prod in b and "self._parse.frame_stream_encode(samples)" in b and "self._qread.put(frame)" in b
                outside = s.count(prod) == 1 and s.count("self._qread.put(") == 1
                return inside and outside and not i.orelse
        return False
    o.d("streamWaitsStarted", "Bool", lambda: lean_bool(stream_waits()), "samples are produced only when the start event is set")

    def only_enabled():
        f = find_func(D, "_stream_data_get")
        gets = [n for n in ast.walk(f) if isinstance(n, ast.Call) and unparse(n.func) == "chan.data_get"]
        if len(gets) != 1:
            raise Missing("_stream_data_get: exactly one chan.data_get()")
        for i in _ifs(f):
            if unparse(i.test) in ("chan.data.en is True", "chan.data.en"):
                if any(n is gets[0] for n in ast.walk(i)) and not i.orelse:
                    return True
        return False
    o.d("streamOnlyEnabled", "Bool", lambda: lean_bool(only_enabled()), "data_get() only under `if chan.data.en is True`")

    def loop_shape():
        f = find_func(D, "_stream_data_get")
        s = unparse(f)
        if not re.search(r"for _ in range\(snum\):\n\s+for chid in range\(self\._dummydev\.data\.chmax\):\n\s+chan = self\._dummydev\.channel_get\(chid\)\n\s+assert chan\n", s):
            raise Missing("_stream_data_get: for _ in range(snum): for chid in range(chmax): chan = channel_get(chid); assert chan")
        if not re.search(r"data = chan\.data_get\(\)\n\s+if data:\n\s+sample = DParseStreamData\(chan=chid, dtype=chan\.data\.dtype, vdim=chan\.data\.vdim, "
                         r"mlen=chan\.data\.mlen, data=data\.data, meta=data\.meta\)\n\s+samples\.append\(sample\)", s):
            raise Missing("_stream_data_get: data = chan.data_get(); if data: sample = DParseStreamData(chan=chid, dtype, vdim, mlen, data, meta); append")
        return "true"
    o.d("streamLoopShape", "Bool", loop_shape, "snum rounds, channels in order inside, None results skipped")

    # ---- start / stop ------------------------------------------------------------------------------------
    def start_resets():
        f = find_func(D, "start")
        calls = [unparse(s) for s in ast.walk(f) if isinstance(s, ast.Expr)]
        ok = "self._dummydev.reset()" in calls
        if ok:
            # must come before the threads are started
            s = unparse(f)
            ok = s.index("self._dummydev.reset()") < s.index("self._thrd_recv.thread_start()")
        return ok
    o.d("startResets", "Bool", lambda: lean_bool(start_resets()), "start() resets the device before starting the threads")

    def dev_reset():
        Dev = find_class(tdev, "Device")
        r = unparse(find_func(Dev, "reset"))
        if not re.search(r"for chan in self\._channels:\n\s+chan\.reset\(\)", r):
            raise Missing("Device.reset: for chan in self._channels: chan.reset()")
        Ch = find_class(tdev, "DeviceChannel")
        c = unparse(find_func(Ch, "reset"))
        if not re.search(r"if self\._func is not None:\n\s+self\._func\.reset\(\)", c):
            raise Missing("DeviceChannel.reset: if self._func is not None: self._func.reset()")
        g = unparse(find_func(Ch, "data_get"))
        if not re.search(r"if self\._func is not None:\n\s+ret = self\._func\.get\(self\._cntr\)\n\s+self\._cntr \+= 1\n\s+else:\n\s+ret = None", g):
            raise Missing("DeviceChannel.data_get: func.get(self._cntr); self._cntr += 1 / None")
        return "true"
    o.d("devResetShape", "Bool", dev_reset, "Device.reset -> every channel -> the attached function; data_get counts calls")

    def reset_zeroes_calls():
        Ch = find_class(tdev, "DeviceChannel")
        f = find_func(Ch, "reset")
        stmts = [unparse(x) for x in f.body if not (isinstance(x, ast.Expr) and isinstance(x.value, ast.Constant))]
        if not stmts or not stmts[0].startswith("if self._func is not None:"):
            raise Missing("DeviceChannel.reset: if self._func is not None: self._func.reset()")
        init = unparse(find_func(Ch, "__init__"))
        if "self._cntr = 0" not in init:
            raise Missing("DeviceChannel.__init__: self._cntr = 0")
        # the counter is zeroed unconditionally (a top-level statement of reset, not under the `if`)
        return "self._cntr = 0" in stmts[1:]
    o.d("resetZeroesCalls", "Bool", lambda: lean_bool(reset_zeroes_calls()),
        "DeviceChannel.reset zeroes the call counter passed to func.get()")

    def stop_shape():
        s = unparse(find_func(D, "stop"))
        if not re.search(r"self\._thrd_stream\.thread_stop\(\)\n\s+self\._thrd_recv\.thread_stop\(\)\n\s+try:\n\s+_ = self\._qwrite\.get_nowait\(\)\n"
                         r"\s+except queue\.Empty:\n\s+pass\n\s+try:\n\s+_ = self\._qread\.get_nowait\(\)\n\s+except queue\.Empty:\n\s+pass", s):
            raise Missing("stop: stop stream thread, stop recv thread, one get_nowait from each queue")
        return "true"
    o.d("stopDrainsOne", "Bool", stop_shape)

    def channel_get_shape():
        Dev = find_class(tdev, "Device")
        s = unparse(find_func(Dev, "channel_get"))
        if not re.search(r"return self\._channels\[chid\]\n\s+except IndexError:\n\s+return None", s):
            raise Missing("Device.channel_get: self._channels[chid] / IndexError -> None")
        return "true"
    o.d("channelGetPositional", "Bool", channel_get_shape, "channel ids are positions in the channel list")

    # ---- generators ----------------------------------------------------------------------------------------
    def gsrc(k, fn):
        return unparse(find_func(find_class(t, f"ChannelFunc{k}"), fn))

    def body(k, fn):
        f = find_func(find_class(t, f"ChannelFunc{k}"), fn)
        return [unparse(x) for x in f.body if not (isinstance(x, ast.Expr) and isinstance(x.value, ast.Constant))]

    def cls_attr(k, name):
        c = find_class(t, f"ChannelFunc{k}")
        for s in c.body:
            if isinstance(s, ast.Assign) and unparse(s.targets[0]) == name and isinstance(s.value, ast.Constant):
                return s.value.value
        raise Missing(f"ChannelFunc{k}.{name} initial value")

    def f1():
        b = body(1, "get")
        m = re.fullmatch(r"if self\._cntr > (\d+):\n    self\._cntr = 0", b[1]) if len(b) == 4 else None
        if not m or b[0] != "self._cntr += 1" or b[2] != "data = (self._cntr,)" or b[3] != "return DDeviceChannelFuncData(data=data)":
            raise Missing("ChannelFunc1.get shape")
        if body(1, "reset") != ["self._cntr = 0"] or cls_attr(1, "_cntr") != 0:
            raise Missing("ChannelFunc1.reset: self._cntr = 0")
        return m.group(1)
    o.d("f1Wrap", "Int", f1, "ChannelFunc1: cntr += 1; if cntr > N: cntr = 0; data = (cntr,)")

    def f2():
        b = body(2, "get")
        m = re.fullmatch(r"if self\._cntr > (\d+):\n    self\._sign \*= -1\nelif self\._cntr < -(\d+):\n    self\._sign \*= -1", b[1]) if len(b) == 4 else None
        if not m or b[0] != "self._cntr += 1 * self._sign" or b[2] != "data = (self._cntr,)" or b[3] != "return DDeviceChannelFuncData(data=data)":
            raise Missing("ChannelFunc2.get shape")
        if body(2, "reset") != ["self._cntr = 0", "self._sign = 1"] or cls_attr(2, "_cntr") != 0 or cls_attr(2, "_sign") != 1:
            raise Missing("ChannelFunc2.reset: cntr = 0; sign = 1")
        return m.group(1), m.group(2)
    o.d("f2Hi", "Int", lambda: f2()[0], "ChannelFunc2: cntr += sign; if cntr > Hi or cntr < -Lo: sign = -sign; data = (cntr,)")
    o.d("f2Lo", "Int", lambda: f2()[1])

    def f5():
        b = body(5, "get")
        if b != ["data = (1.0, 0.0, -1.0)", "return DDeviceChannelFuncData(data=data)"] or body(5, "reset") != []:
            raise Missing("ChannelFunc5: data = (1.0, 0.0, -1.0), stateless")
        return "[1, 0, -1]"
    o.d("f5Data", "List Int", f5, "ChannelFunc5: three floats with these integer values")

    def f6():
        s = gsrc(6, "get")
        m = re.search(r"if not self\._cntr % (\d+):\n\s+self\._cntr \+= 1\n\s+text = 'hello' \+ '\\x00' \* (\d+)\n\s+data = \(text,\)\n"
                      r"\s+return DDeviceChannelFuncData\(data=data\)\n\s+self\._cntr \+= 1\n\s+return None", s)
        if not m or body(6, "reset") != ["self._cntr = 0"] or cls_attr(6, "_cntr") != 0:
            raise Missing("ChannelFunc6 shape")
        return m.group(1), m.group(2)
    o.d("f6Period", "Int", lambda: f6()[0], "ChannelFunc6: 'hello' + NULs when cntr % N == 0, else None; cntr += 1")
    o.d("f6Nuls", "Nat", lambda: f6()[1])
    o.d("f6Text", "List Nat", lambda: (f6(), str(list(b"hello")))[1])

    def f7():
        b = body(7, "get")
        m = re.fullmatch(r"self\._cntr %= (\d+)", b[2]) if len(b) == 4 else None
        if not m or b[0] != "data = (1, 0, -1)" or b[1] != "self._cntr += 1" or b[3] != "return DDeviceChannelFuncData(data=data, meta=(self._cntr,))" \
           or body(7, "reset") != ["self._cntr = 0"] or cls_attr(7, "_cntr") != 0:
            raise Missing("ChannelFunc7 shape")
        return m.group(1)
    o.d("f7Mod", "Int", f7, "ChannelFunc7: data (1, 0, -1); cntr = (cntr + 1) % N; meta (cntr,)")
    o.d("f7Data", "List Int", lambda: (f7(), "[1, 0, -1]")[1])

    def f8():
        b = body(8, "get")
        m = re.fullmatch(r"meta = list\(b'hello' \+ b'\\x00' \* (\d+)\)", b[1]) if len(b) == 3 else None
        if not m or b[0] != "data = ()" or b[2] != "return DDeviceChannelFuncData(data=data, meta=tuple(meta))" or body(8, "reset") != []:
            raise Missing("ChannelFunc8 shape")
        return m.group(1)
    o.d("f8Nuls", "Nat", f8, "ChannelFunc8: no data, meta = b'hello' + N NULs, stateless")

    def f9():
        s = gsrc(9, "get")
        m = re.search(r"self\._cntr \+= 1\n\s+self\._cntr %= (\d+)\n\s+return DDeviceChannelFuncData\(data=data\)", s)
        if not m or "data = (math.sin(x), math.sin(x + 2 * math.pi / 3), math.sin(x + 4 * math.pi / 3))" not in s \
           or body(9, "reset") != ["self._cntr = 0"] or cls_attr(9, "_cntr") != 0:
            raise Missing("ChannelFunc9 shape")
        return m.group(1)
    o.d("f9Mod", "Int", f9, "ChannelFunc9: three sines (values not modelled); cntr = (cntr + 1) % N")

    def rnd(k, n):
        def chk():
            b = body(k, "get")
            want = "data = (random.random(),)" if n == 1 else "data = (" + ", ".join(["random.random()"] * n) + ")"
            if b != [want, "return DDeviceChannelFuncData(data=data)"] or body(k, "reset") != []:
                raise Missing(f"ChannelFunc{k}: {n} random values, stateless")
            return str(n)
        return chk
    o.d("f0Dim", "Nat", rnd(0, 1), "ChannelFunc0/3/4: this many random.random() values (values not modelled)")
    o.d("f3Dim", "Nat", rnd(3, 2))
    o.d("f4Dim", "Nat", rnd(4, 3))

    # ---- default channel table -------------------------------------------------------------------------------
    def table():
        lst = None
        for s in t.body:
            if isinstance(s, ast.Assign) and unparse(s.targets[0]) == "DUMMY_DEV_CHANNELS" and isinstance(s.value, ast.List):
                lst = s.value
        if lst is None:
            raise Missing("DUMMY_DEV_CHANNELS = [...]")
        tys = dict()
        from translate import enum_members
        for nm, v in enum_members(find_class(tdev, "EDeviceChannelType")):
            tys[nm] = v
        rows = []
        for i, c in enumerate(lst.elts):
            if not (isinstance(c, ast.Call) and unparse(c.func) == "DeviceChannel" and len(c.args) == 4):
                raise Missing(f"DUMMY_DEV_CHANNELS[{i}]: DeviceChannel(chan, type, vdim, name, ...)")
            chan, ty, vdim, name = c.args
            m = re.fullmatch(r"EDeviceChannelType\.(\w+)\.value", unparse(ty))
            if not m or m.group(1) not in tys or not all(isinstance(x, ast.Constant) for x in (chan, vdim, name)):
                raise Missing(f"DUMMY_DEV_CHANNELS[{i}] arguments")
            if chan.value != i:
                raise Missing(f"DUMMY_DEV_CHANNELS[{i}] has channel id {chan.value}")
            kw = {k.arg: k.value for k in c.keywords}
            if set(kw) - {"mlen", "func"}:
                raise Missing(f"DUMMY_DEV_CHANNELS[{i}] keywords {sorted(kw)}")
            mlen = kw["mlen"].value if "mlen" in kw else 0
            fn = unparse(kw["func"]) if "func" in kw else "None"
            mf = re.fullmatch(r"ChannelFunc(\d)\(\)", fn)
            if fn != "None" and not mf:
                raise Missing(f"DUMMY_DEV_CHANNELS[{i}] func {fn}")
            g = f"some {mf.group(1)}" if mf else "none"
            nb = list((name.value or "").encode("utf-8"))
            rows.append(f"({tys[m.group(1)]}, {vdim.value}, {mlen}, {nb}, {g})")
        chm = [unparse(s.value) for s in t.body if isinstance(s, ast.Assign) and unparse(s.targets[0]) == "DUMMY_DEV_CHMAX"]
        if chm != ["len(DUMMY_DEV_CHANNELS)"]:
            raise Missing("DUMMY_DEV_CHMAX = len(DUMMY_DEV_CHANNELS)")
        return "[\n  " + ",\n  ".join(rows) + "]"
    o.d("defaultChannels", "List (Nat × Nat × Nat × List Nat × Option Nat)", table,
        "(type, vdim, mlen, name bytes, ChannelFunc number) — all created disabled, divider 0")
    return o


if __name__ == "__main__":
    import sys
    print(gen_dummy(sys.argv[1] if len(sys.argv) > 1 else "/repo").text())
