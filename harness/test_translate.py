#!/usr/bin/env python3
"""Regression self-test of the translator: hand-mutated copies of the sources must change the
generated Lean exactly where expected (or produce a `translator_site_missing_…`).  Run:
  /venv/bin/python harness/test_translate.py
"""
import os
import shutil
import sys
import tempfile

HERE = os.path.dirname(os.path.abspath(__file__))
sys.path.insert(0, HERE)
import translate  # noqa: E402

REPO = os.environ.get("NXS_REPO", "/repo")

# (file, old, new, generated file, substring that must appear in the new text [and not in the old])
CASES = [
    ("proto/serialframe.py", 'mkCrcFun("xmodem")', 'mkCrcFun("crc-ccitt-false")', "Crc", "Crc.ccittFalse"),
    ("proto/serialframe.py", 'mkCrcFun("xmodem")', 'mkCrcFun("crc-32")', "Crc", "translator_site_missing"),
    ("proto/serialframe.py", '_bytes += struct.pack(">H", crc)', '_bytes += struct.pack("<H", crc)', "Frame", "def footFmt : Fmt := ⟨false"),
    ("proto/serialframe.py", "frame_len = 6", "frame_len = 5", "Frame", "def baseLen : Nat := 5"),
    ("proto/serialframe.py", "        if hdr.flen < self.hdr_len + self.foot_len or hdr.flen > len(data):\n            return DParseFrame(err=EParseError.FOOT)\n", "", "Frame", "def decGuardMin : Bool := false"),
    ("proto/serialframe.py", "data[ESerialFrameHdr.END.value : hdr.flen - 2]", "data[ESerialFrameHdr.END.value : hdr.flen - 1]", "Frame", "def decPayloadTail : Nat := 1"),
    ("proto/parse.py", '_bytes = struct.pack("B", chan)', '_bytes = struct.pack("b", chan)', "Fmt", "def chinfoReq : Fmt := ⟨false, [(1, .b)]⟩"),
    ("proto/parserecv.py", 'fmt = str(dev.data.chmax) + "B"', 'fmt = str(dev.data.chmax) + "b"', "Fmt", "def divBulkDec (n : Nat) : Fmt := ⟨false, [(n, .b)]⟩"),
    ("proto/parserecv.py", "chan.data._type,", "chan.data.dtype,", "Fmt", "translator_site_missing_Fmt_chinfoEnc"),
    ("proto/iparse.py", "EDeviceChannelType.UB8.value: DsfmtItem(\n            2,\n            \"H\",\n            256.0,", "EDeviceChannelType.UB8.value: DsfmtItem(\n            2,\n            \"H\",\n            512.0,", "Types", "⟨12, 2, some .H, true, 9, true, 1⟩"),
    ("proto/iparse.py", 'msfmt_dict = {0: "", 1: "B", 2: "H", 4: "I", 8: "Q"}', 'msfmt_dict = {0: "", 1: "B", 2: "h", 4: "I", 8: "Q"}', "Types", "(2, some .h)"),
    # repeat counts in format-table rows are not dropped: the row `3: "3B"` is the fallback rule itself (metaTable unchanged),
    # any other counted row and a counted standard row are reported
    ("proto/iparse.py", 'msfmt_dict = {0: "", 1: "B", 2: "H", 4: "I", 8: "Q"}', 'msfmt_dict = {0: "", 1: "B", 2: "H", 3: "3B", 4: "I", 8: "Q"}', "Types", "=UNCHANGED"),
    ("proto/iparse.py", 'msfmt_dict = {0: "", 1: "B", 2: "H", 4: "I", 8: "Q"}', 'msfmt_dict = {0: "", 1: "B", 2: "H", 4: "2H", 8: "Q"}', "Types", "translator_site_missing_Types_metaTable"),
    ("proto/iparse.py", 'msfmt_dict = {0: "", 1: "B", 2: "H", 4: "I", 8: "Q"}', 'msfmt_dict = {0: "", 1: "B", 2: "H", 3: "2B", 4: "I", 8: "Q"}', "Types", "translator_site_missing_Types_metaTable"),
    ("proto/iparse.py", "EDeviceChannelType.UINT16.value: DsfmtItem(\n            2,\n            \"H\",", "EDeviceChannelType.UINT16.value: DsfmtItem(\n            2,\n            \"2B\",", "Types", "translator_site_missing_Types_table"),
    ("proto/parse.py", "            and decode.scale != 1\n", "", "Types", "def decDividesOnlyScaled : Bool := false"),
    ("dev.py", "self.dtype = self._type & 0x1F", "self.dtype = self._type & 0x0F", "Record", "def dtypeMask : Nat := 15"),
    ("dev.py", 'if name not in ["div", "en"]:', 'if name not in ["div", "en", "name"]:', "Record", 'def chanAllow : List String := ["div", "en", "name"]'),
    ("proto/parserecv.py", "        if hdr.flen > len(data):\n            return\n", "", "Recv", "def guardMax : Bool := false"),
    ("proto/parserecv.py", "assert len(data) == 1\n        self._recv_cb.chinfo(data)", "assert len(data) >= 1\n        self._recv_cb.chinfo(data)", "Recv", "translator_site_missing_Recv_cbTable"),
    ("comm.py", "            retry = 5\n", "            retry = 50\n", "Comm", "def chinfoAttempts : Nat := 51"),
    ("comm.py", "                if retry < 0:\n                    # no valid response - let the caller try again\n                    return None\n", "", "Comm", "translator_site_missing_Comm_chinfoAttempts"),
    ("comm.py", "                self._thrd.thread_stop()\n                self._intf.stop()\n                raise\n", "                raise\n", "Comm", "def startCleansUp : Bool := false"),
    ("comm.py", "                    self._prev_read = _bytes\n                    return None, None\n                _bytes += rdata", "                    return None, None\n                _bytes += rdata", "Comm", "def hdrReturnsOnEmptyRead : Bool := false"),
    ("comm.py", "fread = self._get_frame(timeout=1.0)\n        if fread is None:  # pragma: no cover\n            return None\n\n        return self._parse.frame_cmninfo_decode(fread)", "fread = self._get_frame(timeout=2.0)\n        if fread is None:  # pragma: no cover\n            return None\n\n        return self._parse.frame_cmninfo_decode(fread)", "Comm", "def cmninfoTimeout : Nat := 20"),
    ("comm.py", "if j == 1 and not self._channels.en_resync:", "if j >= 1 and not self._channels.en_resync:", "CfgShape", "translator_site_missing_CfgShape_enableWriteShape"),
    ("comm.py", "                self._channels.div_resync = True\n                return\n", "                return\n", "CfgShape", "translator_site_missing_CfgShape_divWriteShape"),
    ("comm.py", "        if self.dev.data.div_supported:\n            # send div request\n            self._nxslib_channels_div()", "        if True:\n            # send div request\n            self._nxslib_channels_div()", "CfgShape", "translator_site_missing_CfgShape_channelsWriteShape"),
    ("nxscope.py", "            self.ch_disable_all(True)\n", "", "CfgShape", "translator_site_missing_CfgShape_disconnectShape"),
    ("nxscope.py", "                        for que in self._sub_q[chan]:\n                            que.put(samples[chan])", "                        for que in self._sub_q[chan][:1]:\n                            que.put(samples[chan])", "CfgShape", "translator_site_missing_CfgShape_fanoutShape"),
    # whole-body source pins (harness/translate_pins.py): reviewer edits that no shape regex saw
    ("intf/iintf.py", "        if self._write_padding:\n", "        if self._write_padding:\n            data = data.rstrip(b\"\\x00\")\n", "PinsC17", "translator_site_missing_PinsC17_iintf_CommInterfaceCommon_data_align"),
    ("nxscope.py", "        self, chans: list[int] | int, writenow: bool = False\n    ) -> None:\n        \"\"\"Enable a given channels.", "        self, chans: list[int] | int, writenow: bool = True\n    ) -> None:\n        \"\"\"Enable a given channels.", "PinsC07", "translator_site_missing_PinsC07_nxscope_NxscopeHandler_ch_enable"),
    ("proto/parserecv.py", "        if hdr.flen > len(data):\n            return\n", "        if hdr.flen > len(data):\n            return\n        if hdr.flen > 64:\n            return\n", "PinsC02", "translator_site_missing_PinsC02_parserecv_ParseRecv_recv_handle"),
    ("comm.py", "            # accumulate data\n            _bytes += rdata\n", "            # accumulate data\n            _bytes += rdata\n            if len(_bytes) > 1024:\n                _bytes = _bytes[-1024:]\n", "PinsC03", "translator_site_missing_PinsC03_comm_CommHandler__read_frame"),
    ("dev.py", "        if self._initdone:\n            if name not in", "        if value is None and self._initdone:\n            return\n        if self._initdone:\n            if name not in", "PinsC19", "translator_site_missing_PinsC19_dev_DDeviceChannelData___setattr"),
    # a comment / docstring / formatting change is NOT a change
    ("comm.py", "            # accumulate data\n            _bytes += rdata\n", "            # gather\n            _bytes += (rdata)\n", "PinsC03", "=UNCHANGED"),
]


def main():
    fails = 0
    base = tempfile.mkdtemp(prefix="trtest_")
    try:
        out0 = os.path.join(base, "out0")
        translate.run(REPO, out0)
        for i, (rel, old, new, gen, expect) in enumerate(CASES):
            root = os.path.join(base, f"r{i}")
            shutil.copytree(os.path.join(REPO, "src"), os.path.join(root, "src"))
            p = os.path.join(root, "src", "nxslib", rel)
            s = open(p).read()
            if s.count(old) != 1:
                print(f"FAIL case {i}: pattern occurs {s.count(old)} times in {rel}: {old[:50]!r}")
                fails += 1
                continue
            open(p, "w").write(s.replace(old, new))
            out = os.path.join(base, f"o{i}")
            translate.run(root, out)
            t0 = open(os.path.join(out0, gen + ".lean")).read()
            t1 = open(os.path.join(out, gen + ".lean")).read()
            if expect == "=UNCHANGED":
                if t0 == t1:
                    print(f"ok   case {i}: {rel}: {gen}.lean unchanged by a comment / formatting edit")
                else:
                    print(f"FAIL case {i}: {rel}: {gen}.lean changed by a harmless edit")
                    fails += 1
            elif expect in t1 and expect not in t0:
                print(f"ok   case {i}: {rel}: {gen}.lean now has {expect[:60]!r}")
            else:
                print(f"FAIL case {i}: {rel}: expected {expect!r} in {gen}.lean (changed={t0 != t1})")
                fails += 1
    finally:
        shutil.rmtree(base, ignore_errors=True)
    print(f"{len(CASES) - fails}/{len(CASES)} translator expectations hold")
    return 1 if fails else 0


if __name__ == "__main__":
    sys.exit(main())
