#!/usr/bin/env python3
"""Translator: regenerate lean/NxsModel/Gen/*.lean from the working tree of /repo/src/nxslib.

Pure `ast` work; nxslib is never imported.  Everything that is *data or a straight-line
program* in the source is extracted: struct format strings at each pack/unpack site, frame
constants and guards, enums, the type table, record field lists / masks / allow-lists,
handshake counters and timeouts, the statement-level program of thread.py, the lock
discipline table, the DummyDev constructor shape.

If an extraction site does not have the expected syntactic shape the generated definition
refers to an undefined identifier `translator_site_missing_<site>`, so the Lean build fails
with a message naming the site ("obligation broken"); nothing is guessed.

Files are rewritten only when their content changes (so lake rebuilds only dependants).
Usage: translate.py [--repo /repo] [--out /verif/lean/NxsModel/Gen] [--json]
"""
from __future__ import annotations

import ast
import json
import os
import re
import sys

REPO = os.environ.get("NXS_REPO", "/repo")
HERE = os.path.dirname(os.path.abspath(__file__))
OUT = os.path.join(os.path.dirname(HERE), "lean", "NxsModel", "Gen")


class Missing(Exception):
    pass


def src(repo, rel):
    with open(os.path.join(repo, "src", "nxslib", rel), encoding="utf-8") as f:
        return f.read()


def parse(repo, rel):
    return ast.parse(src(repo, rel), filename=rel)


def find_class(tree, name):
    for n in ast.walk(tree):
        if isinstance(n, ast.ClassDef) and n.name == name:
            return n
    raise Missing(f"class {name}")


def find_func(node, name):
    for n in ast.walk(node):
        if isinstance(n, (ast.FunctionDef,)) and n.name == name:
            return n
    raise Missing(f"function {name}")


def enum_members(cls):
    """[(name, value)] for simple `NAME = <const expr>` members."""
    out = []
    for st in cls.body:
        if isinstance(st, ast.Assign) and len(st.targets) == 1 and isinstance(st.targets[0], ast.Name):
            try:
                v = eval(compile(ast.Expression(st.value), "<enum>", "eval"), {}, {})
            except Exception:
                raise Missing(f"enum value {cls.name}.{st.targets[0].id}")
            out.append((st.targets[0].id, v))
    return out


# ---------------------------------------------------------------------------------------
# struct format strings -> Lean `Fmt` terms
# ---------------------------------------------------------------------------------------
CODES = {"B": ".B", "b": ".b", "H": ".H", "h": ".h", "I": ".I", "i": ".i", "Q": ".Q", "q": ".q",
         "?": ".bool", "c": ".c", "s": ".s", "f": ".f", "d": ".d"}


def fmt_items(s, hole=None):
    """Parse a struct format body (no prefix) to [(count_expr, code)]; `hole` is the Lean
    expression substituted for the single `{}` placeholder."""
    items = []
    i = 0
    while i < len(s):
        if s[i].isspace():
            i += 1
            continue
        cnt = None
        if s[i] == "\0":  # placeholder
            cnt = hole
            i += 1
        else:
            j = i
            while j < len(s) and s[j].isdigit():
                j += 1
            if j > i:
                cnt = s[i:j]
                i = j
        if i >= len(s) or s[i] not in CODES:
            raise Missing(f"format code {s[i:i+1]!r} in {s!r}")
        items.append((cnt if cnt is not None else "1", CODES[s[i]]))
        i += 1
    return items


def fmt_term(s, hole=None):
    be = "false"
    if s[:1] in "<>=!@":
        if s[0] in ">!":
            be = "true"
        s = s[1:]
    items = fmt_items(s, hole)
    return "⟨%s, [%s]⟩" % (be, ", ".join("(%s, %s)" % it for it in items))


def fmt_of_expr(e, hole_name="n"):
    """Python expression building a format -> (lean term, has_hole).
    Accepted: str literal; f-string with one hole; str(x) + "lit"; "lit" + "lit"."""
    if isinstance(e, ast.Constant) and isinstance(e.value, str):
        return fmt_term(e.value), False
    if isinstance(e, ast.JoinedStr):
        s = ""
        holes = 0
        for v in e.values:
            if isinstance(v, ast.Constant):
                s += v.value
            elif isinstance(v, ast.FormattedValue):
                s += "\0"
                holes += 1
            else:
                raise Missing("f-string part")
        if holes != 1:
            raise Missing("f-string holes")
        return fmt_term(s, hole_name), True
    if isinstance(e, ast.BinOp) and isinstance(e.op, ast.Add):
        l, r = e.left, e.right
        if (isinstance(l, ast.Call) and isinstance(l.func, ast.Name) and l.func.id == "str"
                and isinstance(r, ast.Constant) and isinstance(r.value, str)):
            return fmt_term("\0" + r.value, hole_name), True
        if isinstance(l, ast.Constant) and isinstance(r, ast.Constant):
            return fmt_term(l.value + r.value), False
    raise Missing("format expression " + ast.dump(e)[:80])


def struct_calls(func, kinds=("pack", "unpack")):
    """struct.pack/unpack calls inside `func`, in source order; format given inline or through
    a local variable assigned once before the call (nearest preceding assignment)."""
    assigns = {}
    calls = []
    for n in sorted((n for n in ast.walk(func) if hasattr(n, "lineno")), key=lambda n: (n.lineno, n.col_offset)):
        if isinstance(n, ast.Assign) and len(n.targets) == 1 and isinstance(n.targets[0], ast.Name):
            assigns.setdefault(n.targets[0].id, []).append(n)
        if (isinstance(n, ast.Call) and isinstance(n.func, ast.Attribute) and isinstance(n.func.value, ast.Name)
                and n.func.value.id == "struct" and n.func.attr in kinds):
            calls.append(n)
    out = []
    for c in calls:
        f = c.args[0]
        if isinstance(f, ast.Name):
            cands = [a for a in assigns.get(f.id, []) if a.lineno < c.lineno]
            if not cands:
                raise Missing(f"format variable {f.id}")
            f = cands[-1].value
        out.append((c.func.attr, f, c))
    return out


# ---------------------------------------------------------------------------------------
# Gen files
# ---------------------------------------------------------------------------------------
HEADER = "-- GENERATED by harness/translate.py from /repo/src/nxslib — do not edit\n"


class Out:
    def __init__(self, name, imports=("NxsModel.Struct",)):
        self.name = name
        self.lines = [HEADER]
        for i in imports:
            self.lines.append(f"import {i}")
        self.lines.append(f"namespace Nxs.Gen.{name}")
        self.lines.append("open Nxs")
        self.facts = {}

    def d(self, name, typ, fn, note=""):
        """define `name : typ := fn()`; on Missing emit an undefined identifier."""
        try:
            val = fn() if callable(fn) else fn
            self.facts[name] = val
        except Missing as e:
            site = re.sub(r"[^A-Za-z0-9_]", "_", f"{self.name}_{name}")
            if typ == "Bool":
                # a shape fact that no longer holds: the module still compiles (so unrelated properties and the
                # driver are not disturbed); every theorem that pins the fact stops checking
                val = f"false  -- translator_site_missing_{site}  -- {e}"
            else:
                # a data site that is gone: the definition gets the type's `default` so that the module, and with it the
                # one driver binary every property's correspondence needs, still builds; the marker in the comment makes
                # the translate step fail for exactly the properties whose closure imports this module (their theorems
                # about the real value stop checking as well)
                val = f"default  -- translator_site_missing_{site}  -- " + str(e).replace("\n", " ")
            self.facts[name] = None
        self.lines.append(f"def {name} : {typ} := {val}" + (f"  -- {note}" if note else ""))

    def raw(self, text):
        self.lines.append(text)

    def text(self):
        return "\n".join(self.lines + [f"end Nxs.Gen.{self.name}", ""])


def lean_bool(b):
    return "true" if b else "false"


def body_text(fn_node):
    """the statements of a function (docstring dropped), comments and formatting normalised away by ast"""
    stmts = [x for x in fn_node.body if not (isinstance(x, ast.Expr) and isinstance(x.value, ast.Constant)
                                             and isinstance(x.value.value, str))]
    return "\n".join(ln.rstrip() for x in stmts for ln in ast.unparse(x).splitlines() if ln.strip())


def expect_text(code):
    import textwrap
    return "\n".join(ln.rstrip() for ln in ast.unparse(ast.parse(textwrap.dedent(code))).splitlines() if ln.strip())


def sig_text(fn_node):
    """the parameter list with defaults and annotations dropped to names/defaults only"""
    a = fn_node.args
    names = [x.arg for x in a.posonlyargs + a.args]
    defaults = [None] * (len(names) - len(a.defaults)) + [ast.unparse(d) for d in a.defaults]
    out = [n if d is None else f"{n}={d}" for n, d in zip(names, defaults)]
    for x, d in zip(a.kwonlyargs, a.kw_defaults):
        out.append(x.arg if d is None else f"{x.arg}={ast.unparse(d)}")
    return ", ".join(out)


def exact_body(cls_node, name, code, what=None, sig=None):
    """'true' iff the body of `name` is exactly `code` (and, when given, its parameter list is `sig`); raises Missing otherwise"""
    f = find_func(cls_node, name)
    if body_text(f) != expect_text(code):
        raise Missing(what or f"{name}: body differs from the transcribed one")
    if sig is not None and sig_text(f) != sig:
        raise Missing(f"{name}: parameter list is ({sig_text(f)}), transcribed ({sig})")
    if f.decorator_list and not all(isinstance(d, ast.Name) and d.id in ("property", "staticmethod", "classmethod") or
                                    (isinstance(d, ast.Attribute) and d.attr == "setter") for d in f.decorator_list):
        raise Missing(f"{name}: unexpected decorator")
    return "true"


def cmp_matches(test, left_pred, op_type, right_pred):
    """does boolean expr `test` contain a Compare left <op> right matching the predicates?"""
    for n in ast.walk(test):
        if isinstance(n, ast.Compare) and len(n.ops) == 1 and isinstance(n.ops[0], op_type):
            if left_pred(n.left) and right_pred(n.comparators[0]):
                return True
    return False


def is_attr(e, *path):
    """e is a.b.c with names in path"""
    cur = e
    for p in reversed(path[1:]):
        if not (isinstance(cur, ast.Attribute) and cur.attr == p):
            return False
        cur = cur.value
    return isinstance(cur, ast.Name) and cur.id == path[0]


def unparse(e):
    return ast.unparse(e)


def gen_frame(repo):
    o = Out("Frame")
    tree = parse(repo, "proto/serialframe.py")
    hdr = dict(enum_members(find_class(tree, "ESerialFrameHdr")))
    cls = find_class(tree, "SerialFrame")

    def need(k):
        if k not in hdr:
            raise Missing(f"ESerialFrameHdr.{k}")
        return hdr[k]

    o.d("sof", "Nat", lambda: str(need("SOF")))
    o.d("hdrLen", "Nat", lambda: str(need("END")))
    o.d("footLen", "Nat", lambda: str(need("FOOT")))

    # hdr_len / foot_len properties return the enum members
    def prop_returns(fname, member):
        f = find_func(cls, fname)
        rets = [n for n in ast.walk(f) if isinstance(n, ast.Return)]
        if len(rets) != 1 or unparse(rets[0].value) != f"ESerialFrameHdr.{member}.value":
            raise Missing(f"{fname} returns ESerialFrameHdr.{member}.value")
        return "true"
    o.d("hdrLenIsEnd", "Bool", lambda: prop_returns("hdr_len", "END"))
    o.d("footLenIsFoot", "Bool", lambda: prop_returns("foot_len", "FOOT"))

    # hdr_find: data.find(bytes([SOF]))
    def hdr_find():
        f = find_func(cls, "hdr_find")
        rets = [n for n in ast.walk(f) if isinstance(n, ast.Return)]
        if len(rets) != 1 or unparse(rets[0].value) != "data.find(bytes([ESerialFrameHdr.SOF.value]))":
            raise Missing("hdr_find shape")
        return "true"
    o.d("hdrFindIsFirstSof", "Bool", hdr_find)

    # hdr_decode
    fdec = find_func(cls, "hdr_decode")

    def hdr_fmt():
        calls = struct_calls(fdec, ("unpack",))
        if len(calls) != 1:
            raise Missing("hdr_decode unpack site")
        t, hole = fmt_of_expr(calls[0][1])
        if hole:
            raise Missing("hdr_decode fmt hole")
        # unpack target order: sof, flen, _id
        par = [n for n in ast.walk(fdec) if isinstance(n, ast.Assign) and n.value is calls[0][2]]
        if len(par) != 1 or unparse(par[0].targets[0]) != "(sof, flen, _id)":
            raise Missing("hdr_decode unpack targets (sof, flen, _id)")
        return t
    o.d("hdrFmtDecode", "Fmt", hdr_fmt)

    def hdr_guards():
        ifs = [n for n in ast.walk(fdec) if isinstance(n, ast.If)]
        short = any(cmp_matches(i.test, lambda l: unparse(l) == "len(data)", ast.Lt,
                                lambda r: unparse(r) == "self.hdr_len") and
                    any(isinstance(s, ast.Return) and "EParseError.HDR" in unparse(s) for s in i.body)
                    for i in ifs)
        sof = any(cmp_matches(i.test, lambda l: unparse(l) == "sof", ast.NotEq,
                              lambda r: unparse(r) == "ESerialFrameHdr.SOF.value") and
                  any(isinstance(s, ast.Return) and "EParseError.HDR" in unparse(s) for s in i.body)
                  for i in ifs)
        # id validity: try: fid = EParseId(_id) except ValueError: return HDR
        idok = False
        for t in (n for n in ast.walk(fdec) if isinstance(n, ast.Try)):
            body = "\n".join(unparse(s) for s in t.body)
            if "EParseId(_id)" in body and t.handlers and unparse(t.handlers[0].type) == "ValueError" \
               and any("EParseError.HDR" in unparse(s) for s in t.handlers[0].body):
                idok = True
        return short, sof, idok
    o.d("hdrGuardShort", "Bool", lambda: lean_bool(hdr_guards()[0]), "len(data) < hdr_len -> HDR")
    o.d("hdrGuardSof", "Bool", lambda: lean_bool(hdr_guards()[1]), "sof != SOF -> HDR")
    o.d("hdrGuardId", "Bool", lambda: lean_bool(hdr_guards()[2]), "EParseId(_id) ValueError -> HDR")

    # foot_validate: crc(data) != 0 -> False
    def foot_shape():
        f = find_func(cls, "foot_validate")
        stmts = [x for x in f.body if not (isinstance(x, ast.Expr) and isinstance(x.value, ast.Constant))]
        got = re.sub(r"\s+", " ", "\n".join(unparse(x) for x in stmts))
        want = re.sub(r"\s+", " ", ast.unparse(ast.parse(
            "crc = self._crc16_func(data)\nif crc != 0:\n    logger.error('invalid crc16 = %s', hex(crc))\n    return False\nreturn True")))
        if got != want:
            raise Missing("foot_validate shape (exactly: CRC over all of data must be 0; no state, no cache)")
        return "true"
    o.d("footValidateIsZeroResidue", "Bool", foot_shape)

    # frame_decode guards and slice
    fd = find_func(cls, "frame_decode")

    def fd_guards():
        ifs = [n for n in ast.walk(fd) if isinstance(n, ast.If)]
        def foot_ret(i):
            return any(isinstance(s, ast.Return) and "EParseError.FOOT" in unparse(s) for s in i.body)
        gmin = any(cmp_matches(i.test, lambda l: unparse(l) == "hdr.flen", ast.Lt,
                               lambda r: unparse(r) in ("self.hdr_len + self.foot_len",
                                                        "self.foot_len + self.hdr_len")) and foot_ret(i)
                   for i in ifs)
        gmax = any(cmp_matches(i.test, lambda l: unparse(l) == "hdr.flen", ast.Gt,
                               lambda r: unparse(r) == "len(data)") and foot_ret(i) for i in ifs)
        crc = any(unparse(i.test) == "self.foot_validate(data[:hdr.flen]) is False" and foot_ret(i) for i in ifs)
        hdrerr = any(unparse(i.test) == "hdr.err is not EParseError.NOERR" and
                     any(isinstance(s, ast.Return) and "err=hdr.err" in unparse(s) for s in i.body) for i in ifs)
        return gmin, gmax, crc, hdrerr
    o.d("decGuardMin", "Bool", lambda: lean_bool(fd_guards()[0]), "flen < hdr_len + foot_len -> FOOT")
    o.d("decGuardMax", "Bool", lambda: lean_bool(fd_guards()[1]), "flen > len(data) -> FOOT")
    o.d("decGuardCrc", "Bool", lambda: lean_bool(fd_guards()[2]), "foot_validate(data[:flen]) is False -> FOOT")
    o.d("decGuardHdr", "Bool", lambda: lean_bool(fd_guards()[3]), "hdr error propagated")

    def fd_slice():
        for n in ast.walk(fd):
            if isinstance(n, ast.Assign) and unparse(n.targets[0]) == "data" and isinstance(n.value, ast.Subscript):
                sl = n.value.slice
                if isinstance(sl, ast.Slice) and unparse(sl.lower) == "ESerialFrameHdr.END.value":
                    up = sl.upper
                    if isinstance(up, ast.BinOp) and isinstance(up.op, ast.Sub) and unparse(up.left) == "hdr.flen" \
                       and isinstance(up.right, ast.Constant):
                        return str(up.right.value)
        raise Missing("frame_decode payload slice data[END : hdr.flen - k]")
    o.d("decPayloadTail", "Nat", fd_slice, "payload = data[hdrLen : flen - k]")

    # frame_create
    fc = find_func(cls, "frame_create")

    def fc_parts():
        calls = struct_calls(fc, ("pack",))
        if len(calls) != 2:
            raise Missing("frame_create: two pack sites")
        h, _ = fmt_of_expr(calls[0][1])
        args = [unparse(a) for a in calls[0][2].args[1:]]
        if args != ["ESerialFrameHdr.SOF.value", "frame_len", "fid"]:
            raise Missing("frame_create header pack args (SOF, frame_len, fid)")
        ft, _ = fmt_of_expr(calls[1][1])
        if [unparse(a) for a in calls[1][2].args[1:]] != ["crc"]:
            raise Missing("frame_create footer pack args (crc)")
        base = None
        for n in ast.walk(fc):
            if isinstance(n, ast.Assign) and unparse(n.targets[0]) == "frame_len" and isinstance(n.value, ast.Constant):
                base = n.value.value
        if base is None:
            raise Missing("frame_create base length literal")
        amax = None
        for n in ast.walk(fc):
            if isinstance(n, ast.Assert) and isinstance(n.test, ast.Compare) and unparse(n.test.left) == "fid" \
               and isinstance(n.test.ops[0], ast.LtE) and isinstance(n.test.comparators[0], ast.Constant):
                amax = n.test.comparators[0].value
        if amax is None:
            raise Missing("frame_create assert fid <= k")
        s = unparse(fc)
        order = ("frame_len += len(data)" in s and "_bytes += data" in s and
                 "crc = self._crc16_func(_bytes)" in s and s.index("_bytes += data") < s.index("crc = self._crc16_func(_bytes)"))
        if not order:
            raise Missing("frame_create statement shape")
        return h, ft, str(base), str(amax)
    o.d("hdrFmtCreate", "Fmt", lambda: fc_parts()[0])
    o.d("footFmt", "Fmt", lambda: fc_parts()[1])
    o.d("baseLen", "Nat", lambda: fc_parts()[2])
    o.d("fidMax", "Nat", lambda: fc_parts()[3])
    return o


CRC_ROWS = {"xmodem": "Crc.xmodem", "crc-ccitt-false": "Crc.ccittFalse", "kermit": "Crc.kermit",
            "crc-16": "Crc.crc16", "modbus": "Crc.modbus", "x-25": "Crc.x25", "crc-16-usb": "Crc.crc16usb",
            "crc-16-dnp": "Crc.crc16dnp", "crc-aug-ccitt": "Crc.crcAugCcitt",
            "crc-16-buypass": "Crc.crc16buypass", "crc-16-genibus": "Crc.crc16genibus"}


def gen_crc(repo):
    o = Out("Crc", imports=("NxsModel.Crc",))
    tree = parse(repo, "proto/serialframe.py")

    def name():
        cls = find_class(tree, "SerialFrame")
        init = find_func(cls, "__init__")
        for n in ast.walk(init):
            if isinstance(n, ast.Assign) and unparse(n.targets[0]) == "self._crc16_func":
                c = n.value
                if isinstance(c, ast.Call) and unparse(c.func) == "crcmod.predefined.mkCrcFun" and \
                   len(c.args) == 1 and isinstance(c.args[0], ast.Constant):
                    nm = c.args[0].value
                    if nm not in CRC_ROWS:
                        raise Missing(f"crcmod algorithm {nm!r} not in the model's table")
                    return CRC_ROWS[nm]
        raise Missing("self._crc16_func = crcmod.predefined.mkCrcFun(<literal>)")
    o.d("params", "CrcParams", name)
    return o


def gen_ids(repo):
    o = Out("Ids")
    t_if = parse(repo, "proto/iframe.py")
    t_ip = parse(repo, "proto/iparse.py")
    t_dev = parse(repo, "dev.py")

    def members(tree, cls, prefix):
        ms = enum_members(find_class(tree, cls))
        if not ms:
            raise Missing(f"{cls} members")
        for k, v in ms:
            o.raw(f"def {prefix}{k} : Nat := {v}")
        return ms
    try:
        ids = members(t_if, "EParseId", "id")
        o.raw("def parseIds : List Nat := [%s]" % ", ".join(str(v) for _, v in ids))
    except Missing as e:
        o.raw(f"def parseIds : List Nat := default  -- translator_site_missing_Ids_parseIds -- {e}")
    for tree, cls, prefix in ((t_if, "EParseError", "err"), (t_ip, "EParseIdSetFlags", "set"),
                              (t_ip, "EParseStreamFlags", "sflag"), (t_ip, "EParseDataType", "dt"),
                              (t_dev, "EDeviceChannelType", "ty"), (t_dev, "EDeviceFlags", "dflag")):
        try:
            members(tree, cls, prefix)
        except Missing as e:
            o.raw(f"def {prefix}_missing : Nat := translator_site_missing_Ids_{cls} -- {e}")
    return o


def site_fmt(o, name, func, kind, idx, note="", expect_args=None, count=None):
    """emit the format at the idx-th struct.<kind> call in func; functions of a Nat when holed."""
    def get():
        calls = [c for c in struct_calls(func) if c[0] == kind]
        if count is not None and len(calls) != count:
            raise Missing(f"{func.name}: expected {count} struct.{kind} sites, found {len(calls)}")
        if idx >= len(calls):
            raise Missing(f"{func.name}: struct.{kind} site #{idx}")
        t, hole = fmt_of_expr(calls[idx][1])
        if expect_args is not None:
            got = [unparse(a) for a in calls[idx][2].args[1:]]
            if got != expect_args:
                raise Missing(f"{func.name}: struct.{kind} #{idx} args {got} != {expect_args}")
        return t, hole
    try:
        t, hole = get()
        if hole:
            o.raw(f"def {name} (n : Nat) : Fmt := {t}" + (f"  -- {note}" if note else ""))
        else:
            o.raw(f"def {name} : Fmt := {t}" + (f"  -- {note}" if note else ""))
        o.facts[name] = t
    except Missing as e:
        site = re.sub(r"[^A-Za-z0-9_]", "_", f"Fmt_{name}")
        o.raw(f"def {name} : Fmt := default  -- translator_site_missing_{site}  -- {e}")
        o.facts[name] = None


def gen_fmt(repo):
    o = Out("Fmt")
    tp = parse(repo, "proto/parse.py")
    tr = parse(repo, "proto/parserecv.py")
    P = find_class(tp, "Parser")
    R = find_class(tr, "ParseRecv")
    # client builders
    site_fmt(o, "setData", find_func(P, "_frame_set_data"), "pack", 0, expect_args=["flags", "chan"], count=1)
    site_fmt(o, "start", find_func(P, "frame_start"), "pack", 0, expect_args=["start"], count=1)
    site_fmt(o, "chinfoReq", find_func(P, "frame_chinfo"), "pack", 0, expect_args=["chan"], count=1)
    # client decoders
    site_fmt(o, "cmninfoDec", find_func(P, "frame_cmninfo_decode"), "unpack", 0, count=1)
    site_fmt(o, "chinfoDec", find_func(P, "frame_chinfo_decode"), "unpack", 0, count=1)
    site_fmt(o, "ackDec", find_func(P, "frame_ack_decode"), "unpack", 0, count=1)
    # device side
    site_fmt(o, "cmninfoEnc", find_func(R, "_cmninfo_data_encode"), "pack", 0,
             expect_args=["dev.data.chmax", "dev.data.flags", "dev.data.rxpadding"], count=1)
    site_fmt(o, "chinfoEnc", find_func(R, "_chinfo_data_encode"), "pack", 0,
             expect_args=["chan.data.en", "chan.data._type", "chan.data.vdim", "chan.data.div",
                          "chan.data.mlen", "name"], count=1)
    site_fmt(o, "ackEnc", find_func(R, "frame_ack_encode"), "pack", 0, expect_args=["data"], count=1)
    site_fmt(o, "startDec", find_func(R, "frame_start_decode"), "unpack", 0, count=1)
    site_fmt(o, "setDec", find_func(R, "frame_set_decode"), "unpack", 0, count=1)
    fe = find_func(R, "frame_enable_decode")
    site_fmt(o, "enBulkDec", fe, "unpack", 0, count=3)
    site_fmt(o, "enSingleDec", fe, "unpack", 1, count=3)
    site_fmt(o, "enAllDec", fe, "unpack", 2, count=3)
    fdv = find_func(R, "frame_div_decode")
    site_fmt(o, "divBulkDec", fdv, "unpack", 0, count=3)
    site_fmt(o, "divSingleDec", fdv, "unpack", 1, count=3)
    site_fmt(o, "divAllDec", fdv, "unpack", 2, count=3)
    # stream encode: flags byte, channel id prefix
    site_fmt(o, "streamFlagsEnc", find_func(R, "_stream_data_encode"), "pack", 0, expect_args=["flags"])

    # the sample format prefixes are built by concatenation; extract the literal pieces
    def chan_prefix():
        f = find_func(R, "_stream_bytes_get")
        for n in ast.walk(f):
            if isinstance(n, ast.Assign) and unparse(n.targets[0]) == "fmt":
                v = n.value
                if isinstance(v, ast.BinOp) and isinstance(v.left, ast.Constant) and isinstance(v.right, ast.Constant):
                    return fmt_term(v.left.value + v.right.value)
        raise Missing("_stream_bytes_get: fmt = '<' + <chan code>")
    o.d("streamChanEnc", "Fmt", chan_prefix, "byte order + channel id code of the stream encoder")

    def dec_prefix():
        f = find_func(P, "frame_stream_decode")
        vals = []
        for n in ast.walk(f):
            if isinstance(n, ast.Assign) and unparse(n.targets[0]) == "sfmt":
                vals.append(unparse(n.value))
        if vals != ["'<'", "'<' + meta"]:
            raise Missing(f"frame_stream_decode sfmt prefixes {vals}")
        return "false"
    o.d("streamDecBigEndian", "Bool", dec_prefix, "data and metadata formats start with '<'")

    # set-request builder: which flags value each helper uses
    def set_flag(fname):
        f = find_func(P, fname)
        for n in ast.walk(f):
            if isinstance(n, ast.Call) and unparse(n.func) == "self._frame_set_data":
                a = unparse(n.args[0])
                m = re.fullmatch(r"EParseIdSetFlags\.(\w+)", a)
                if m:
                    return "Nxs.Gen.Ids.set" + m.group(1)
        raise Missing(f"{fname}: _frame_set_data(EParseIdSetFlags.X, ...)")
    o.lines.insert(2, "import NxsModel.Gen.Ids")
    o.d("flagSingle", "Nat", lambda: set_flag("_frame_set_single"))
    o.d("flagBulk", "Nat", lambda: set_flag("_frame_set_bulk"))
    o.d("flagAll", "Nat", lambda: set_flag("_frame_set_all"))

    # decoder branch order: which enum member each branch of frame_enable_decode/frame_div_decode tests
    def dec_flags(fn):
        out = []
        for n in ast.walk(fn):
            if isinstance(n, ast.If) and isinstance(n.test, ast.Compare) and unparse(n.test.left) == "flags":
                m = re.fullmatch(r"EParseIdSetFlags\.(\w+)\.value", unparse(n.test.comparators[0]))
                if m:
                    out.append(m.group(1))
        if out != ["BULK", "SINGLE", "ALL"]:
            raise Missing(f"{fn.name}: branch order {out}")
        return "true"
    o.d("enDecBranches", "Bool", lambda: dec_flags(fe), "BULK, SINGLE, ALL in this order, formats above in the same order")
    o.d("divDecBranches", "Bool", lambda: dec_flags(fdv))
    return o


def gen_types(repo):
    o = Out("Types")
    t = parse(repo, "proto/iparse.py")
    tdev = parse(repo, "dev.py")
    tyvals = dict(enum_members(find_class(tdev, "EDeviceChannelType")))
    dtvals = dict(enum_members(find_class(t, "EParseDataType")))

    def rows():
        f = find_func(t, "dsfmt_get")
        d = None
        for n in ast.walk(f):
            if isinstance(n, ast.Assign) and unparse(n.targets[0]) == "dsfmt_dict" and isinstance(n.value, ast.Dict):
                d = n.value
        if d is None:
            raise Missing("dsfmt_dict literal")
        out = []
        for k, v in zip(d.keys, d.values):
            m = re.fullmatch(r"EDeviceChannelType\.(\w+)\.value", unparse(k))
            if not m or m.group(1) not in tyvals:
                raise Missing(f"dsfmt_dict key {unparse(k)}")
            if not (isinstance(v, ast.Call) and unparse(v.func) == "DsfmtItem" and len(v.args) == 4 and not v.keywords):
                raise Missing(f"dsfmt_dict row {unparse(k)}")
            slen, fmt, scale, dt = v.args
            if not isinstance(slen, ast.Constant) or not isinstance(fmt, ast.Constant):
                raise Missing("row literal")
            sc = scale.value if isinstance(scale, ast.Constant) else Missing
            if sc is Missing:
                raise Missing("scale literal")
            md = re.fullmatch(r"EParseDataType\.(\w+)", unparse(dt))
            if not md:
                raise Missing("dtype")
            # scale: None -> 0 (no scaling); number must be a power of two: emit log2 and a float flag
            if sc is None:
                frac, isf, has = 0, False, False
            else:
                has = True
                isf = isinstance(sc, float)
                iv = int(sc)
                if iv != sc or iv <= 0 or iv & (iv - 1):
                    raise Missing(f"scale {sc} is not a positive power of two")
                frac = iv.bit_length() - 1
            items = fmt_items(fmt.value)
            if len(items) > 1:
                raise Missing("multi-item standard format")
            if items and items[0][0] != "1":
                # `Row.code` is a single struct letter: a repeat count in a standard row ("2H": the decoder would
                # prefix it with the vdim digits) cannot be represented - say so instead of dropping the count
                raise Missing(f"standard format {fmt.value!r} of {m.group(1)} has a repeat count")
            code = items[0][1] if items else "none"
            out.append((tyvals[m.group(1)], m.group(1), slen.value, code, has, frac, isf, dtvals[md.group(1)]))
        return out
    try:
        rs = rows()
        o.raw("structure Row where\n  ty : Nat\n  slen : Nat\n  code : Option Code\n  hasScale : Bool\n  frac : Nat\n  scaleIsFloat : Bool\n  dtype : Nat\n  deriving DecidableEq, Repr")
        o.raw("def table : List Row := [")
        for i, (ty, nm, slen, code, has, frac, isf, dt) in enumerate(rs):
            c = "none" if code == "none" else f"some {code}"
            o.raw(f"  ⟨{ty}, {slen}, {c}, {lean_bool(has)}, {frac}, {lean_bool(isf)}, {dt}⟩{',' if i < len(rs)-1 else ''}  -- {nm}")
        o.raw("]")
        o.facts["table"] = rs
    except Missing as e:
        o.raw(f"def table : List Nat := default  -- translator_site_missing_Types_table -- {e}")

    def meta():
        f = find_func(t, "msfmt_get")
        d = None
        for n in ast.walk(f):
            if isinstance(n, ast.Assign) and unparse(n.targets[0]) == "msfmt_dict" and isinstance(n.value, ast.Dict):
                d = n.value
        if d is None:
            raise Missing("msfmt_dict literal")
        rows = []
        for k, v in zip(d.keys, d.values):
            if not (isinstance(k, ast.Constant) and isinstance(v, ast.Constant)):
                raise Missing("msfmt row")
            it = fmt_items(v.value)
            if len(it) > 1:
                raise Missing("msfmt multi-item")
            if it and it[0][0] != "1":
                # a row with a repeat count: `metaTable` holds one struct letter per row, so the count must not be
                # dropped.  The row `n: "nB"` is literally what the fallback rule `str(mlen) + "B"` produces for n
                # (checked below to be still in place), i.e. the same function without the row: leave it out.
                # Any other counted row ("2H" for 4 bytes, "3B" for 2 bytes) is not representable: report it.
                if it[0] == (str(k.value), CODES["B"]):
                    continue
                raise Missing(f"msfmt row {k.value}: {v.value!r} has a repeat count")
            rows.append((k.value, it[0][1] if it else None))
        s = unparse(f)
        if "meta = str(mlen) + 'B'" not in s:
            raise Missing("msfmt fallback str(mlen)+'B'")
        return "[%s]" % ", ".join("(%d, %s)" % (k, "none" if c is None else f"some {c}") for k, c in rows)
    o.d("metaTable", "List (Nat × Option Code)", meta, "mlen -> single code; other lengths: mlen × B")

    # _stream_data_get guards (client): NUM and scale and scale != 1 -> divide; CHAR and len==1 -> decode(errors=replace)
    tp = parse(repo, "proto/parse.py")

    def sdg():
        f = find_func(find_class(tp, "Parser"), "_stream_data_get")
        s = unparse(f)
        div_guard = bool(re.search(r"decode\.dtype == EParseDataType\.NUM and decode\.scale and \(?decode\.scale != 1\)?", s))
        div_any = "decode.dtype == EParseDataType.NUM and decode.scale" in s
        repl = "unpacked[0].decode(errors='replace')" in s
        strict = "unpacked[0].decode()" in s
        if not div_any or not (repl or strict):
            raise Missing("_stream_data_get shape")
        return div_guard, repl
    o.d("decDividesOnlyScaled", "Bool", lambda: lean_bool(sdg()[0]), "division skipped when scale == 1")
    o.d("decCharReplace", "Bool", lambda: lean_bool(sdg()[1]), "char data decoded with errors='replace'")

    tr = parse(repo, "proto/parserecv.py")

    def enc():
        f = find_func(find_class(tr, "ParseRecv"), "_stream_bytes_get")
        s = unparse(f)
        rnd = bool(re.search(r"if decode\.scale != 1:\n\s+vect_scale_l = \[round\(x\) for x in vect_scale_l\]", s))
        return rnd
    o.d("encRoundsFixed", "Bool", lambda: lean_bool(enc()), "scaled values converted to int before packing")
    return o


def gen_record(repo):
    o = Out("Record")
    t = parse(repo, "dev.py")

    def fields(cls):
        out = []
        for st in cls.body:
            if isinstance(st, ast.AnnAssign) and isinstance(st.target, ast.Name):
                out.append(st.target.id)
        return out

    def allow(cls):
        f = find_func(cls, "__setattr__")
        s = unparse(f)
        if not s.rstrip().endswith("self.__dict__[name] = value") or "if self._initdone:" not in s:
            raise Missing(f"{cls.name}.__setattr__ shape")
        m = re.search(r"if name not in (\[[^\]]*\]):\n\s+msg = .*\n\s+raise TypeError\(msg\)", s)
        if m:
            return ast.literal_eval(m.group(1))
        if re.search(r"if self\._initdone:\n\s+msg = .*\n\s+raise TypeError\(msg\)", s):
            return []
        raise Missing(f"{cls.name}.__setattr__ allow-list")

    def strlist(xs):
        return "[%s]" % ", ".join('"%s"' % x for x in xs)
    ch = find_class(t, "DDeviceChannelData")
    dv = find_class(t, "DDeviceData")
    o.d("chanFields", "List String", lambda: strlist(fields(ch)))
    o.d("chanAllow", "List String", lambda: strlist(allow(ch)))
    o.d("devFields", "List String", lambda: strlist(fields(dv)))
    o.d("devAllow", "List String", lambda: strlist(allow(dv)))

    def post(cls):
        f = find_func(cls, "__post_init__")
        return f, unparse(f)

    def mask(cls, attr, pat):
        _, s = post(cls)
        m = re.search(pat, s)
        if not m:
            raise Missing(f"{cls.name}.__post_init__ {attr}")
        return str(int(m.group(1), 0))
    o.d("dtypeMask", "Nat", lambda: mask(ch, "dtype", r"self\.dtype = self\._type & (\w+)\n"))
    o.d("criticalMask", "Nat", lambda: mask(ch, "critical", r"self\.critical = bool\(self\._type & (\w+)\)"))
    o.d("typeResMask", "Nat", lambda: mask(ch, "type_res", r"self\.type_res = self\._type & (\w+)\n"))

    def initdone_last(cls):
        f, _ = post(cls)
        if unparse(f.body[-1]) != "self._initdone = True":
            raise Missing(f"{cls.name}.__post_init__ must end with self._initdone = True")
        return "true"
    def post_order(cls):
        f, _ = post(cls)
        names = []
        for st in f.body:
            if isinstance(st, ast.Expr) and isinstance(st.value, ast.Constant):
                continue
            if isinstance(st, ast.Assign) and len(st.targets) == 1 and isinstance(st.targets[0], ast.Attribute) \
               and unparse(st.targets[0].value) == "self":
                names.append(st.targets[0].attr)
            else:
                raise Missing(f"{cls.name}.__post_init__ statement {unparse(st)[:40]}")
        return strlist(names)

    def init_order(cls):
        """fields the dataclass-generated __init__ assigns, in order: the init=True fields"""
        out = []
        for st in cls.body:
            if isinstance(st, ast.AnnAssign) and isinstance(st.target, ast.Name):
                v = st.value
                if isinstance(v, ast.Call) and unparse(v.func) == "field":
                    kws = {k.arg: unparse(k.value) for k in v.keywords}
                    if kws.get("init") == "False":
                        # not assigned by __init__ (a default, if any, stays a class attribute)
                        continue
                out.append(st.target.id)
        return strlist(out)
    o.d("chanInitOrder", "List String", lambda: init_order(ch), "assigned by the generated __init__")
    o.d("chanPostOrder", "List String", lambda: post_order(ch), "assigned by __post_init__, in order")
    o.d("devInitOrder", "List String", lambda: init_order(dv))
    o.d("devPostOrder", "List String", lambda: post_order(dv))
    o.d("chanInitdoneLast", "Bool", lambda: initdone_last(ch))
    o.d("devInitdoneLast", "Bool", lambda: initdone_last(dv))

    tyvals = dict(enum_members(find_class(t, "EDeviceChannelType")))
    flvals = dict(enum_members(find_class(t, "EDeviceFlags")))

    def nonnum():
        _, s = post(ch)
        m = re.search(r"self\.is_numerical = self\.dtype not in \[([^\]]*)\]", s)
        if not m:
            raise Missing("is_numerical list")
        names = re.findall(r"EDeviceChannelType\.(\w+)\.value", m.group(1))
        return "[%s]" % ", ".join(str(tyvals[n]) for n in names)
    o.d("nonNumerical", "List Nat", nonnum)

    def validrule():
        _, s = post(ch)
        if "self.is_valid = self.dtype is not EDeviceChannelType.UNDEF.value" not in s:
            raise Missing("is_valid rule")
        return str(tyvals["UNDEF"])
    o.d("undefType", "Nat", validrule)

    def flag(attr, member):
        _, s = post(dv)
        if not re.search(rf"self\.{attr} = bool\(self\.flags & EDeviceFlags\.{member}\.value\)", s):
            raise Missing(f"DDeviceData {attr}")
        return str(flvals[member])
    o.d("divFlag", "Nat", lambda: flag("div_supported", "DIVIDER_SUPPORT"))
    o.d("ackFlag", "Nat", lambda: flag("ack_supported", "ACK_SUPPORT"))
    return o


def gen_recv(repo):
    """ParseRecv.recv_handle guards, payload slice and the callback table with its length assertions"""
    o = Out("Recv", imports=("NxsModel.Struct", "NxsModel.Gen.Ids"))
    tr = parse(repo, "proto/parserecv.py")
    R = find_class(tr, "ParseRecv")
    f = find_func(R, "recv_handle")
    ifs = [n for n in ast.walk(f) if isinstance(n, ast.If)]

    def ret_none(i):
        return any(isinstance(s, ast.Return) and s.value is None for s in i.body)

    def has(test_src):
        return any(unparse(i.test) == test_src and ret_none(i) for i in ifs)
    o.d("guardNoSof", "Bool", lambda: lean_bool(has("hdr_start < 0")), "no start byte -> ignored")
    o.d("guardShort", "Bool", lambda: lean_bool(has("len(data) - hdr_start < self._frame.hdr_len + self._frame.foot_len")),
        "fewer than hdr+foot bytes after the start byte -> ignored")
    o.d("guardHdr", "Bool", lambda: lean_bool(has("hdr.err is not EParseError.NOERR")))
    o.d("guardMin", "Bool", lambda: lean_bool(has("hdr.flen < self._frame.hdr_len + self._frame.foot_len")))
    o.d("guardMax", "Bool", lambda: lean_bool(has("hdr.flen > len(data)")))
    o.d("guardCrc", "Bool", lambda: lean_bool(has("self._frame.foot_validate(data[:hdr.flen]) is False")))

    def shape():
        s = unparse(f)
        need = ["hdr_start = self._frame.hdr_find(data)", "data = data[hdr_start:]",
                "hdr = self._frame.hdr_decode(data)",
                "fdata = data[self._frame.hdr_len:hdr.flen - self._frame.foot_len]",
                "self._recv_cb_handle(hdr.fid, fdata)"]
        pos = []
        for n in need:
            if n not in s:
                raise Missing(f"recv_handle statement {n!r}")
            pos.append(s.index(n))
        if pos != sorted(pos):
            raise Missing("recv_handle statement order")
        # crop must come before header decode and guards on the cropped data
        return "true"
    o.d("shapeOk", "Bool", shape, "find, crop, decode, guards, slice [hdr_len : flen - foot_len], dispatch")

    # callback table: fid -> (cb name, assertion op, k)
    def table():
        h = find_func(R, "_recv_cb_handle")
        rows = []
        node = h.body[0]
        while isinstance(node, ast.If):
            m = re.fullmatch(r"fid == EParseId\.(\w+)", unparse(node.test))
            if not m or len(node.body) != 1:
                raise Missing("_recv_cb_handle branch " + unparse(node.test))
            mm = re.fullmatch(r"self\._recv_cb_(\w+)\(fdata\)", unparse(node.body[0]))
            if not mm:
                raise Missing("_recv_cb_handle call " + unparse(node.body[0]))
            rows.append((m.group(1), mm.group(1)))
            if len(node.orelse) == 1 and isinstance(node.orelse[0], ast.If):
                node = node.orelse[0]
            else:
                if [unparse(x) for x in node.orelse] != ["raise AssertionError"]:
                    raise Missing("_recv_cb_handle else: raise AssertionError")
                break
        out = []
        for fidname, cb in rows:
            g = find_func(R, f"_recv_cb_{cb}")
            body = [unparse(x) for x in g.body if not (isinstance(x, ast.Expr) and isinstance(x.value, ast.Constant))]
            if len(body) != 2 or body[1] != f"self._recv_cb.{cb}(data)":
                raise Missing(f"_recv_cb_{cb} body")
            ma = re.fullmatch(r"assert len\(data\) (==|!=) (\d+)", body[0])
            if not ma:
                raise Missing(f"_recv_cb_{cb} assertion")
            out.append((fidname, cb, ma.group(1) == "==", int(ma.group(2))))
        return out
    try:
        rows = table()
        o.raw("/-- (frame id, callback name index, assertion is equality?, k): the callback fires iff len(payload) ==/!= k -/")
        o.raw("def cbTable : List (Nat × Nat × Bool × Nat) := [")
        names = ["cmninfo", "chinfo", "enable", "div", "start"]
        for i, (fidname, cb, eq, k) in enumerate(rows):
            if cb not in names:
                raise Missing(f"callback {cb}")
            o.raw(f"  (Nxs.Gen.Ids.id{fidname}, {names.index(cb)}, {lean_bool(eq)}, {k}){',' if i < len(rows)-1 else ''}  -- {fidname} -> {cb}")
        o.raw("]")
    except Missing as e:
        o.raw(f"def cbTable : List (Nat × Nat × Bool × Nat) := default  -- translator_site_missing_Recv_cbTable -- {e}")
    return o


def gen_comm(repo):
    """comm.py: handshake retry counters, timeouts, drain counters, clean-up on failure, receive-loop shapes"""
    o = Out("Comm")
    t = parse(repo, "comm.py")
    C = find_class(t, "CommHandler")

    def tenths(x):
        v = round(float(x) * 10)
        if abs(v - float(x) * 10) > 1e-9:
            raise Missing(f"timeout {x} is not a multiple of 0.1 s")
        return v

    def counter(fname, var):
        """(initial literal, exit test `var < 0`, decrement by 1) -> number of attempts = init + 1"""
        f = find_func(C, fname)
        src_ = unparse(f)
        m = re.search(rf"\b{var} = (\d+)\n", src_)
        if not m or f"{var} -= 1" not in src_ or not re.search(rf"if {var} < 0:", src_):
            raise Missing(f"{fname}: bounded retry counter `{var}` (init literal, `if {var} < 0`, `{var} -= 1`)")
        return str(int(m.group(1)) + 1)
    o.d("connectAttempts", "Nat", lambda: counter("_start", "timeout"), "attempts of _devinfo_get before TimeoutError")
    o.d("chinfoAttempts", "Nat", lambda: counter("_devinfo_get", "retry"), "attempts per channel before giving up")

    def loop_shape():
        f = find_func(C, "_start")
        s_ = unparse(f)
        ok = re.search(r"while self\._dev is None:\n\s+if timeout < 0:\n(\s+.*\n)*?\s+raise TimeoutError\(msg\)\n\s+self\._dev = self\._devinfo_get\(\)\n\s+timeout -= 1", s_)
        if not ok:
            raise Missing("_start: while self._dev is None / raise TimeoutError / _devinfo_get / timeout -= 1")
        return "true"
    o.d("connectLoopShape", "Bool", loop_shape)

    def chinfo_shape():
        f = find_func(C, "_devinfo_get")
        s_ = unparse(f)
        ok = re.search(r"while chan is None:\n\s+if retry < 0:\n\s+return None\n\s+chan = self\._nxslib_chinfo\(i\)\n\s+retry -= 1", s_)
        if not ok:
            raise Missing("_devinfo_get: while chan is None / if retry < 0: return None / _nxslib_chinfo / retry -= 1")
        return "true"
    o.d("chinfoLoopShape", "Bool", chinfo_shape)

    def cleanup():
        f = find_func(C, "_start")
        for n in ast.walk(f):
            if isinstance(n, ast.Try):
                body = "\n".join(unparse(x) for x in n.body)
                if "self._devinfo_get()" in body and n.handlers:
                    h = n.handlers[0]
                    hs = [unparse(x) for x in h.body]
                    if h.type is not None and unparse(h.type) in ("Exception", "BaseException") and \
                       hs == ["self._thrd.thread_stop()", "self._intf.stop()", "raise"]:
                        return True
        return False
    o.d("startCleansUp", "Bool", lambda: lean_bool(cleanup()), "a failed handshake stops the receive thread and the interface, then re-raises")

    def get_timeout(fname, callee):
        f = find_func(C, fname)
        for n in ast.walk(f):
            if isinstance(n, ast.Call) and unparse(n.func) == f"self.{callee}":
                for k in n.keywords:
                    if k.arg == "timeout" and isinstance(k.value, ast.Constant):
                        return str(tenths(k.value.value))
        raise Missing(f"{fname}: self.{callee}(timeout=<literal>)")
    o.d("cmninfoTimeout", "Nat", lambda: get_timeout("_nxslib_cmninfo", "_get_frame"), "tenths of a second")
    o.d("chinfoTimeout", "Nat", lambda: get_timeout("_nxslib_chinfo", "_get_frame"))
    o.d("ackTimeoutEnable", "Nat", lambda: get_timeout("_channel_enable", "_get_ack"))
    o.d("ackTimeoutDiv", "Nat", lambda: get_timeout("_channel_div", "_get_ack"))
    o.d("ackTimeoutStart", "Nat", lambda: get_timeout("stream_start", "_get_ack"))
    o.d("ackTimeoutStop", "Nat", lambda: get_timeout("stream_stop", "_get_ack"))

    def stream_data_timeout():
        """`stream_data()` calls `_get_stream_frame()` without an argument: the wait is that method's default"""
        f = find_func(C, "_get_stream_frame")
        a = f.args
        names = [x.arg for x in a.args]
        if "timeout" not in names or not a.defaults:
            raise Missing("_get_stream_frame: `timeout` parameter with a default")
        d = a.defaults[len(a.defaults) - (len(names) - names.index("timeout"))]
        if not isinstance(d, ast.Constant):
            raise Missing("_get_stream_frame: literal default timeout")
        sd = unparse(find_func(C, "stream_data"))
        if "self._get_stream_frame()" not in sd:
            raise Missing("stream_data: polls with the default timeout")
        return str(tenths(d.value))
    o.d("streamDataTimeout", "Nat", stream_data_timeout, "the stream thread's poll of the stream queue (tenths of a second)")

    def drain():
        f = find_func(C, "_drop_all_frames")
        s_ = unparse(f)
        m = re.fullmatch(r"def _drop_all_frames\(self\) -> None:\n\s+cntr = (\d+)\n\s+while cntr > 0:\n\s+ret = self\._get_frame\(timeout=([\d.]+)\)\n\s+if not ret:\n\s+cntr -= 1\n\s+cntr = (\d+)\n\s+while cntr > 0:\n\s+ret = self\._get_stream_frame\(timeout=([\d.]+)\)\n\s+if not ret:\n\s+cntr -= 1", s_.strip())
        if not m:
            raise Missing("_drop_all_frames shape")
        return int(m.group(1)), tenths(m.group(2)), int(m.group(3)), tenths(m.group(4))
    o.d("drainPolls", "Nat", lambda: str(drain()[0]), "empty polls of the response queue")
    o.d("drainPollTime", "Nat", lambda: str(drain()[1]))
    o.d("drainStreamPolls", "Nat", lambda: str(drain()[2]))
    o.d("drainStreamPollTime", "Nat", lambda: str(drain()[3]))

    def get_ack_shape():
        f = find_func(C, "_get_ack")
        s_ = unparse(f)
        if "if self.dev is None or not self.dev.data.ack_supported:\n        return ParseAck(True, 0)" not in s_:
            raise Missing("_get_ack: immediate success without device / ACK support")
        if not re.search(r"frame = self\._get_frame\(timeout\)\n\s+if frame is None:\n\s+return ParseAck\(False, -1\)", s_):
            raise Missing("_get_ack: timeout -> ParseAck(False, -1)")
        return "true"
    o.d("getAckShape", "Bool", get_ack_shape)

    def read_hdr():
        f = find_func(C, "_read_hdr")
        s_ = unparse(f)
        empty = bool(re.search(r"rdata = self\._intf\.read\(\)\n\s+if not rdata:\n\s+self\._prev_read = _bytes\n\s+return \(None, None\)\n\s+_bytes \+= rdata", s_))
        short = bool(re.search(r"_bytes = _bytes\[i:\]\n\s+if len\(_bytes\) < self\._parse\.frame\.hdr_len:\n\s+self\._prev_read = _bytes\n\s+continue", s_))
        drop1 = bool(re.search(r"if hdr\.err is not EParseError\.NOERR:\n\s+self\._prev_read = _bytes\[1:\]\n\s+return \(None, None\)", s_))
        nosof = bool(re.search(r"if i < 0:\n\s+self\._prev_read = b''\n\s+return \(None, None\)", s_))
        return empty, short, drop1, nosof
    o.d("hdrReturnsOnEmptyRead", "Bool", lambda: lean_bool(read_hdr()[0]), "an empty read stores the buffer and returns")
    o.d("hdrKeepsShortCandidate", "Bool", lambda: lean_bool(read_hdr()[1]), "start byte with < hdr_len bytes is kept")
    o.d("hdrDropsOneOnBadHeader", "Bool", lambda: lean_bool(read_hdr()[2]))
    o.d("hdrDropsAllWithoutSof", "Bool", lambda: lean_bool(read_hdr()[3]))

    def read_frame():
        f = find_func(C, "_read_frame")
        s_ = unparse(f)
        a = bool(re.search(r"while len\(_bytes\) < hdr\.flen:\n\s+rdata = self\._intf\.read\(\)\n\s+if not rdata:\n\s+break\n\s+_bytes \+= rdata", s_))
        b = bool(re.search(r"if len\(_bytes\) < hdr\.flen:\n\s+self\._prev_read = _bytes\n\s+return None", s_))
        c = bool(re.search(r"possible_frame = _bytes\[:hdr\.flen\]\n\s+frame_decoded = self\._parse\.frame\.frame_decode\(possible_frame\)\n\s+if frame_decoded\.err is not EParseError\.NOERR:\n\s+self\._prev_read = _bytes\[1:\]\n\s+return None\n\s+self\._prev_read = _bytes\[hdr\.flen:\]\n\s+return frame_decoded", s_))
        return a and b and c
    o.d("readFrameShape", "Bool", lambda: lean_bool(read_frame()), "accumulate flen bytes, decode, keep remainder / drop one byte")
    return o


def _norm(src_):
    """normalise EXPECTED code through the same parser/unparser as the source (independent of the Python
    version's unparse style), then collapse whitespace"""
    import textwrap
    try:
        src_ = ast.unparse(ast.parse(textwrap.dedent(src_)))
    except SyntaxError:
        pass
    # keep the indentation (block structure matters: a statement moved out of an `if` is a different program);
    # only blank lines and trailing blanks go
    return "\n".join(ln.rstrip() for ln in src_.splitlines() if ln.strip())


def gen_cfgshape(repo):
    """comm.py / nxscope.py: statement shapes of the configuration write path, the setters and the
    life-cycle / fan-out methods that the hand models (Config, Lifecycle, Fanout) transcribe"""
    o = Out("CfgShape")
    t = parse(repo, "comm.py")
    C = find_class(t, "CommHandler")
    tn = parse(repo, "nxscope.py")
    N = find_class(tn, "NxscopeHandler")

    def body(cls, name):
        f = find_func(cls, name)
        stmts = [x for x in f.body if not (isinstance(x, ast.Expr) and isinstance(x.value, ast.Constant))]
        return _norm("\n".join(unparse(x) for x in stmts))

    def write_path(kind):
        fn = "_nxslib_channels_enable" if kind == "en" else "_nxslib_channels_div"
        call = "_channel_enable" if kind == "en" else "_channel_div"
        upd = "en_channels_update" if kind == "en" else "div_channels_update"
        b = body(C, fn)
        want = _norm(f"""with self._channels_lock:
    assert self._channels
    j = 0
    k = 0
    for (i, _) in enumerate(self._channels.{kind}_now):
        if self._channels.{kind}_new[i] != self._channels.{kind}_now[i]:
            j += 1
            k = i
    if j == 1 and (not self._channels.{kind}_resync):
        {kind}_req_t = (k, self._channels.{kind}_new[k])
        ret = self.{call}({kind}_req_t)
    else:
        {kind}_req_l = self._channels.{kind}_new
        ret = self.{call}({kind}_req_l)
    if ret.state is False:
        self._channels.{kind}_resync = True
        return
    self._channels.{kind}_resync = False
    self._channels.{kind}_now = copy.deepcopy(self._channels.{kind}_new)
    assert self.dev
    self.dev.{upd}(self._channels.{kind}_now)""")
        if b != want:
            raise Missing(f"{fn}: diff / single-or-vector / resync / update shape")
        return "true"
    o.d("enableWriteShape", "Bool", lambda: write_path("en"),
        "diff of requested vs acknowledged; single request iff exactly one change and not in doubt; failed ACK sets the doubt flag only; success copies requested -> acknowledged -> device copy; all under the channels lock")
    o.d("divWriteShape", "Bool", lambda: write_path("div"))

    def channels_write():
        if body(C, "channels_write") != _norm("""assert self.dev
if self.dev.data.chmax == 0:
    return
if self.dev.data.div_supported:
    self._nxslib_channels_div()
self._nxslib_channels_enable()"""):
            raise Missing("channels_write: nothing for a device without channels; divider request only with divider support, then enable request")
        return "true"
    o.d("channelsWriteShape", "Bool", channels_write,
        "no-op for chmax = 0 (F18); otherwise divider request iff divider support, then enable request")

    def setter(name, vec, val):
        want = _norm(f"""with self._channels_lock:
    assert self._channels
    if isinstance(chans, list):
        for chan in chans:
            self._channels.{vec}[chan] = {val}
    elif isinstance(chans, int):
        self._channels.{vec}[chans] = {val}
    else:
        raise TypeError""")
        b = body(C, name)
        if not b.endswith(want):
            raise Missing(f"{name}: setter touches only the requested vector under the channels lock")
        return "true"
    o.d("enableSetterShape", "Bool", lambda: setter("ch_enable", "en_new", "True"))
    o.d("disableSetterShape", "Bool", lambda: setter("ch_disable", "en_new", "False"))

    def divider_setter():
        return exact_body(C, "ch_divider", """
if div < 0 or div > 255:
    raise ValueError
assert self.dev
if not self.dev.data.div_supported and div > 0:
    logger.error('divider not supported by device !')
with self._channels_lock:
    assert self._channels
    if isinstance(chans, list):
        for chan in chans:
            self._channels.div_new[chan] = div
    elif isinstance(chans, int):
        self._channels.div_new[chans] = div
    else:
        raise TypeError
""", "ch_divider: range check 0..255, device assertion, then only the requested divider vector under the channels lock",
                          sig="self, chans, div")
    o.d("dividerSetterShape", "Bool", divider_setter)

    def is_enabled():
        if body(C, "ch_is_enabled") != _norm("with self._channels_lock:\n    assert self._channels\n    return self._channels.en_now[chan]"):
            raise Missing("ch_is_enabled reads the acknowledged vector under the channels lock")
        if body(C, "ch_div_get") != _norm("with self._channels_lock:\n    assert self._channels\n    return self._channels.div_now[chan]"):
            raise Missing("ch_div_get reads the acknowledged vector under the channels lock")
        return "true"
    o.d("reportShape", "Bool", is_enabled)

    def channels_init():
        b = body(C, "_channels_init")
        if b != _norm("""with self._channels_lock:
    self._channels = DCommChannelsData(copy.deepcopy(dev.channels_en), copy.deepcopy(dev.channels_en), copy.deepcopy(dev.channels_div), copy.deepcopy(dev.channels_div))"""):
            raise Missing("_channels_init: all four vectors from the device's reported state")
        return "true"
    o.d("channelsInitShape", "Bool", channels_init)

    # nxscope.py life cycle and fan-out
    def disconnect():
        if body(N, "disconnect") != _norm("""if self._connected is True:
    self.stream_stop()
    self.ch_disable_all(True)
    self._comm.disconnect()
    self._connected = False"""):
            raise Missing("NxscopeHandler.disconnect: stop stream, disable all + write, comm.disconnect, flag")
        return "true"
    o.d("disconnectShape", "Bool", disconnect)

    def connect():
        b = body(N, "connect")
        want = _norm("""if self._connected is True:
    logger.info('WARNING: ALREADY CONNECTED!')
    return self._comm.dev
logger.info('pintf.py: connect')
self._comm.connect()
assert self.dev
self._sub_q = [[] for _ in range(self.dev.data.chmax)]
self._connected = True
return self._comm.dev""")
        if b != want:
            raise Missing("NxscopeHandler.connect shape")
        return "true"
    o.d("connectShape", "Bool", connect)

    def stream_start_stop():
        if body(N, "stream_start") != _norm("""if not self._stream_started:
    self.channels_write()
    self._stream_start()
    self._thrd.thread_start()
    self._stream_started = True"""):
            raise Missing("stream_start shape")
        if body(N, "stream_stop") != _norm("""if self._stream_started is True:
    self._stream_stop()
    self._thrd.thread_stop()
    self._stream_started = False"""):
            raise Missing("stream_stop shape")
        return "true"
    o.d("streamStartStopShape", "Bool", stream_start_stop)

    def fanout():
        b = body(N, "_stream_thread")
        want_tail = _norm("""for data in sdata.samples:
        if self._comm.ch_is_enabled(data.chan) is True:
            samples[data.chan].append(DNxscopeStream(data.data, data.meta))
    with self._queue_lock:
        for chan in range(chmax):
            if len(samples[chan]) > 0:
                for que in self._sub_q[chan]:
                    que.put(samples[chan])""")
        if not b.endswith(want_tail) or "sdata = self._comm.stream_data()" not in b:
            raise Missing("_stream_thread: group samples of enabled channels, put each group on every queue of its channel under the queue lock")
        return "true"
    o.d("fanoutShape", "Bool", fanout)

    def sub_unsub():
        if body(N, "stream_sub") != _norm("""subq: queue.Queue[list[DNxscopeStream]] = queue.Queue()
with self._queue_lock:
    self._sub_q[chan].append(subq)
return subq"""):
            raise Missing("stream_sub shape")
        if body(N, "stream_unsub") != _norm("""with self._queue_lock:
    for (i, sub) in enumerate(self._sub_q):
        if subq in sub:
            self._sub_q[i].remove(subq)"""):
            raise Missing("stream_unsub shape")
        return "true"
    o.d("subUnsubShape", "Bool", sub_unsub)

    def recv_route():
        b = body(C, "_recv_thread")
        want = _norm("""frame = self._read_frame()
if frame:
    if self._parse.frame_is_stream(frame):
        self._q_stream.put(frame)
    elif self.dev is None and self._parse.frame_is_ack(frame):
        pass
    else:
        self._q.put(frame)""")
        if b != want:
            raise Missing("_recv_thread routing: stream frames to the stream queue, everything else to the response queue (ACKs dropped before the device is known)")
        return "true"
    o.d("recvRouteShape", "Bool", recv_route)
    return o


GENERATORS = [gen_frame, gen_crc, gen_ids, gen_fmt, gen_types, gen_record, gen_recv, gen_comm, gen_cfgshape]


def write_if_changed(path, text):
    try:
        with open(path, encoding="utf-8") as f:
            if f.read() == text:
                return False
    except FileNotFoundError:
        pass
    os.makedirs(os.path.dirname(path), exist_ok=True)
    with open(path, "w", encoding="utf-8") as f:
        f.write(text)
    return True


def run(repo=REPO, out=OUT, only=None):
    """returns {name: {"changed": bool, "missing": [..], "facts": {...}}}"""
    # late import so optional generator modules can register themselves
    try:
        import translate_more  # noqa: F401
        gens = GENERATORS + translate_more.GENERATORS
    except ImportError:
        gens = GENERATORS
    res = {}
    for g in gens:
        try:
            o = g(repo)
        except Exception as e:  # noqa: BLE001 - a source the generator cannot digest is a missing site, not a crash
            nm = g.__name__[4:].capitalize()
            o = Out(nm)
            o.raw(f"def generatorFailed : Nat := translator_site_missing_{nm}  -- " + str(e).replace("\n", " "))
        if only and o.name not in only:
            continue
        text = o.text()
        changed = write_if_changed(os.path.join(out, o.name + ".lean"), text)
        missing = re.findall(r"translator_site_missing_\w+\s+-- .*", text)
        res[o.name] = {"changed": changed, "missing": missing}
    return res


if __name__ == "__main__":
    args = sys.argv[1:]
    repo = REPO
    out = OUT
    if "--repo" in args:
        repo = args[args.index("--repo") + 1]
    if "--out" in args:
        out = args[args.index("--out") + 1]
    r = run(repo, out)
    if "--json" in args:
        print(json.dumps(r, indent=1))
    else:
        for k, v in r.items():
            print(f"{k}: {'changed' if v['changed'] else 'same'}" + ("".join("\n  MISSING " + m for m in v["missing"])))
