#!/usr/bin/env python3
"""Regenerate MANIFEST.json from harness/props/*.py metadata + the table below."""
import json
import os
import sys

HERE = os.path.dirname(os.path.abspath(__file__))
ROOT = os.path.dirname(HERE)
sys.path.insert(0, HERE)

ALL = [f"C{i:02d}" for i in range(1, 21)]

# id -> (technique, level text, level note, design ref)
META = {}


def load_meta():
    p = os.path.join(HERE, "manifest_meta.json")
    return json.load(open(p))


def main():
    meta = load_meta()
    checks = []
    na = []
    for pid in ALL:
        m = meta.get(pid)
        if not m or not m.get("claimed"):
            na.append({"property_id": pid, "reason": (m or {}).get("reason", "check not implemented yet (work in progress, see DESIGN.md section 9)")})
            continue
        checks.append({
            "property_id": pid,
            "quick_cmd": f"./check {pid} quick",
            "thorough_cmd": f"./check {pid} thorough",
            "evidence_file": f"evidence/{pid}.json",
            "replay_cmd_template": f"./check {pid} --replay {{path}}",
            "engine": "lean4-proof+correspondence",
            "level_claimed": {"category": "proof", "text": m["text"], "design_ref": m.get("design_ref", f"DESIGN.md section 5/{pid}")},
            "level_note": m["note"],
            "technique": m["technique"],
        })
    man = {
        "version": 1,
        "setup_cmd": "./setup.sh",
        "hooks": {"guard": "NXSLIB_VERIF", "enable": "none needed: the harness rebinds module globals of nxslib from its own process; no source hooks in /repo",
                  "baseline_off_cmd": "cd /repo && /venv/bin/python -m pytest -ra -q -p no:cacheprovider --timeout=900 --continue-on-collection-errors",
                  "source_commits": [], "add_only": True},
        "engines": [{"name": "lean4-proof+correspondence", "path": "lean/ + harness/",
                     "serves_properties": [c["property_id"] for c in checks],
                     "kind_free_text": "Lean 4 model + theorems (kernel-checked), model constants regenerated from /repo by harness/translate.py on every run, differential correspondence of the model driver against the real code, failing-input search with independent oracles"}],
        "checks": checks,
        "not_applicable": na,
        "notes": "See DESIGN.md (section 5: per-property design as built; 6: findings; 7: trusted base; 10: seeded breaking changes and what each check reports; 11: independent review). 20 genuine defects (F1-F16, F18-F21) were repaired by `fix:` commits in /repo and are listed as fixed in known_findings.json (fixed entries suppress nothing; their inputs are the regression corpus harness/corpus/); two known findings: C14 batch-too-large (F17) and C15 fixed-point-53-bits (a 32.32 fixed-point value with more than 53 significant bits, expressible only as a Fraction, does not round-trip). No hooks in /repo: instrumentation is done by rebinding module globals from the harness process (harness/vsim.py, harness/sched.py). Every function a hand-written model transcribes is pinned to its validated text (harness/translate_pins.py, Props/PinsCxx.lean). Cross-property composition theorems: lean/NxsModel/Props/E2E.lean (audited by harness/audit_all.py). Translator self-tests: harness/test_translate*.py.",
    }
    with open(os.path.join(ROOT, "MANIFEST.json"), "w") as f:
        json.dump(man, f, indent=1)
        f.write("\n")


if __name__ == "__main__":
    main()
