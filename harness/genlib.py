"""Generators shared by several property checks: valid frames, malformed frames, noise, chunkings.
Everything derives from the `random.Random` passed in."""
from ref import ref_crc16_xmodem, ref_frame

REQ_IDS = [2, 3, 5, 6, 7]


def rbytes(rng, n):
    return bytes(rng.randrange(256) for _ in range(n))


def valid_frame(rng, fid=None, maxlen=24):
    if fid is None:
        fid = rng.randrange(9)
    n = rng.choice([0, 0, 1, 1, 2, 3, rng.randrange(0, maxlen + 1)])
    return ref_frame(fid, rbytes(rng, n))


def request_frame(rng):
    """a well-formed request as the client would send it (payload length legal for its id)"""
    fid = rng.choice(REQ_IDS)
    if fid == 2:
        p = b""
    elif fid in (3, 5):
        p = bytes([rng.randrange(256)])
    else:
        p = rbytes(rng, rng.randrange(1, 12))
    return ref_frame(fid, p)


_RESIDUE = None


def residue_table():
    """delta (16-bit, xored into the stored CRC) -> residue it produces on an otherwise valid frame"""
    global _RESIDUE
    if _RESIDUE is None:
        t = {}
        for d in range(1, 65536):
            t[ref_crc16_xmodem(bytes([d >> 8, d & 0xFF]))] = d
        _RESIDUE = t
    return _RESIDUE


def near_miss(frame, residue):
    """replace the stored CRC so that the residue over the frame is exactly `residue` (≠ 0)"""
    d = residue_table()[residue]
    return frame[:-2] + bytes([frame[-2] ^ (d >> 8), frame[-1] ^ (d & 0xFF)])


NEAR_RESIDUES = [0x0001, 0x0080, 0x00FF, 0x0100, 0x8000, 0xFF00, 0x1021, 0xFFFF]


def flip_bits(data, positions):
    b = bytearray(data)
    for p in positions:
        b[p // 8] ^= 0x80 >> (p % 8)
    return bytes(b)


def set_len(frame, n):
    return frame[:1] + bytes([n & 0xFF, (n >> 8) & 0xFF]) + frame[3:]


def noise(rng, n, sof_rich=False):
    if sof_rich:
        return bytes(rng.choice([0x55, 0x55, 0x00, 0x06, 0x07, rng.randrange(256)]) for _ in range(n))
    return rbytes(rng, n)


def compositions(n):
    """all ways to split range(n) into consecutive non-empty chunks, as lists of chunk sizes"""
    if n == 0:
        yield []
        return
    for mask in range(1 << (n - 1)):
        sizes = []
        cur = 1
        for i in range(n - 1):
            if mask >> i & 1:
                sizes.append(cur)
                cur = 1
            else:
                cur += 1
        sizes.append(cur)
        yield sizes


def chunk(data, sizes):
    out = []
    i = 0
    for s in sizes:
        out.append(data[i:i + s])
        i += s
    assert i == len(data)
    return out


def random_chunking(rng, data, empties=True):
    out = []
    i = 0
    while i < len(data):
        if empties and rng.random() < 0.15:
            out.append(b"")
            continue
        s = rng.choice([1, 1, 2, 3, 4, 5, 7, rng.randrange(1, max(2, len(data)))])
        out.append(data[i:i + s])
        i += s
    if empties and rng.random() < 0.3:
        out.append(b"")
    return out
