#!/usr/bin/env python3
"""Evaluate seeded breaking changes (/verif/seeded/<name>/{patch.diff, demo.py, meta.json}).

For each: in a scratch git worktree of /repo (outside /repo and /verif) confirm that the
demonstration passes without the patch and fails with it and that the existing test suite still
passes with it; then run the property's check (quick, optionally thorough) from a scratch copy of
/verif with NXS_REPO pointing at the patched worktree, and record what the check reported.
Scratch directories are removed afterwards.

usage: seeded_eval.py [--no-tests] [--thorough] [--jobs N] [--as=Cyy] <name>...      (names under /verif/seeded)
"""
import json
import os
import re
import shutil
import subprocess
import sys
import time
from concurrent.futures import ThreadPoolExecutor

ROOT = os.path.dirname(os.path.dirname(os.path.abspath(__file__)))
SEEDED = os.path.join(ROOT, "seeded")
PY = "/venv/bin/python"


def sh(cmd, cwd=None, env=None, timeout=3600):
    p = subprocess.run(cmd, cwd=cwd, env=env, capture_output=True, text=True, timeout=timeout, shell=isinstance(cmd, str))
    return p.returncode, p.stdout + p.stderr


def evaluate(name, run_tests=True, thorough=False, as_prop=None):
    d = os.path.join(SEEDED, name)
    meta = json.load(open(os.path.join(d, "meta.json")))
    pid = as_prop or meta["property"]
    wt = f"/tmp/seed_wt_{name}_{pid}"
    vc = f"/tmp/seed_verif_{name}_{pid}"
    res = {"name": name, "property": pid}
    sh(["git", "-C", "/repo", "worktree", "remove", "--force", wt])
    shutil.rmtree(wt, ignore_errors=True)
    shutil.rmtree(vc, ignore_errors=True)
    rc, out = sh(["git", "-C", "/repo", "worktree", "add", "-q", wt, "HEAD"])
    assert rc == 0, out
    try:
        env = dict(os.environ, PYTHONPATH=os.path.join(wt, "src"))
        demo = [f for f in os.listdir(d) if f.startswith("demo")][0]
        shutil.copy(os.path.join(d, demo), os.path.join(wt, demo))
        cmd = [PY, "-m", "pytest", "-q", "-p", "no:cacheprovider", demo] if demo.startswith("demo_test") or demo.endswith("_test.py") else [PY, demo]
        rc0, o0 = sh(cmd, cwd=wt, env=env, timeout=600)
        res["demo_clean"] = rc0
        rc, out = sh(["git", "apply", os.path.join(d, "patch.diff")], cwd=wt)
        if rc != 0:
            res["error"] = "patch does not apply: " + out[-300:]
            return res
        rc1, o1 = sh(cmd, cwd=wt, env=env, timeout=600)
        res["demo_patched"] = rc1
        if run_tests:
            t0 = time.time()
            rct, ot = sh([PY, "-m", "pytest", "-q", "-p", "no:cacheprovider", "--timeout=300", "tests"], cwd=wt, env=env, timeout=1500)
            m = re.search(r"(\d+) passed", ot)
            res["tests_rc"] = rct
            res["tests_passed"] = int(m.group(1)) if m else None
            res["tests_s"] = round(time.time() - t0)
        # scratch copy of /verif so that the regenerated Gen files and rebuilt driver do not disturb /verif/lean
        shutil.copytree(ROOT, vc, ignore=shutil.ignore_patterns(".git", "seeded", "replays"), symlinks=True)
        envc = dict(os.environ, NXS_REPO=wt)
        for tier in (["quick", "thorough"] if thorough else ["quick"]):
            t0 = time.time()
            rcc, oc = sh(["timeout", "900", "./check", pid, tier], cwd=vc, env=envc, timeout=1000)
            lines = [l for l in oc.splitlines() if l.startswith("VIOLATION") or l.startswith("KNOWN-FINDING") or l.startswith(f"[{pid}]")]
            res[tier] = {"exit": rcc, "wall_s": round(time.time() - t0, 1), "lines": [l[:400] for l in lines[:8]]}
            reps = []
            for l in lines:
                mm = re.search(r"replay=(\S+)", l)
                if mm:
                    try:
                        r = json.load(open(os.path.join(vc, mm.group(1))))
                        reps.append({k: (str(v)[:300]) for k, v in r.items() if k in ("kind", "key", "what", "case", "expected", "observed", "scenario", "history")}
                                    | ({"broken_steps": [b["step"] for b in r.get("broken", [])]} if "broken" in r else {"broken_steps": r.get("broken_steps")}))
                    except Exception as e:  # noqa: BLE001
                        reps.append({"error": str(e)})
            res[tier]["replays"] = reps[:4]
            res[tier]["caught"] = rcc == 1 and any(l.startswith("VIOLATION") for l in lines)
            res[tier]["with_failing_input"] = any(l.startswith("VIOLATION") and "no-failing-input-found" not in l for l in lines)
        return res
    finally:
        sh(["git", "-C", "/repo", "worktree", "remove", "--force", wt])
        shutil.rmtree(wt, ignore_errors=True)
        shutil.rmtree(vc, ignore_errors=True)
        sh(["git", "-C", "/repo", "worktree", "prune"])


def main(argv):
    run_tests = "--no-tests" not in argv
    thorough = "--thorough" in argv
    jobs = 4
    if "--jobs" in argv:
        jobs = int(argv[argv.index("--jobs") + 1])
    as_prop = None
    for a in argv:
        if a.startswith("--as="):      # run another property's check against the change (recorded under evaluation_cross)
            as_prop = a.split("=", 1)[1]
    names = [a for a in argv if not a.startswith("--") and not a.isdigit()]
    if not names:
        names = sorted(n for n in os.listdir(SEEDED) if os.path.exists(os.path.join(SEEDED, n, "meta.json")))
    def safe(n):
        try:
            return evaluate(n, run_tests, thorough, as_prop)
        except Exception as e:  # noqa: BLE001 - one bad item must not lose the others
            return {"name": n, "property": as_prop or "?", "error": f"evaluation failed: {type(e).__name__}: {e}"[:400]}

    from concurrent.futures import as_completed
    with ThreadPoolExecutor(max_workers=jobs) as ex:
        futs = [ex.submit(safe, n) for n in names]
        for fu in as_completed(futs):
            res = fu.result()
            p = os.path.join(SEEDED, res["name"], "meta.json")
            meta = json.load(open(p))
            if as_prop:
                meta.setdefault("evaluation_cross", {})[as_prop] = res
            else:
                meta["evaluation"] = res
            with open(p, "w") as f:
                json.dump(meta, f, indent=1)
                f.write("\n")
            q = res.get("quick", {})
            print(f"{res['name']}: demo clean={res.get('demo_clean')} patched={res.get('demo_patched')} tests={res.get('tests_passed')} "
                  f"-> check exit={q.get('exit')} caught={q.get('caught')} input={q.get('with_failing_input')} {res.get('error', '')}")
            for r in q.get("replays", [])[:2]:
                print("     ", json.dumps(r)[:300])


if __name__ == "__main__":
    main(sys.argv[1:])
