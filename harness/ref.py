"""Reference (independent) implementations used by generators and property oracles.
Written from the protocol description, not from nxslib."""


def ref_crc16_xmodem(data: bytes, reg: int = 0) -> int:
    for b in data:
        reg ^= b << 8
        for _ in range(8):
            reg = ((reg << 1) ^ 0x1021) & 0xFFFF if reg & 0x8000 else (reg << 1) & 0xFFFF
    return reg


def ref_frame(fid: int, payload: bytes) -> bytes:
    n = len(payload) + 6
    assert n <= 0xFFFF
    pre = bytes([0x55, n & 0xFF, n >> 8, fid & 0xFF]) + payload
    c = ref_crc16_xmodem(pre)
    return pre + bytes([c >> 8, c & 0xFF])
