#!/usr/bin/env python3
"""Regression test of harness/translate_dummy.py (intf/dummy.py + dev.py -> lean/NxsModel/Gen/Dummy.lean).

Feeds hand-mutated copies of the sources to the translator (no Lean involved, nothing written outside a temporary
directory) and checks that each generated fact moves exactly when its site is edited:

  resetZeroesCalls   true on the current tree; false when `self._cntr = 0` is removed from `DeviceChannel.reset`
                     (the pre-F19 code) or moved under the `if self._func is not None:`
  devResetShape      false (shape fact) when `data_get` increments the call counter only for produced samples (seeded C14-r3m2)
  defaultCopied      false for `channels = DUMMY_DEV_CHANNELS` and for `copy.copy(...)` (seeded C16-m1: unknown shape)
  startResets        false when `start()` no longer calls `self._dummydev.reset()`
  f2Hi / f2Lo        site missing when ChannelFunc2 loses the `_sign` reset (seeded C16-r3m2)
  a comment / docstring / blank-line edit changes nothing

Usage: /venv/bin/python harness/test_translate_dummy.py [--repo /repo]      exit code 0 = all expectations met
"""
from __future__ import annotations

import os
import re
import shutil
import sys
import tempfile

HERE = os.path.dirname(os.path.abspath(__file__))
sys.path.insert(0, HERE)
import translate_dummy as TD  # noqa: E402


def facts(repo):
    text = TD.gen_dummy(repo).text()
    out = {}
    for m in re.finditer(r"^def (\w+) : [^:=]+ := (.*?)(\s+--.*)?$", text, flags=re.M):
        # a missing data site is emitted as `default  -- translator_site_missing_<site>`: keep the marker visible
        out[m.group(1)] = m.group(2).strip() + (" translator_site_missing" if m.group(2).strip() == "default" and "translator_site_missing" in (m.group(3) or "") else "")
    return out, text


def mutated(repo, edits):
    """a copy of repo/src/nxslib with the (file, old, new) edits applied; returns the temporary repo root"""
    tmp = tempfile.mkdtemp(prefix="ttd_")
    shutil.copytree(os.path.join(repo, "src", "nxslib"), os.path.join(tmp, "src", "nxslib"))
    for fn, old, new in edits:
        p = os.path.join(tmp, "src", "nxslib", fn)
        s = open(p, encoding="utf-8").read()
        if old not in s:
            raise SystemExit(f"test setup: `{old[:50]}` not found in {fn}")
        open(p, "w", encoding="utf-8").write(s.replace(old, new, 1))
    return tmp


CASES = [
    ("f19-counter-not-reset", [("dev.py", "        # the call counter handed to func.get() starts again as well\n        self._cntr = 0\n", "")],
     {"resetZeroesCalls": "false"}),
    ("counter-reset-only-with-func", [("dev.py", "            self._func.reset()\n        # the call counter handed to func.get() starts again as well\n        self._cntr = 0\n",
                                       "            self._func.reset()\n            self._cntr = 0\n")],
     {"resetZeroesCalls": "false"}),
    ("c14-r3m2-counter-only-on-sample", [("dev.py", "            ret = self._func.get(self._cntr)\n            self._cntr += 1\n",
                                          "            ret = self._func.get(self._cntr)\n            if ret is not None:\n                self._cntr += 1\n")],
     {"devResetShape": "false"}),
    ("alias-defaults", [("intf/dummy.py", "channels = copy.deepcopy(DUMMY_DEV_CHANNELS)", "channels = DUMMY_DEV_CHANNELS")],
     {"defaultCopied": "false"}),
    ("c16-m1-shallow-copy", [("intf/dummy.py", "channels = copy.deepcopy(DUMMY_DEV_CHANNELS)", "channels = copy.copy(DUMMY_DEV_CHANNELS)")],
     {"defaultCopied": "false"}),
    ("start-without-reset", [("intf/dummy.py", "            self._dummydev.reset()\n", "            pass\n")],
     {"startResets": "false"}),
    ("c16-r3m2-sign-not-reset", [("intf/dummy.py", "        self._cntr = 0\n        self._sign = 1\n", "        self._cntr = 0\n")],
     {"f2Hi": "MISSING", "f2Lo": "MISSING"}),
    ("comment-only", [("dev.py", "        # the call counter handed to func.get() starts again as well\n", "        # restart the counter\n\n"),
                      ("intf/dummy.py", '        """Start the interface."""', '        """Start it."""')],
     {}),
]


def main():
    repo = sys.argv[sys.argv.index("--repo") + 1] if "--repo" in sys.argv else "/repo"
    base, _ = facts(repo)
    bad = 0
    if base.get("resetZeroesCalls") != "true":
        print(f"FAIL current tree: resetZeroesCalls = {base.get('resetZeroesCalls')} (expected true)")
        bad += 1
    if any("translator_site_missing" in v for v in base.values()):
        print("FAIL current tree: missing sites", [k for k, v in base.items() if "translator_site_missing" in v])
        bad += 1
    for name, edits, expect in CASES:
        tmp = mutated(repo, edits)
        try:
            got, _ = facts(tmp)
        finally:
            shutil.rmtree(tmp, ignore_errors=True)
        changed = {k: v for k, v in got.items() if base.get(k) != v}
        ok = set(changed) == set(expect)
        for k, want in expect.items():
            v = got.get(k, "")
            ok = ok and (("translator_site_missing" in v) if want == "MISSING" else v == want)
        print(("ok   " if ok else "FAIL ") + name + ": " + (", ".join(f"{k} -> {v[:50]}" for k, v in changed.items()) or "no change"))
        bad += 0 if ok else 1
    print("all expectations met" if not bad else f"{bad} expectation(s) failed")
    return 1 if bad else 0


if __name__ == "__main__":
    sys.exit(main())
