#!/usr/bin/env python3
"""print a markdown table of the seeded breaking changes and what each check reported (from seeded/*/meta.json)"""
import json
import os
import re

ROOT = os.path.dirname(os.path.dirname(os.path.abspath(__file__)))
rows = []
for name in sorted(os.listdir(os.path.join(ROOT, "seeded"))):
    p = os.path.join(ROOT, "seeded", name, "meta.json")
    if not os.path.exists(p):
        continue
    m = json.load(open(p))
    ev = m.get("evaluation", {})
    q = ev.get("quick", {})
    notes = m.get("needs_to_manifest", "")
    first = re.sub(r"\s+", " ", notes.split("\n\n")[0].replace("#", "").strip())[:170]
    reps = q.get("replays", [])
    keys = sorted({r.get("key") for r in reps if r.get("key")})
    steps = sorted({s for r in reps for s in (r.get("broken_steps") or []) if isinstance(s, str)})
    how = []
    if any(s in steps for s in ("translate", "build-theorems", "build-model", "audit")):
        how.append("T")
    if "correspondence" in steps:
        how.append("K")
    rows.append((name, m["property"], first, "yes" if q.get("caught") else "NO", "yes" if q.get("with_failing_input") else "no",
                 "+".join(how) or "oracle", ", ".join(keys)[:60], ev.get("tests_passed")))
print("| seeded change | property | what it is | caught | failing input | via | replay keys | suite with patch |")
print("|---|---|---|---|---|---|---|---|")
for r in rows:
    print("| " + " | ".join(str(x) for x in r) + " |")
