"""C07: execution of a configuration-call history on the real CommHandler / NxscopeHandler under vsim against the
reference device.  Line format (the Lean driver `cfgx run`, lean/NxsModel/Driver/ConfigExt.lean):

    cfgx run <flags> <pad> <mode> <initEn bits> <initDiv ints> <call;call;…>

  pad   rx padding the reference device advertises (the client aligns every write to it)
  mode  letters (or `-`):  h  the calls go through the NxscopeHandler wrappers (else CommHandler)
                           s  the device was left streaming by a previous session when the client connects
                           r  the client starts the stream after connect: stream frames arrive during the whole
                              configuration exchange, interleaved with the acknowledgements
  call  e<ids> | d<ids> | v<val>:<ids> | D | A | N | W:<oDiv>:<oEn>, ids = comma list of Python indices (signed ints,
        T / F = True / False); a trailing `!` = the wrapper is called with writenow=True (mode h only); without it
        the wrappers are called WITHOUT their writenow argument (the documented default: buffered).  A single id is
        passed as a bare int (bool), several ids as a list.
"""
import vsim
import refdev
from common import hexs, exc_name
from sessionlib import bits, ints, mk_chans, OutcomePolicy


class StreamingPolicy(OutcomePolicy):
    """as OutcomePolicy; while the stream runs the device has a stream frame under way whenever a set request
    arrives, so that frame reaches the client between the request and its acknowledgement"""
    interleave = False

    def __call__(self, dev, kind, req):
        if self.interleave and kind in ("enable", "div"):
            dev.stream_tick()
        return super().__call__(dev, kind, req)


def parse_ids(txt):
    out = []
    for x in txt.split(","):
        if x == "":
            continue
        out.append(True if x == "T" else False if x == "F" else int(x))
    return out


def split_call(call):
    """(body, writenow outcomes or None)"""
    if "!" in call:
        body, oc = call.split("!", 1)
        return body, (tuple(oc.split(":")) if oc else ("a", "a"))
    return call, None


def parse_line(line):
    t = line.split(" ")
    if t[0] == "cfgx":
        flags, pad, mode = int(t[2]), int(t[3]), t[4]
        en = [] if t[5] == "-" else [c == "1" for c in t[5]]
        div = [] if t[6] == "-" else [int(x) for x in t[6].split(",")]
        return dict(flags=flags, pad=pad, mode="" if mode == "-" else mode, en=en, div=div, calls=t[7].split(";"))
    raise ValueError("not a cfgx line: " + line[:40])


def run_calls(flags, pad, mode, init_en, init_div, calls, seed=None):
    """returns (list of per-call state strings in the format of the Lean driver, info dict)"""
    info = {}
    high = "h" in mode

    def scenario(sim):
        from nxslib.comm import CommHandler
        from nxslib.proto.parse import Parser
        pol = StreamingPolicy()
        dev = refdev.RefDevice(mk_chans(init_en, init_div), flags=flags, rxpadding=pad, policy=pol)
        dev.started = "s" in mode
        link = refdev.make_link(sim, dev, stream_every=3 if ("s" in mode or "r" in mode) else None)
        if high:
            from nxslib.nxscope import NxscopeHandler
            nx = NxscopeHandler(link, Parser())
            nx.connect()
            comm = nx._comm
        else:
            nx = None
            comm = CommHandler(link, Parser())
            comm.connect()
        api = nx if high else comm
        info["dev_started_after_connect"] = dev.started
        n = len(init_en)
        if "r" in mode:
            # the stream runs during the configuration exchange (the write nx.stream_start() performs first
            # finds nothing to change)
            (nx or comm).stream_start()
            info["dev_started_by_client"] = dev.started
            pol.interleave = True
        info["dev_after_connect"] = (bits(dev.en), ints(dev.div))
        streamed0 = dev.stream_cntr

        def arg(ids):
            return ids[0] if len(ids) == 1 else ids

        out = []
        for call in calls:
            body, now = split_call(call)
            kw = {}
            if now is not None:
                if not high or body.startswith("W:") or body == "A":
                    raise ValueError("writenow only exists on the NxscopeHandler setters: " + call)
                kw = {"writenow": True}
            w0 = len(link.writes)
            t0 = sim.now
            err = "-"
            outcomes = None
            if body.startswith("W:"):
                outcomes = tuple(body.split(":")[1:])
            elif now is not None:
                outcomes = now
            if outcomes is not None:
                if comm.dev.data.div_supported:
                    pol.pending["div"].append(outcomes[0])
                pol.pending["enable"].append(outcomes[1])
            try:
                if body == "D":
                    api.channels_default_cfg(**kw)
                elif body == "A":
                    comm.ch_enable_all()
                elif body == "N":
                    api.ch_disable_all(**kw)
                elif body.startswith("W:"):
                    api.channels_write()
                elif body[0] == "e":
                    api.ch_enable(arg(parse_ids(body[1:])), **kw)
                elif body[0] == "d":
                    api.ch_disable(arg(parse_ids(body[1:])), **kw)
                elif body[0] == "v":
                    v, cs = body[1:].split(":")
                    api.ch_divider(arg(parse_ids(cs)), int(v), **kw)
                else:
                    raise ValueError(call)
            except Exception as e:
                err = exc_name(e)
            pol.pending["div"].clear()
            pol.pending["enable"].clear()
            sent = link.writes[w0:]
            if pad:
                for x in sent:
                    if len(x) % pad:
                        info.setdefault("unaligned", []).append((call, len(x), pad))
            ch = comm._channels
            if high:
                # the public view of the client's copy of the device description
                cps = [nx.dev_channel_get(i).data for i in range(n)]
            else:
                cps = [comm.dev.channel_get(i).data for i in range(n)]
            out.append(f"s={','.join(hexs(x) for x in sent) or '-'};t={round((sim.now - t0) * 10)};e={err};"
                       f"now={bits(comm.ch_is_enabled(i) for i in range(n))}/{ints(comm.ch_div_get(i) for i in range(n))};"
                       f"new={bits(ch.en_new)}/{ints(ch.div_new)};dev={bits(dev.en)}/{ints(dev.div)};"
                       f"cp={bits(c.en for c in cps)}/{ints(c.div for c in cps)};rs={int(ch.en_resync)}{int(ch.div_resync)}")
        info["stream_frames_during"] = dev.stream_cntr - streamed0
        if not high and "r" in mode:
            comm.stream_stop()
        (nx or comm).disconnect()
        info["live_after"] = [t.name for t in sim.live_tasks()]
        return out

    r, sim = vsim.run_sim(scenario, seed=seed, time_limit=3000.0, real_limit=30.0)
    info["errors"] = [(n, repr(e)) for n, e, _ in sim.errors]
    if isinstance(r, BaseException):
        raise r
    return r, info
