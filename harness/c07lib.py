"""C07: execution of a configuration-call history on the real CommHandler / NxscopeHandler under vsim against the
reference device.  Line format (the Lean driver `cfgx run`, lean/NxsModel/Driver/ConfigExt.lean):

    cfgx run <flags> <pad> <mode> <initEn bits> <initDiv ints> <call;call;…>

  flags the flags byte the device advertises, 0..255 (bit 0 divider support, bit 1 ACK support, the rest reserved)
  pad   rx padding the reference device advertises (the client aligns every write to it)
  mode  the harness-side dimensions (the model does not depend on them, the driver ignores the token): letters or `-`,
        then `/`-separated extras
          h  the calls go through the NxscopeHandler wrappers (else CommHandler)
          s  the device was left streaming by a previous session when the client connects: stream frames are already
             waiting in the pipe, and one more is under way when the stop request of connect() arrives
          r  the client starts the stream after connect: stream frames arrive during the whole configuration
             exchange, interleaved with the acknowledgements
          u  the stream is started at CommHandler level and NOBODY reads it: `/U<k>` stream frames (default 80) have
             arrived at the client before the first call
          /T<t0>.<t1>.…          the type byte of every channel (default 10 = FLOAT; 0 = UNDEF, 0x80 = critical bit)
          /R<en>:<div>:<calls>   RECONNECT: a first session ran on the SAME handler object — device state <en>/<div>,
                                 connect, <calls>, disconnect; then the device was put into the state <initEn>/<initDiv>
                                 of the line (power-cycled, configured by somebody else) and the handler connected
                                 again.  The calls of the line run in this second session.  (Model side: the client
                                 after any connect is `Client.init` of the device state at that moment.)
  call  e<ids> | d<ids> | v<val>:<ids> | D | A | N | W:<oDiv>:<oEn>, ids = comma list of Python indices (signed ints,
        T / F = True / False); a trailing `!` = the wrapper is called with writenow=True (mode h only); without it
        the wrappers are called WITHOUT their writenow argument (the documented default: buffered).  A single id is
        passed as a bare int (bool), several ids as a list.

The link of this module hands the device the BYTE STREAM (a request split over several interface writes is reassembled)
and, once the handshake is over, in blocks of <pad> bytes as a device receiving with rx padding does: bytes beyond the
last complete block are not consumed until the block is full.
"""
import vsim
import refdev
from common import hexs, exc_name
from sessionlib import bits, ints, mk_chans, OutcomePolicy

DEFAULT_TYPE = 10
DEFAULT_FLOOD = 80


class StreamingPolicy(OutcomePolicy):
    """as OutcomePolicy; while the stream runs the device has a stream frame under way whenever a set request
    arrives (`interleave`) resp. when the stop request of connect() arrives (`at_stop`), so that frame reaches the
    client between the request and its acknowledgement"""
    interleave = False
    at_stop = False

    def __call__(self, dev, kind, req):
        if self.interleave and kind in ("enable", "div"):
            dev.stream_tick()
        if self.at_stop and kind == "start":
            dev.stream_tick()
        return super().__call__(dev, kind, req)


def parse_ids(txt):
    out = []
    for x in txt.split(","):
        if x == "":
            continue
        out.append(True if x == "T" else False if x == "F" else int(x))
    return out


def split_call(call):
    """(body, writenow outcomes or None)"""
    if "!" in call:
        body, oc = call.split("!", 1)
        return body, (tuple(oc.split(":")) if oc else ("a", "a"))
    return call, None


def parse_mode(mode):
    """-> dict(letters, types or None, prev (en, div, calls) or None, flood)"""
    parts = ("" if mode == "-" else mode).split("/")
    m = dict(letters=parts[0], types=None, prev=None, flood=DEFAULT_FLOOD)
    for x in parts[1:]:
        if x[:1] == "T":
            m["types"] = [int(t) for t in x[1:].split(".")]
        elif x[:1] == "R":
            en, div, calls = x[1:].split(":", 2)
            m["prev"] = ([] if en == "-" else [c == "1" for c in en], [] if div == "-" else [int(v) for v in div.split(",")],
                         [c for c in calls.split(";") if c])
        elif x[:1] == "U":
            m["flood"] = int(x[1:])
        else:
            raise ValueError("mode extra: " + x)
    return m


def mode_str(letters="", types=None, prev=None, flood=None):
    s = letters
    if types is not None:
        s += "/T" + ".".join(str(t) for t in types)
    if prev is not None:
        s += f"/R{bits(prev[0])}:{ints(prev[1])}:{';'.join(prev[2])}"
    if flood is not None:
        s += f"/U{flood}"
    return s or "-"


def parse_line(line):
    t = line.split(" ")
    if t[0] == "cfgx":
        flags, pad, mode = int(t[2]), int(t[3]), t[4]
        en = [] if t[5] == "-" else [c == "1" for c in t[5]]
        div = [] if t[6] == "-" else [int(x) for x in t[6].split(",")]
        return dict(flags=flags, pad=pad, mode="" if mode == "-" else mode, en=en, div=div, calls=t[7].split(";"))
    raise ValueError("not a cfgx line: " + line[:40])


def make_link(sim, device, poll=0.01, stream_every=None):
    """ICommInterface over the reference device: the device sees the byte stream (reassembled), and while
    `link.blocks` is set only complete blocks of its rx padding"""
    from nxslib.intf.iintf import ICommInterface

    class Link(ICommInterface):
        def __init__(self):
            super().__init__()
            self.writes = []
            self.reads = 0
            self.blocks = False
            self.pipe = bytearray()      # written, not yet received by the device (incomplete block)
            self.devbuf = bytearray()    # received by the device, not yet a complete frame

        def start(self):
            pass

        def stop(self):
            pass

        def drop_all(self):
            pass

        def reset(self):
            self.blocks = False
            self.pipe.clear()
            self.devbuf.clear()

        def _read(self):
            self.reads += 1
            if stream_every and self.reads % stream_every == 0:
                device.stream_tick()
            ok = sim.block(lambda: len(device.rx) > 0, poll, "link-read")
            if not ok:
                return b""
            out = bytes(device.rx)
            device.rx.clear()
            return out

        def _write(self, data):
            self.writes.append(bytes(data))
            sim.yield_("link-write")
            self.pipe += data
            p = device.rxpadding if self.blocks else 0
            k = len(self.pipe) - (len(self.pipe) % p if p else 0)
            self.devbuf += self.pipe[:k]
            del self.pipe[:k]
            self.parse()

        def parse(self):
            """a conforming receiver on a byte stream: start byte, declared length, checksum; everything else skipped"""
            b = self.devbuf
            while True:
                i = b.find(bytes([device.codec.sof]))
                if i < 0:
                    b.clear()
                    return
                del b[:i]
                if len(b) < 4:
                    return
                flen = b[1] | b[2] << 8
                if b[3] > 8 or flen < 6:
                    del b[:1]
                    continue
                if flen > len(b):
                    return
                fr = device.codec.decode_at(bytes(b), 0)
                if fr is None:
                    del b[:1]
                    continue
                del b[:flen]
                device.handle(fr[0], fr[1])

    device.now = lambda: sim.now
    return Link()


def run_calls(flags, pad, mode, init_en, init_div, calls, seed=None):
    """returns (list of per-call state strings in the format of the Lean driver, info dict); if the session ends with
    an exception / a simulation verdict, the states produced so far are in info["out"] and the exception is raised"""
    info = {"out": []}
    m = parse_mode(mode)
    letters = m["letters"]
    high = "h" in letters
    n = len(init_en)
    types = m["types"] or [DEFAULT_TYPE] * n
    if len(types) != n:
        raise ValueError("types / channels mismatch")

    def scenario(sim):
        from nxslib.comm import CommHandler
        from nxslib.proto.parse import Parser
        pol = StreamingPolicy()
        first = m["prev"] or (init_en, init_div, None)
        dev = refdev.RefDevice(mk_chans(first[0], first[1], types), flags=flags, rxpadding=pad, policy=pol)
        streaming = any(c in letters for c in "sru")
        link = make_link(sim, dev, stream_every=3 if streaming else None)
        if high:
            from nxslib.nxscope import NxscopeHandler
            nx = NxscopeHandler(link, Parser())
            comm = nx._comm
        else:
            nx = None
            comm = CommHandler(link, Parser())
        api = nx if high else comm

        def arg(ids):
            return ids[0] if len(ids) == 1 else ids

        def do_call(body, kw):
            if body == "D":
                api.channels_default_cfg(**kw)
            elif body == "A":
                comm.ch_enable_all()
            elif body == "N":
                api.ch_disable_all(**kw)
            elif body.startswith("W:"):
                api.channels_write()
            elif body[0] == "e":
                api.ch_enable(arg(parse_ids(body[1:])), **kw)
            elif body[0] == "d":
                api.ch_disable(arg(parse_ids(body[1:])), **kw)
            elif body[0] == "v":
                v, cs = body[1:].split(":")
                api.ch_divider(arg(parse_ids(cs)), int(v), **kw)
            else:
                raise ValueError(body)

        if m["prev"]:
            # first session on the same handler object; everything acknowledged, errors of bad arguments ignored
            (nx or comm).connect()
            link.blocks = True
            for call in m["prev"][2]:
                body, now = split_call(call)
                try:
                    do_call(body, {"writenow": True} if now is not None else {})
                except Exception as e:  # noqa: BLE001
                    info.setdefault("prev_errors", []).append((call, exc_name(e)))
            info["prev_dev_before_disconnect"] = (bits(dev.en), ints(dev.div))
            (nx or comm).disconnect()
            info["prev_live_after"] = [t.name for t in sim.live_tasks()]
            # the device is power-cycled / configured by somebody else
            for ch, e, d in zip(dev.chans, init_en, init_div):
                ch["en"], ch["div"] = bool(e), int(d)
            dev.rx.clear()
            dev.started = False
            link.reset()
        c0 = dev.stream_cntr
        if "s" in letters:
            # left streaming by a previous session: frames already in the pipe, one under way at the stop request
            dev.started = True
            for _ in range(3):
                dev.stream_tick()
            pol.at_stop = True
        (nx or comm).connect()
        pol.at_stop = False
        link.blocks = True
        info["stream_frames_at_connect"] = dev.stream_cntr - c0
        info["dev_started_after_connect"] = dev.started
        info["dev_after_connect"] = (bits(dev.en), ints(dev.div))
        if "r" in letters:
            # the stream runs during the configuration exchange (the write nx.stream_start() performs first
            # finds nothing to change)
            (nx or comm).stream_start()
            info["dev_started_by_client"] = dev.started
            pol.interleave = True
        elif "u" in letters:
            # stream at CommHandler level, nobody reads it; the frames have reached the client before the first call
            comm.stream_start()
            info["dev_started_by_client"] = dev.started
            c1 = dev.stream_cntr
            for _ in range(m["flood"]):
                dev.stream_tick()
            sim.block(lambda: len(dev.rx) == 0, 2.0, "flood-delivered")
            vsim.vsleep(0.05)
            info["flood_frames"] = dev.stream_cntr - c1
            info["flood_undelivered_bytes"] = len(dev.rx)
        info["dev_before_calls"] = (bits(dev.en), ints(dev.div))
        streamed0 = dev.stream_cntr

        out = info["out"]
        for call in calls:
            body, now = split_call(call)
            kw = {}
            if now is not None:
                if not high or body.startswith("W:") or body == "A":
                    raise ValueError("writenow only exists on the NxscopeHandler setters: " + call)
                kw = {"writenow": True}
            w0 = len(link.writes)
            t0 = sim.now
            err = "-"
            outcomes = None
            if body.startswith("W:"):
                outcomes = tuple(body.split(":")[1:])
            elif now is not None:
                outcomes = now
            if outcomes is not None:
                if comm.dev.data.div_supported:
                    pol.pending["div"].append(outcomes[0])
                pol.pending["enable"].append(outcomes[1])
            try:
                do_call(body, kw)
            except Exception as e:
                err = exc_name(e)
            pol.pending["div"].clear()
            pol.pending["enable"].clear()
            sent = link.writes[w0:]
            if pad:
                for x in sent:
                    if len(x) % pad:
                        info.setdefault("unaligned", []).append((call, len(x), pad))
                if sum(len(x) for x in sent) % pad:
                    info.setdefault("unaligned_stream", []).append((call, sum(len(x) for x in sent), pad))
            ch = comm._channels
            if high:
                # the public view of the client's copy of the device description
                cps = [nx.dev_channel_get(i).data for i in range(n)]
            else:
                cps = [comm.dev.channel_get(i).data for i in range(n)]
            out.append(f"s={','.join(hexs(x) for x in sent) or '-'};t={round((sim.now - t0) * 10)};e={err};"
                       f"now={bits(comm.ch_is_enabled(i) for i in range(n))}/{ints(comm.ch_div_get(i) for i in range(n))};"
                       f"new={bits(ch.en_new)}/{ints(ch.div_new)};dev={bits(dev.en)}/{ints(dev.div)};"
                       f"cp={bits(c.en for c in cps)}/{ints(c.div for c in cps)};rs={int(ch.en_resync)}{int(ch.div_resync)}")
        info["stream_frames_during"] = dev.stream_cntr - streamed0
        info["calls_done"] = True
        if ("r" in letters and not high) or "u" in letters:
            comm.stream_stop()
        (nx or comm).disconnect()
        info["live_after"] = [t.name for t in sim.live_tasks()]
        return list(out)

    r, sim = vsim.run_sim(scenario, seed=seed, time_limit=3000.0, real_limit=30.0)
    info["errors"] = [(n, repr(e)) for n, e, _ in sim.errors]
    if isinstance(r, BaseException):
        try:
            r.c07_info = info
        except Exception:  # noqa: BLE001
            pass
        raise r
    return r, info
