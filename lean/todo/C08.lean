/-
  C08 — stream samples reach every subscriber exactly once and in device order.
  STATEMENTS (to be proved; file moves to NxsModel/Props/C08.lean when no `sorry` is left).
  `Fanout.lean` is organised like the code (per channel: list of subscribed queues; a frame is
  fanned out channel by channel).  The specification below is organised per queue and is as simple
  as possible: a queue is subscribed to at most one channel and, for every frame processed while it
  is subscribed and the channel is enabled, receives that frame's samples of the channel, in order.
-/
import NxsModel.Fanout
namespace Nxs.C08
open Nxs Nxs.Fanout

/-- per-queue specification state: the channel the queue is currently subscribed to, what it got -/
structure QSpec where
  sub : Option Nat
  got : List Nat
  deriving DecidableEq, Repr

structure Spec where
  enabled : List Bool
  qs : List QSpec           -- index = queue id (order of subscription)
  deriving DecidableEq, Repr

def Spec.init (n : Nat) : Spec := ⟨List.replicate n false, []⟩

def specStep (s : Spec) : Op → Spec
  | .frame _ ss =>
    if ss.any (fun x => x.chan ≥ s.enabled.length) then s
    else { s with qs := s.qs.map fun q =>
      match q.sub with
      | some c => if s.enabled.getD c false then { q with got := q.got ++ (ss.filter (·.chan = c)).map (·.val) } else q
      | none => q }
  | .sub ch => if ch < s.enabled.length then { s with qs := s.qs ++ [⟨some ch, []⟩] } else s
  | .unsub k => { s with qs := s.qs.mapIdx fun i q => if i = k then { q with sub := none } else q }
  | .setEnabled v => if v.length = s.enabled.length then { s with enabled := v } else s

def specRun (s : Spec) : List Op → Spec
  | [] => s
  | op :: r => specRun (specStep s op) r

/-- every subscriber queue holds exactly what the per-queue specification says: for every history
    of frames, subscriptions, unsubscriptions and enable changes, and every queue -/
theorem queue_is_run (n : Nat) (ops : List Op) (q : Nat) :
    received (run (St.init n) ops) q = ((specRun (Spec.init n) ops).qs[q]?.map (·.got)).getD [] := sorry

/-- the code's subscriber lists and the specification's subscriptions agree: queue `q` is in the
    list of channel `c` exactly when the specification has it subscribed to `c` -/
theorem subs_agree (n : Nat) (ops : List Op) (c q : Nat) (hc : c < n) :
    q ∈ (run (St.init n) ops).subs.getD c [] ↔ ((specRun (Spec.init n) ops).qs[q]?.bind (·.sub)) = some c := sorry

/-- gap-free, duplicate-free, in order: a queue subscribed to channel `c` by the last op of `pre`,
    never unsubscribed afterwards, while `c` stays enabled and no call fails, has received exactly
    the samples of `c` of all later frames, in order -/
theorem run_since_subscription (n : Nat) (pre post : List Op) (c : Nat) (hc : c < n)
    (hen : ((specRun (Spec.init n) (pre ++ [.sub c])).enabled.getD c false) = true)
    (hpost : ∀ op ∈ post, ∃ fl ss, op = .frame fl ss ∧ ∀ x ∈ ss, x.chan < n) :
    let q := (run (St.init n) pre).nextQ
    received (run (St.init n) (pre ++ [.sub c] ++ post)) q =
      post.flatMap fun op => match op with
        | .frame _ ss => (ss.filter (·.chan = c)).map (·.val)
        | _ => [] := sorry

/-- nothing is delivered for other channels, to unsubscribed queues, or for channels the client has
    not enabled: a frame leaves queue `q` untouched unless `q` is subscribed to an enabled channel
    of which the frame carries a sample (in particular: always, when `q` is subscribed nowhere) -/
theorem no_leak (s : St) (fl : Nat) (ss : List Smp) (s' : St) (q : Nat) (h : step s (.frame fl ss) = .ok s')
    (hq : ∀ c, q ∈ s.subs.getD c [] → (s.enabled.getD c false = false ∨ ∀ x ∈ ss, x.chan ≠ c)) :
    received s' q = received s q := sorry

/-- frames that carry no samples, only samples of channels nobody listens to, or the overflow flag do
    not disturb delivery: no error, queues unchanged -/
theorem empty_frames_neutral (s : St) (fl : Nat) (ss : List Smp)
    (hfor : ∀ x ∈ ss, x.chan < s.enabled.length ∧ (s.subs.getD x.chan [] = [] ∨ s.enabled.getD x.chan false = false)) :
    ∃ s', step s (.frame fl ss) = .ok s' ∧ s'.queues = s.queues ∧ s'.subs = s.subs := sorry

/-- never an empty group -/
theorem groups_nonempty (n : Nat) (ops : List Op) :
    ∀ e ∈ (run (St.init n) ops).queues, ∀ g ∈ e.2, g ≠ [] := sorry

example : received (run (St.init 3) [.sub 1, .sub 1, .sub 0, .setEnabled [true, true, false],
    .frame 0 [⟨1, 0⟩, ⟨0, 1⟩, ⟨1, 2⟩, ⟨2, 3⟩], .unsub 0, .frame 1 [⟨1, 4⟩], .frame 0 []]) 1 = [0, 2, 4] := by
  decide +kernel

end Nxs.C08
