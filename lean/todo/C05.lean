/-
  C05 — every client request means at the device exactly what the caller asked for.
  STATEMENTS (to be proved; file moves to NxsModel/Props/C05.lean when no `sorry` is left).
  Spec encodings are written out by hand here from the NxScope protocol:
    start [b] · cmninfo [] · chinfo [c] · set single [0,c,v] · all [2,0,v] · bulk 1 :: 0 :: vs
-/
import NxsModel.Requests
import NxsModel.Spec.Wire
import NxsModel.Lemmas.Serial
namespace Nxs.C05
open Nxs Nxs.Spec Nxs.Requests

def byte (n : Nat) : Byte := BitVec.ofNat 8 n
def b2n (b : Bool) : Nat := if b then 1 else 0

/-- NxScope set-request payloads -/
def specSingle (c v : Nat) : Bytes := [0, byte c, byte v]
def specAll (v : Nat) : Bytes := [2, 0, byte v]
def specBulk (vs : List Nat) : Bytes := 1 :: 0 :: vs.map byte

/-- the payload the protocol prescribes for a full-vector request: ALL when every entry is equal, else BULK -/
def specVec (vs : List Nat) : Bytes :=
  match vs with
  | [] => []
  | v :: _ => if allSame vs then specAll v else specBulk vs

/-! ### the bytes emitted are the NxScope encoding -/

theorem req_bytes_start (b : Bool) : frameStart b = .ok (wire 5 [byte (b2n b)]) := sorry
theorem req_bytes_cmninfo : frameCmninfo = .ok (wire 2 []) := sorry
theorem req_bytes_chinfo (c : Nat) (hc : c ≤ 255) : frameChinfo c = .ok (wire 3 [byte c]) := sorry

theorem req_bytes_en_single (n c : Nat) (v : Bool) (hc : c < n) (hn : n ≤ 255) :
    frameEnable (.single c v) n = .ok (wire 6 (specSingle c (b2n v))) := sorry

theorem req_bytes_en_vec (n : Nat) (vs : List Bool) (hl : vs.length = n) (h1 : 1 ≤ n) (hn : n ≤ 255) :
    frameEnable (.vec vs) n = .ok (wire 6 (specVec (vs.map b2n))) := sorry

theorem req_bytes_div_single (n c v : Nat) (hc : c < n) (hn : n ≤ 255) (hv : v ≤ 255) :
    frameDiv (.single c v) n = .ok (wire 7 (specSingle c v)) := sorry

theorem req_bytes_div_vec (n : Nat) (vs : List Nat) (hl : vs.length = n) (h1 : 1 ≤ n) (hn : n ≤ 255)
    (hv : ∀ v ∈ vs, v ≤ 255) :
    frameDiv (.vec (vs.map Int.ofNat)) n = .ok (wire 7 (specVec vs)) := sorry

/-! ### the device-side decoder recovers exactly the intended channel, flag or 8-bit value -/

theorem dev_decode_start (b : Bool) : frameStartDecode [byte (b2n b)] = .ok b := sorry

theorem dev_decode_en_single (n c : Nat) (v : Bool) (cur : List Bool) (hcur : cur.length = n) (hc : c < n)
    (hn : n ≤ 255) : frameEnableDecode (specSingle c (b2n v)) n cur = .ok (cur.set c v) := sorry

theorem dev_decode_en_all (n : Nat) (v : Bool) (cur : List Bool) :
    frameEnableDecode (specAll (b2n v)) n cur = .ok (List.replicate n v) := sorry

theorem dev_decode_en_bulk (n : Nat) (vs cur : List Bool) (hl : vs.length = n) :
    frameEnableDecode (specBulk (vs.map b2n)) n cur = .ok vs := sorry

/-- dividers are 8-bit unsigned: every value 0..255 is recovered as itself -/
theorem dev_decode_div_single (n c v : Nat) (cur : List Int) (hcur : cur.length = n) (hc : c < n)
    (hn : n ≤ 255) (hv : v ≤ 255) : frameDivDecode (specSingle c v) n cur = .ok (cur.set c (v : Int)) := sorry

theorem dev_decode_div_all (n v : Nat) (cur : List Int) (hv : v ≤ 255) :
    frameDivDecode (specAll v) n cur = .ok (List.replicate n (v : Int)) := sorry

theorem dev_decode_div_bulk (n : Nat) (vs : List Nat) (cur : List Int) (hl : vs.length = n)
    (hv : ∀ v ∈ vs, v ≤ 255) : frameDivDecode (specBulk vs) n cur = .ok (vs.map Int.ofNat) := sorry

/-! ### whichever compact form the client picks, the device derives the intended state -/

/-- a full-vector enable request (sent as ALL or BULK) makes the device state equal the vector -/
theorem en_forms_agree (n : Nat) (vs cur : List Bool) (hl : vs.length = n) (h1 : 1 ≤ n) (hn : n ≤ 255) :
    ∃ payload, frameEnable (.vec vs) n = .ok (wire 6 payload) ∧
      frameEnableDecode payload n cur = .ok vs := sorry

/-- a single-channel enable request changes exactly that channel -/
theorem en_single_agrees (n c : Nat) (v : Bool) (cur : List Bool) (hcur : cur.length = n) (hc : c < n)
    (hn : n ≤ 255) :
    ∃ payload, frameEnable (.single c v) n = .ok (wire 6 payload) ∧
      frameEnableDecode payload n cur = .ok (cur.set c v) := sorry

theorem div_forms_agree (n : Nat) (vs : List Nat) (cur : List Int) (hl : vs.length = n) (h1 : 1 ≤ n)
    (hn : n ≤ 255) (hv : ∀ v ∈ vs, v ≤ 255) :
    ∃ payload, frameDiv (.vec (vs.map Int.ofNat)) n = .ok (wire 7 payload) ∧
      frameDivDecode payload n cur = .ok (vs.map Int.ofNat) := sorry

theorem div_single_agrees (n c v : Nat) (cur : List Int) (hcur : cur.length = n) (hc : c < n)
    (hn : n ≤ 255) (hv : v ≤ 255) :
    ∃ payload, frameDiv (.single c v) n = .ok (wire 7 payload) ∧
      frameDivDecode payload n cur = .ok (cur.set c (v : Int)) := sorry

/-- non-vacuity -/
example : frameDiv (.single 3 200) 8 = .ok (wire 7 [0, 3, 200]) := by decide +kernel
example : frameDivDecode [0, 3, 200] 8 [0,0,0,0,0,0,0,0] = .ok [0,0,0,200,0,0,0,0] := by decide +kernel

end Nxs.C05
