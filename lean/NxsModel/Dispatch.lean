/-
  Dispatch: model of `ParseRecv.recv_handle` / `_recv_cb_handle` (device-side request dispatcher),
  parameterised by the generated guards and callback table (`Gen.Recv`).
-/
import NxsModel.Serial
import NxsModel.Codec
import NxsModel.Gen.Recv
namespace Nxs
namespace Dispatch
open Gen.Frame

/-- what `recv_handle` did: nothing, fired callback number `cb` with a payload, or raised -/
inductive Disp where
  | ignored
  | fired (cb : Nat) (payload : Bytes)
  | raised (e : Err)
  deriving DecidableEq, Repr

def cbName : Nat → String
  | 0 => "cmninfo" | 1 => "chinfo" | 2 => "enable" | 3 => "div" | 4 => "start" | _ => "?"

/-- `_recv_cb_handle`: look the frame id up in the callback table; check the length assertion -/
def cbHandle (fid : Nat) (fdata : Bytes) : Disp :=
  match Gen.Recv.cbTable.find? (fun r => r.1 = fid) with
  | none => .raised .assertion
  | some (_, cb, isEq, k) =>
    if (if isEq then fdata.length = k else fdata.length ≠ k) then .fired cb fdata
    else .raised .assertion

/-- `recv_handle` -/
def recvHandle (data : Bytes) : Disp :=
  match Serial.hdrFind data with
  | none => .ignored
  | some i =>
    if Gen.Recv.guardShort && data.length - i < hdrLen + footLen then .ignored
    else
      let d := data.drop i
      match Serial.hdrDecode d with
      | .error _ => .ignored
      | .ok h =>
        if Gen.Recv.guardMin && h.flen < hdrLen + footLen then .ignored
        else if Gen.Recv.guardMax && h.flen > d.length then .ignored
        else if Gen.Recv.guardCrc && !Serial.footValidate (d.take h.flen) then .ignored
        else cbHandle h.fid (slice d hdrLen (h.flen - footLen))

/-- `recv_handle` written against the codec interface only (C20): exactly the statements of
    `recvHandle` with every `Serial.*` / `Gen.Frame.*` replaced by the field of the codec `c` that
    `self._frame` stands for -/
def recvHandleWith (c : Codec) (data : Bytes) : Disp :=
  match c.hdrFind data with
  | none => .ignored
  | some i =>
    if Gen.Recv.guardShort && data.length - i < c.hdrLen + c.footLen then .ignored
    else
      let d := data.drop i
      match c.hdrDecode d with
      | .error _ => .ignored
      | .ok h =>
        if Gen.Recv.guardMin && h.flen < c.hdrLen + c.footLen then .ignored
        else if Gen.Recv.guardMax && h.flen > d.length then .ignored
        else if Gen.Recv.guardCrc && !c.footValidate (d.take h.flen) then .ignored
        else cbHandle h.fid (slice d c.hdrLen (h.flen - c.footLen))

end Dispatch
end Nxs
