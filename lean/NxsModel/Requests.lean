/-
  Requests: client request builders (`Parser.frame_start/cmninfo/chinfo/enable/div`) and the
  device-side decoders (`ParseRecv.frame_start_decode/frame_set_decode/frame_enable_decode/
  frame_div_decode`), over the generated formats (`Gen.Fmt`) and ids (`Gen.Ids`).
-/
import NxsModel.Serial
import NxsModel.Dispatch
import NxsModel.Gen.Fmt
namespace Nxs
namespace Requests
open Gen.Ids

/-- a set request as the client passes it: a `(chan, value)` tuple or a full list -/
inductive SetReq (α : Type) where
  | single (chan : Int) (v : α)
  | vec (vs : List α)
  deriving Repr

/-- `bytes([x])` : ValueError unless 0 ≤ x ≤ 255 -/
def byteOf (x : Int) : Except Err Bytes :=
  if 0 ≤ x ∧ x < 256 then .ok [BitVec.ofNat 8 x.toNat] else .error .valueError

def frameSetData (flags : Nat) (chan : Int) : Except Err Bytes :=
  pack Gen.Fmt.setData [.int flags, .int chan]

def frameSetSingle (id : Nat) (data : Bytes) (chan : Int) : Except Err Bytes :=
  if data.length ≠ 1 then .error .assertion
  else (frameSetData Gen.Fmt.flagSingle chan).bind fun h => Serial.frameCreate id (some (h ++ data))

def frameSetBulk (id : Nat) (data : Bytes) : Except Err Bytes :=
  if ¬ data.length > 0 then .error .assertion
  else (frameSetData Gen.Fmt.flagBulk 0).bind fun h => Serial.frameCreate id (some (h ++ data))

def frameSetAll (id : Nat) (data : Bytes) : Except Err Bytes :=
  if data.length ≠ 1 then .error .assertion
  else (frameSetData Gen.Fmt.flagAll 0).bind fun h => Serial.frameCreate id (some (h ++ data))

def frameStart (start : Bool) : Except Err Bytes :=
  (pack Gen.Fmt.start [.bool start]).bind fun b => Serial.frameCreate idSTART (some b)

def frameCmninfo : Except Err Bytes := Serial.frameCreate idCMNINFO none

def frameChinfo (chan : Int) : Except Err Bytes :=
  (pack Gen.Fmt.chinfoReq [.int chan]).bind fun b => Serial.frameCreate idCHINFO (some b)

def allSame [DecidableEq α] : List α → Bool
  | [] => true
  | x :: xs => xs.all (· = x)

/-- bulk payload of an enable request: `for c in range(chmax): enable[c] is True` -/
def enBulk (vs : List Bool) : Nat → Nat → Except Err Bytes
  | 0, _ => .ok []
  | k + 1, c =>
    match vs[c]? with
    | none => .error .indexError
    | some v => (enBulk vs k (c + 1)).bind fun r => .ok ((if v then 1 else 0) :: r)

def frameEnable (req : SetReq Bool) (chmax : Nat) : Except Err Bytes :=
  match req with
  | .single chan v => frameSetSingle idENABLE [if v then 1 else 0] chan
  | .vec vs =>
    if vs.length = chmax ∧ allSame vs then
      match vs with
      | [] => .error .indexError
      | v :: _ => frameSetAll idENABLE [if v then 1 else 0]
    else (enBulk vs chmax 0).bind fun d => frameSetBulk idENABLE d

def divBulk (vs : List Int) : Nat → Nat → Except Err Bytes
  | 0, _ => .ok []
  | k + 1, c =>
    match vs[c]? with
    | none => .error .indexError
    | some v => (byteOf v).bind fun b => (divBulk vs k (c + 1)).bind fun r => .ok (b ++ r)

def frameDiv (req : SetReq Int) (chmax : Nat) : Except Err Bytes :=
  match req with
  | .single chan v => (byteOf v).bind fun b => frameSetSingle idDIV b chan
  | .vec vs =>
    if vs.length = chmax ∧ allSame vs then
      match vs with
      | [] => .error .indexError
      | v :: _ => (byteOf v).bind fun b => frameSetAll idDIV b
    else (divBulk vs chmax 0).bind fun d => frameSetBulk idDIV d

/-! ### device side -/

def frameStartDecode (data : Bytes) : Except Err Bool :=
  match unpack Gen.Fmt.startDec (slice data 0 1) with
  | .ok [.bool b] => .ok b
  | .ok _ => .error .structError
  | .error e => .error e

def frameSetDecode (data : Bytes) : Except Err (Nat × Nat) :=
  match unpack Gen.Fmt.setDec data with
  | .ok [.int f, .int c] => .ok (f.toNat, c.toNat)
  | .ok _ => .error .structError
  | .error e => .error e

def valsBool : List Val → Option (List Bool)
  | [] => some []
  | .bool b :: r => (valsBool r).map (b :: ·)
  | _ => none

def valsInt : List Val → Option (List Int)
  | [] => some []
  | .int b :: r => (valsInt r).map (b :: ·)
  | _ => none

/-- `ret = cur; ret[chan] = v` -/
def setAt (cur : List α) (chan : Nat) (v : α) : Except Err (List α) :=
  if chan < cur.length then .ok (cur.set chan v) else .error .indexError

/-- `frame_enable_decode(data, dev)`: `cur` is `dev.channels_en`, `chmax` is `dev.data.chmax` -/
def frameEnableDecode (data : Bytes) (chmax : Nat) (cur : List Bool) : Except Err (List Bool) :=
  (frameSetDecode (slice data 0 2)).bind fun (flags, chan) =>
    if flags = setBULK then
      (unpack (Gen.Fmt.enBulkDec chmax) (slice data 2 (2 + chmax))).bind fun vs =>
        match valsBool vs with | some l => .ok l | none => .error .structError
    else if flags = setSINGLE then
      (unpack Gen.Fmt.enSingleDec (slice data 2 3)).bind fun vs =>
        match vs with
        | [.bool en] => setAt cur chan en
        | _ => .error .structError
    else if flags = setALL then
      (unpack Gen.Fmt.enAllDec (slice data 2 3)).bind fun vs =>
        match vs with
        | [.bool en] => .ok (List.replicate chmax en)
        | _ => .error .structError
    else .error .valueError

def frameDivDecode (data : Bytes) (chmax : Nat) (cur : List Int) : Except Err (List Int) :=
  (frameSetDecode (slice data 0 2)).bind fun (flags, chan) =>
    if flags = setBULK then
      (unpack (Gen.Fmt.divBulkDec chmax) (slice data 2 (2 + chmax))).bind fun vs =>
        match valsInt vs with | some l => .ok l | none => .error .structError
    else if flags = setSINGLE then
      (unpack Gen.Fmt.divSingleDec (slice data 2 3)).bind fun vs =>
        match vs with
        | [.int d] => setAt cur chan d
        | _ => .error .structError
    else if flags = setALL then
      (unpack Gen.Fmt.divAllDec (slice data 2 3)).bind fun vs =>
        match vs with
        | [.int d] => .ok (List.replicate chmax d)
        | _ => .error .structError
    else .error .valueError

/-! ### the device side as a whole: dispatcher → callback → decoder → per-channel writes

  `ParseRecv.recv_handle(bytes)` with the `enable` / `div` callbacks of a device that keeps one
  long-lived `Device` object (what `intf/dummy.py::DummyDev._enable_cb/_div_cb` do): decode against
  the device's CURRENT vectors (`dev.channels_en` / `dev.channels_div`), then store the decoded vector
  by per-channel attribute writes.  The other callbacks (cmninfo, chinfo, start) do not touch the
  channel state.  An exception of the dispatcher or the decoder leaves the state as it was. -/

/-- the per-channel state of a device -/
structure DevSt where
  en : List Bool
  div : List Int
  deriving DecidableEq, Repr

/-- `for chid, x in enumerate(decoded): channel_get(chid).data.<field> = x` on `cur` -/
def storeVec (cur decoded : List α) : List α :=
  decoded.take cur.length ++ cur.drop decoded.length

/-- callback number `cb` (`Dispatch.cbName`) run on payload `p` by a device with `n` channels -/
def devApply (n : Nat) (s : DevSt) (cb : Nat) (p : Bytes) : Except Err DevSt :=
  if cb = 2 then (frameEnableDecode p n s.en).map fun r => { s with en := storeVec s.en r }
  else if cb = 3 then (frameDivDecode p n s.div).map fun r => { s with div := storeVec s.div r }
  else .ok s

/-- one write received: new state and what happened (`.ok none` ignored, `.ok (some cb)` callback
    `cb` ran, `.error e` the dispatcher or the decoder raised) -/
def devRecv (n : Nat) (s : DevSt) (w : Bytes) : DevSt × Except Err (Option Nat) :=
  match Dispatch.recvHandle w with
  | .ignored => (s, .ok none)
  | .raised e => (s, .error e)
  | .fired cb p =>
    match devApply n s cb p with
    | .ok s' => (s', .ok (some cb))
    | .error e => (s, .error e)

/-- a history of writes on ONE device object: the state and outcome after every write -/
def devRun (n : Nat) (s : DevSt) : List Bytes → List (DevSt × Except Err (Option Nat))
  | [] => []
  | w :: ws => let r := devRecv n s w; r :: devRun n r.1 ws

end Requests
end Nxs
