/-
  Route: model of the routing done by `CommHandler._recv_thread` (comm.py:84-96) on the frames the
  reassembly delivers: stream frames go to the stream queue, everything else to the response queue,
  except that ACK frames are dropped while no device description is known.
-/
import NxsModel.Serial
import NxsModel.Gen.Ids
namespace Nxs
namespace Route
open Serial (Frame)

inductive Dest where
  | stream | resp | dropped
  deriving DecidableEq, Repr

/-- where `_recv_thread` puts one decoded frame -/
def dest (hasDev : Bool) (fr : Frame) : Dest :=
  if fr.fid = Gen.Ids.idSTREAM then .stream
  else if !hasDev && fr.fid = Gen.Ids.idACK then .dropped
  else .resp

/-- the two queues after the frames `frs` arrived in this order: (response queue, stream queue) -/
def queues (hasDev : Bool) : List Frame → List Frame × List Frame
  | [] => ([], [])
  | fr :: r =>
    let (a, b) := queues hasDev r
    match dest hasDev fr with
    | .stream => (a, fr :: b)
    | .resp => (fr :: a, b)
    | .dropped => (a, b)

end Route
end Nxs
