/-
  Lifecycle: the connect / stream / disconnect state machine of `NxscopeHandler` (nxscope.py) on
  top of `CommHandler` (comm.py) against a device that acknowledges every request.  Configuration
  calls reuse the `Config` machine (bytes on the wire come from the request builders); the
  handshake is the fault-free path of `Handshake`.  Time is virtual, in tenths of a second.
-/
import NxsModel.Config
import NxsModel.Gen.Comm
namespace Nxs
namespace Lifecycle
open Config Requests

structure World where
  -- the device
  dev : Device
  devStarted : Bool
  flags : Nat
  -- CommHandler
  commStarted : Bool := false
  hasDev : Bool := false
  cli : Option Client := none       -- `_channels` (persists across disconnect)
  recvThr : Bool := false
  intf : Bool := false
  -- NxscopeHandler
  connected : Bool := false
  streamStarted : Bool := false
  streamThr : Bool := false
  subs : List (List Nat) := []      -- `_sub_q` (persists across disconnect)
  nextQ : Nat := 0
  -- observation
  log : List Bytes := []            -- frames written to the link
  time : Nat := 0
  deriving Repr

inductive Res where
  | ok
  | raised (e : Err)
  deriving DecidableEq, Repr

/-- public calls of the high-level handler -/
inductive Call where
  | connect | disconnect | streamStart | streamStop
  | sub (c : Nat) | unsub (q : Nat)
  | chEnable (cs : List Nat) (w : Bool) | chDisable (cs : List Nat) (w : Bool)
  | chDisableAll (w : Bool) | chDivider (cs : List Nat) (v : Int) (w : Bool)
  | defaultCfg (w : Bool) | channelsWrite | devChannelGet (c : Nat)
  deriving DecidableEq, Repr

def drain : Nat := Gen.Comm.drainPolls * Gen.Comm.drainPollTime + Gen.Comm.drainStreamPolls * Gen.Comm.drainStreamPollTime

def okFrame (f : Except Err Bytes) : List Bytes := match f with | .ok b => [b] | .error _ => []

def chinfoFrames : Nat → Nat → List Bytes
  | _, 0 => []
  | i, k + 1 => okFrame (frameChinfo i) ++ chinfoFrames (i + 1) k

/-- `CommHandler.connect()` -/
def commConnect (w : World) : World :=
  if w.commStarted then w
  else
    let n := w.dev.en.length
    { w with intf := true, devStarted := false, recvThr := true,
             log := w.log ++ okFrame (frameStart false) ++ okFrame frameCmninfo ++ chinfoFrames 0 n,
             time := w.time + drain + drain,
             hasDev := true, cli := some (Client.init w.dev w.flags), commStarted := true }

/-- `CommHandler.disconnect()` -/
def commDisconnect (w : World) : World :=
  if w.commStarted then
    { w with recvThr := false, intf := false, time := w.time + drain, commStarted := false, hasDev := false }
  else w

/-- `channels_write` on a connected handler, every request acknowledged -/
def doWrite (w : World) : World × Res :=
  if !w.hasDev then (w, .raised .assertion)
  else match w.cli with
    | none => (w, .raised .attributeError)
    | some c =>
      let (c', d', o) := channelsWrite c w.dev .ack .ack
      match o.err with
      | some e => ({ w with cli := some c', dev := d', log := w.log ++ o.sent }, .raised e)
      | none => ({ w with cli := some c', dev := d', log := w.log ++ o.sent, time := w.time + o.time }, .ok)

/-- a buffered configuration call followed, if `writenow`, by `channels_write` -/
def cfgCall (w : World) (op : Op) (writenow : Bool) : World × Res :=
  match w.cli with
  | none => (w, .raised .attributeError)
  | some c =>
    let (c', _, o) := Config.step c w.dev op
    let w' := { w with cli := some c' }
    match o.err with
    | some e => (w', .raised e)
    | none => if writenow then doWrite w' else (w', .ok)

def streamStop (w : World) : World :=
  if w.streamStarted then
    { w with log := w.log ++ okFrame (frameStart false), devStarted := false, streamThr := false,
             streamStarted := false }
  else w

def step (w : World) : Call → World × Res
  | .connect =>
    if w.connected then (w, .ok)
    else
      let w1 := commConnect w
      ({ w1 with subs := List.replicate w1.dev.en.length [], connected := true }, .ok)
  | .disconnect =>
    if w.connected then
      let w1 := streamStop w
      -- ch_disable_all(True): asserts a device, disables all, writes; an exception raised there
      -- propagates: `_comm.disconnect()` is skipped, `_connected` stays True and the call raises
      -- (the stream is stopped and the requested vectors are changed by then)
      match (if w1.hasDev then cfgCall w1 .disableAll true else (w1, .raised .assertion)) with
      | (w2, .raised e) => (w2, .raised e)
      | (w2, .ok) =>
        let w3 := commDisconnect w2
        ({ w3 with connected := false }, .ok)
    else (w, .ok)
  | .streamStart =>
    if w.streamStarted then (w, .ok)
    else
      match doWrite w with
      | (w1, .raised e) => (w1, .raised e)
      | (w1, .ok) =>
        ({ w1 with log := w1.log ++ okFrame (frameStart true), devStarted := true, streamThr := true,
                   streamStarted := true }, .ok)
  | .streamStop => (streamStop w, .ok)
  | .sub c =>
    if c < w.subs.length then
      ({ w with subs := w.subs.set c (w.subs.getD c [] ++ [w.nextQ]), nextQ := w.nextQ + 1 }, .ok)
    else (w, .raised .indexError)
  | .unsub q => ({ w with subs := w.subs.map fun l => l.erase q }, .ok)
  | .chEnable cs wn => cfgCall w (.enable cs) wn
  | .chDisable cs wn => cfgCall w (.disable cs) wn
  | .chDisableAll wn => if !w.hasDev then (w, .raised .assertion) else cfgCall w .disableAll wn
  | .chDivider cs v wn =>
    if v < 0 ∨ v > 255 then (w, .raised .valueError)
    else if !w.hasDev then (w, .raised .assertion)
    else cfgCall w (.divider cs v) wn
  | .defaultCfg wn => if !w.hasDev then (w, .raised .assertion) else cfgCall w .defaultCfg wn
  | .channelsWrite => doWrite w
  | .devChannelGet _ => if !w.hasDev then (w, .raised .assertion) else (w, .ok)

def run (w : World) : List Call → World × List Res
  | [] => (w, [])
  | c :: r =>
    let (w1, res) := step w c
    let (w2, rs) := run w1 r
    (w2, res :: rs)

/-- a fresh handler pair in front of device `d` (which may have been left streaming) -/
def World.fresh (d : Device) (started : Bool) (flags : Nat) : World :=
  { dev := d, devStarted := started, flags := flags }

end Lifecycle
end Nxs
