/-
  Lifecycle: the connect / stream / disconnect state machine of `NxscopeHandler` (nxscope.py) on
  top of `CommHandler` (comm.py), and of a bare `CommHandler`, against a device that answers every
  stream start/stop, divider and enable request as an answer record `Ans` says (acknowledge / reject
  with a code / apply but lose the ACK / lose the request; default: acknowledge).  Configuration calls
  reuse the `Config` machine (bytes on the wire come from the request builders); the handshake is the
  fault-free path of `Handshake`.  The device carries a static description (`Desc`: per channel the
  type byte, dimension, metadata length and name; the rx padding) which a connect copies into what the
  handler reports (`World.reported`) — names as the client decodes them: a name that is not valid UTF-8 makes
  connect raise (`commConnectR`, clean-up of `_start`: nothing is left running), a name ends at its first NUL.

  Time is virtual, in tenths of a second, and counts what a call spends waiting for the device: ACK
  waits (`Gen.Comm.ackTimeout…`), the draining polls of connect / disconnect.  Joining a library thread
  is not charged here (it is bounded by one wait of the joined thread's body: C13; the harness measures
  and bounds it separately).
-/
import NxsModel.Config
import NxsModel.Info
import NxsModel.Gen.Comm
namespace Nxs
namespace Lifecycle
open Config Requests

/-- static description of one channel: type byte, vector dimension, metadata length, name (UTF-8) -/
structure ChanDesc where
  type : Nat
  vdim : Nat
  mlen : Nat
  name : Bytes
  deriving DecidableEq, Repr

/-- static description of a device (the channel count is the length of the device's state vectors) -/
structure Desc where
  chans : List ChanDesc := []
  rxpadding : Nat := 0
  deriving DecidableEq, Repr

/-- what a handler reports as the static description (`handler.dev`) -/
structure Reported where
  chmax : Nat
  flags : Nat
  rxpadding : Nat
  chans : List ChanDesc
  deriving DecidableEq, Repr

/-- what the device does with the (at most one each) stream start/stop, divider and enable request
    that a single public call issues -/
structure Ans where
  st : Outcome := .ack
  dv : Outcome := .ack
  en : Outcome := .ack
  deriving DecidableEq, Repr

structure World where
  -- the device
  dev : Device
  devStarted : Bool
  flags : Nat
  desc : Desc := {}
  -- the interface (`write_padding` persists across sessions)
  intf : Bool := false
  intfPad : Nat := 0
  -- CommHandler
  commStarted : Bool := false
  hasDev : Bool := false
  reported : Option Reported := none -- static part of `_dev`
  cli : Option Client := none       -- `_channels` (persists across disconnect)
  recvThr : Bool := false
  -- NxscopeHandler
  connected : Bool := false
  streamStarted : Bool := false
  streamThr : Bool := false
  subs : List (List Nat) := []      -- `_sub_q` (persists across disconnect)
  nextQ : Nat := 0
  -- observation
  log : List Bytes := []            -- frames written to the link
  time : Nat := 0
  deriving Repr

inductive Res where
  | ok
  | raised (e : Err)
  | ack (state : Bool) (code : Int)   -- the `ParseAck` returned by `CommHandler.stream_start/stop`
  deriving DecidableEq, Repr

/-- public calls of the high-level handler (channel ids as Python indexes them: negative = from the end) -/
inductive Call where
  | connect | disconnect | streamStart | streamStop
  | sub (c : Int) | unsub (q : Nat)
  | chEnable (cs : List Int) (w : Bool) | chDisable (cs : List Int) (w : Bool)
  | chDisableAll (w : Bool) | chDivider (cs : List Int) (v : Int) (w : Bool)
  | defaultCfg (w : Bool) | channelsWrite | devChannelGet (c : Int)
  deriving DecidableEq, Repr

/-- public calls of the low-level handler (a bare `CommHandler`) -/
inductive CommCall where
  | connect | disconnect | streamStart | streamStop
  | chEnable (cs : List Int) | chDisable (cs : List Int) | chDivider (cs : List Int) (v : Int)
  | chEnableAll | chDisableAll | defaultCfg | channelsWrite
  deriving DecidableEq, Repr

def drain : Nat := Gen.Comm.drainPolls * Gen.Comm.drainPollTime + Gen.Comm.drainStreamPolls * Gen.Comm.drainStreamPollTime

def okFrame (f : Except Err Bytes) : List Bytes := match f with | .ok b => [b] | .error _ => []

def chinfoFrames : Nat → Nat → List Bytes
  | _, 0 => []
  | i, k + 1 => okFrame (frameChinfo i) ++ chinfoFrames (i + 1) k

/-- Python list index `c` into a list of length `len`: `len` (out of range) when it raises IndexError -/
def pyIdx (len : Nat) (c : Int) : Nat :=
  if 0 ≤ c then c.toNat else if -c ≤ len then len - (-c).toNat else len

/-- what `frame_chinfo_decode` makes of a channel's name field: the text up to the first NUL
    (`_str.decode().split("\x00")[0]`) -/
def ChanDesc.decoded (c : ChanDesc) : ChanDesc := { c with name := Info.cstr c.name }

/-- the static description a connect reads from the device (names as the client decodes them) -/
def describe (w : World) : Reported :=
  ⟨w.dev.en.length, w.flags, w.desc.rxpadding, w.desc.chans.map ChanDesc.decoded⟩

/-- index of the first of the device's `n` channels whose name field the strict UTF-8 decoder rejects
    (`_str.decode()` raises UnicodeDecodeError: wherever in the field the bad bytes are, also after a NUL) -/
def badNameIdx (n : Nat) (desc : Desc) : Option Nat :=
  (desc.chans.take n).findIdx? fun c => !Info.validUtf8 c.name

def badName (w : World) : Option Nat := badNameIdx w.dev.en.length w.desc

/-- `_devinfo_get`: a device with rx padding makes the client reconfigure the interface (once: the
    interface keeps its padding) and write that many zero bytes -/
def padWrite (w : World) : List Bytes :=
  if w.desc.rxpadding > 0 ∧ w.intfPad ≠ w.desc.rxpadding then [List.replicate w.desc.rxpadding 0] else []

/-- `CommHandler.connect()` -/
def commConnect (w : World) : World :=
  if w.commStarted then w
  else
    let n := w.dev.en.length
    { w with intf := true, devStarted := false, recvThr := true,
             log := w.log ++ okFrame (frameStart false) ++ okFrame frameCmninfo ++ padWrite w ++ chinfoFrames 0 n,
             time := w.time + drain + drain,
             intfPad := if w.desc.rxpadding > 0 then w.desc.rxpadding else w.intfPad,
             hasDev := true, reported := some (describe w),
             cli := some (Client.init w.dev w.flags), commStarted := true }

/-- `CommHandler.connect()` in front of a device whose channel `k` has a name that is not UTF-8: the interface is
    started, the stop request sent, the link drained, the receive thread started, the common info read (and the
    interface's padding set), the channel infos 0..k requested; decoding the k-th answer raises, the clean-up
    handler of `_start` stops the receive thread and the interface again and the exception propagates: the
    handler stays stopped, without description, its configuration state (`_channels`) untouched -/
def commConnectFail (w : World) (k : Nat) : World :=
  { w with devStarted := false,
           log := w.log ++ okFrame (frameStart false) ++ okFrame frameCmninfo ++ padWrite w ++ chinfoFrames 0 (k + 1),
           time := w.time + drain + drain,
           intfPad := if w.desc.rxpadding > 0 then w.desc.rxpadding else w.intfPad }

/-- `CommHandler.connect()` with its result: raises UnicodeDecodeError when a channel name is not UTF-8 -/
def commConnectR (w : World) : World × Res :=
  if w.commStarted then (w, .ok)
  else match badName w with
    | none => (commConnect w, .ok)
    | some k => (commConnectFail w k, .raised .unicodeError)

/-- `CommHandler.disconnect()` -/
def commDisconnect (w : World) : World :=
  if w.commStarted then
    { w with recvThr := false, intf := false, time := w.time + drain, commStarted := false, hasDev := false,
             reported := none }
  else w

/-- `_get_ack` after a start / stop request: (state, return code, time spent waiting) -/
def startAck (w : World) (o : Outcome) (timeout : Nat) : Bool × Int × Nat :=
  if !w.hasDev || !Info.ackSupported w.flags then (true, 0, 0)
  else match o with
    | .ack => (true, 0, 0)
    | .nack r => if r = 0 then (true, 0, 0) else (false, r, 0)
    | .appliedAckLost => (false, -1, timeout)
    | .lost => (false, -1, timeout)

/-- `CommHandler.stream_start()` (`start = true`) / `stream_stop()`: the request is written whatever the
    state of the handler; returns the ACK -/
def commStartReq (w : World) (start : Bool) (o : Outcome) : World × Bool × Int :=
  let r := startAck w o (if start then Gen.Comm.ackTimeoutStart else Gen.Comm.ackTimeoutStop)
  ({ w with log := w.log ++ okFrame (frameStart start),
            devStarted := if applies o then start else w.devStarted,
            time := w.time + r.2.2 }, r.1, r.2.1)

/-- `channels_write` on a handler, the device answering the divider / enable request with `a.dv` / `a.en` -/
def doWrite (w : World) (a : Ans := {}) : World × Res :=
  if !w.hasDev then (w, .raised .assertion)
  else match w.cli with
    | none => (w, .raised .attributeError)
    | some c =>
      let (c', d', o) := channelsWrite c w.dev a.dv a.en
      ({ w with cli := some c', dev := d', log := w.log ++ o.sent, time := w.time + o.time },
       match o.err with | some e => .raised e | none => .ok)

/-- a buffered configuration call followed, if `writenow`, by `channels_write` -/
def cfgCall (w : World) (op : Op) (writenow : Bool) (a : Ans := {}) : World × Res :=
  match w.cli with
  | none => (w, .raised .attributeError)
  | some c =>
    let (c', _, o) := Config.step c w.dev op
    let w' := { w with cli := some c' }
    match o.err with
    | some e => (w', .raised e)
    | none => if writenow then doWrite w' a else (w', .ok)

/-- the indices of a setter call, as list positions of an `n`-entry vector -/
def idxs (w : World) (cs : List Int) : List Nat :=
  match w.cli with
  | none => []
  | some c => cs.map (pyIdx c.enNew.length)

/-- `NxscopeHandler.stream_stop()`: the outcome of the stop request is ignored -/
def streamStop (w : World) (a : Ans := {}) : World :=
  if w.streamStarted then
    { (commStartReq w false a.st).1 with streamThr := false, streamStarted := false }
  else w

def step (w : World) (call : Call) (a : Ans := {}) : World × Res :=
  match call with
  | .connect =>
    if w.connected then (w, .ok)
    else
      -- an exception raised by `_comm.connect()` propagates: no subscriber lists, `_connected` stays False
      match commConnectR w with
      | (w1, .ok) => ({ w1 with subs := List.replicate w1.dev.en.length [], connected := true }, .ok)
      | (w1, r) => (w1, r)
  | .disconnect =>
    if w.connected then
      let w1 := streamStop w a
      -- ch_disable_all(True): asserts a device, disables all, writes; an exception raised there
      -- propagates: `_comm.disconnect()` is skipped, `_connected` stays True and the call raises
      -- (the stream is stopped and the requested vectors are changed by then)
      match (if w1.hasDev then cfgCall w1 .disableAll true a else (w1, .raised .assertion)) with
      | (w2, .ok) =>
        let w3 := commDisconnect w2
        ({ w3 with connected := false }, .ok)
      | (w2, r) => (w2, r)
    else (w, .ok)
  | .streamStart =>
    if w.streamStarted then (w, .ok)
    else
      match doWrite w a with
      | (w1, .ok) =>
        -- `_stream_start()`: the outcome of the start request is ignored
        ({ (commStartReq w1 true a.st).1 with streamThr := true, streamStarted := true }, .ok)
      | (w1, r) => (w1, r)
  | .streamStop => (streamStop w a, .ok)
  | .sub c =>
    let i := pyIdx w.subs.length c
    if i < w.subs.length then
      ({ w with subs := w.subs.set i (w.subs.getD i [] ++ [w.nextQ]), nextQ := w.nextQ + 1 }, .ok)
    else (w, .raised .indexError)
  | .unsub q => ({ w with subs := w.subs.map fun l => l.erase q }, .ok)
  | .chEnable cs wn => cfgCall w (.enable (idxs w cs)) wn a
  | .chDisable cs wn => cfgCall w (.disable (idxs w cs)) wn a
  | .chDisableAll wn => if !w.hasDev then (w, .raised .assertion) else cfgCall w .disableAll wn a
  | .chDivider cs v wn =>
    if v < 0 ∨ v > 255 then (w, .raised .valueError)
    else if !w.hasDev then (w, .raised .assertion)
    else cfgCall w (.divider (idxs w cs) v) wn a
  | .defaultCfg wn => if !w.hasDev then (w, .raised .assertion) else cfgCall w .defaultCfg wn a
  | .channelsWrite => doWrite w a
  | .devChannelGet _ => if !w.hasDev then (w, .raised .assertion) else (w, .ok)

/-- one public call of a bare `CommHandler` -/
def commStep (w : World) (call : CommCall) (a : Ans := {}) : World × Res :=
  match call with
  | .connect => commConnectR w
  | .disconnect => (commDisconnect w, .ok)
  | .streamStart => let r := commStartReq w true a.st; (r.1, .ack r.2.1 r.2.2)
  | .streamStop => let r := commStartReq w false a.st; (r.1, .ack r.2.1 r.2.2)
  | .chEnable cs => cfgCall w (.enable (idxs w cs)) false a
  | .chDisable cs => cfgCall w (.disable (idxs w cs)) false a
  | .chDivider cs v =>
    if v < 0 ∨ v > 255 then (w, .raised .valueError)
    else if !w.hasDev then (w, .raised .assertion)
    else cfgCall w (.divider (idxs w cs) v) false a
  | .chEnableAll => if !w.hasDev then (w, .raised .assertion) else cfgCall w .enableAll false a
  | .chDisableAll => if !w.hasDev then (w, .raised .assertion) else cfgCall w .disableAll false a
  | .defaultCfg => if !w.hasDev then (w, .raised .assertion) else cfgCall w .defaultCfg false a
  | .channelsWrite => doWrite w a

/-- a history in which the device acknowledges everything -/
def run (w : World) : List Call → World × List Res
  | [] => (w, [])
  | c :: r =>
    let (w1, res) := step w c
    let (w2, rs) := run w1 r
    (w2, res :: rs)

/-- a history with the device's answers, per call -/
def runA (w : World) : List (Call × Ans) → World × List Res
  | [] => (w, [])
  | c :: r =>
    let (w1, res) := step w c.1 c.2
    let (w2, rs) := runA w1 r
    (w2, res :: rs)

/-- a history on a bare `CommHandler` with the device's answers, per call -/
def commRun (w : World) : List (CommCall × Ans) → World × List Res
  | [] => (w, [])
  | c :: r =>
    let (w1, res) := commStep w c.1 c.2
    let (w2, rs) := commRun w1 r
    (w2, res :: rs)

/-- the description of a device about which nothing but the channel count is said -/
def Desc.plain (n : Nat) : Desc := { chans := List.replicate n ⟨10, 1, 0, []⟩ }

/-- a fresh handler (pair) in front of device `d` (which may have been left streaming) -/
def World.fresh (d : Device) (started : Bool) (flags : Nat) (desc : Desc := Desc.plain d.en.length) : World :=
  { dev := d, devStarted := started, flags := flags, desc := desc }

end Lifecycle
end Nxs
