/-
  PipeLine (round 7, C18): the pipe of `Pipe.lean` with the UART line made explicit, and the constructor
  arguments of `SerialDevice.__init__` as parameters.

  `Pipe.lean` lets every byte value travel unchanged (`peerSend d` appends `d`, `write d` appends
  `data_align d`); `Line.carry` (one byte value through a line with given settings) is only used for the
  one-byte statement `port_is_transparent_8n1`.  Here the two are composed:

    Line.opened bytesize parity stopbits
        the line a `SerialDevice(port, baud, bytesize, parity, stopbits)` opens for ARBITRARY caller-supplied
        arguments (not only the defaults of `Line.real`): `__init__` hands the three parameters through to
        `serial.Serial(…)` unchanged (pinned source of `SerialDevice.__init__`, `source_pins`), and the three
        flow-control settings are the translator facts `Gen.SerialIntf.openXonXoff / openRtsCts / openDsrDtr`
        (the call passes none of them → pyserial's defaults), whatever the caller passes.
    Line.carryByte / Line.carryBytes
        a byte / a whole byte string through the line: bytes eaten by XON/XOFF handling disappear, the others
        are cut to `dataBits` bits.
    stepLine / runLine
        the pipe in which everything either side sends first goes through the line; all other ops are the
        ops of `Pipe.step`.

  Core Lean only; executable.
-/
import NxsModel.Pipe
namespace Nxs
namespace Pipe

/-- the line opened by `SerialDevice(port, baud, bytesize, parity, stopbits)` for caller-supplied arguments -/
def Line.opened (bytesize : Nat) (parity : String) (stopbits : Nat) : Line :=
  ⟨bytesize, parity, stopbits,
   Gen.SerialIntf.openXonXoff, Gen.SerialIntf.openRtsCts, Gen.SerialIntf.openDsrDtr⟩

/-- one byte through the line -/
def Line.carryByte (l : Line) (b : Byte) : Option Byte := (l.carry b.toNat).map (BitVec.ofNat 8)

/-- a byte string through the line, in order -/
def Line.carryBytes (l : Line) (d : Bytes) : Bytes := d.filterMap l.carryByte

/-- the settings under which `Line.carry` is the identity on 0..255 -/
def Line.transparent (l : Line) : Bool := decide (8 ≤ l.dataBits) && !l.xonxoff

/-- one op of the pipe over the line `l` -/
def stepLine (l : Line) (pt : Port) (s : State) : Op → State × Obs
  | .write d => ({ s with txFlight := s.txFlight ++ l.carryBytes (Pad.dataAlign s.pad d) }, .none)
  | .peerSend d => ({ s with rxFlight := s.rxFlight ++ l.carryBytes d }, .none)
  | op => step pt s op

/-- a whole history over the line `l` -/
def runLine (l : Line) (pt : Port) : State → List Op → State × List Obs
  | s, [] => (s, [])
  | s, op :: ops =>
    let (s1, o) := stepLine l pt s op
    let (s2, os) := runLine l pt s1 ops
    (s2, o :: os)

/-- the history that ends a session: the OS hands over everything still in flight, then the client reads
    as often as there can be bytes waiting -/
def drainOps (s : State) : List Op :=
  .osDeliver s.rxFlight.length :: List.replicate (s.rxWaiting.length + s.rxFlight.length) .read

/-- a history with its OS delivery steps (client direction) removed: what the other end and the client did -/
def stripOs : List Op → List Op
  | [] => []
  | .osDeliver _ :: r => stripOs r
  | op :: r => op :: stripOs r

end Pipe
end Nxs
