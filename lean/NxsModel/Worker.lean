/-
  Worker — small-step interleaving semantics of the `thread.py` programs (property C13).

  The programs are the instruction lists of `Gen/Thread.lean`, regenerated from
  `/repo/src/nxslib/thread.py` on every run; this file gives them a semantics (the model *is*
  the translation) and computes, executably, the set of reachable states.

  THREADS.  One controller thread performs an arbitrary sequence of calls `thread_start()`,
  `thread_stop()`, `thread_is_alive()`; a call is executed by running the generated method
  program, ONE IR INSTRUCTION PER STEP, up to its return instruction.  Every `create-thread`
  instruction makes a new worker thread object which, once started, executes the generated
  `_thread_loop`, again one instruction per step.  `step` returns ALL successors of a state:
  every enabled thread may take the next step (all interleavings, no fairness assumed).

  ASSUMED PYTHON SEMANTICS (documented behaviour of `threading`, not verified here):
    * `Event.set / clear / is_set` are atomic; a fresh `Event` is clear;
    * `Thread.start()` makes the new thread runnable and alive before it returns; calling it on
      a thread that was already started raises `RuntimeError`;
    * `Thread.is_alive()` is true from `start()` until the thread's run function has returned;
    * `Thread.join()` blocks the caller until that thread has terminated; on a thread that was
      never started it raises `RuntimeError`;
    * any method call on `None` raises `AttributeError`;
    * the three callbacks are opaque and atomic (one step), do not touch the `ThreadCommon`
      object, and return normally.
  An exception is modelled as: the sticky monitor bit `err` is set and the executing thread's
  function is abandoned.

  SHARED STATE.  `flag` (the stop `Event`), `cur` (the thread object `self._thrd` refers to;
  `none` = `None`), and per thread object its life-cycle state `created | running | done`
  (the alive bit is `st = running`).

  FORGOTTEN WORKERS (the abstraction that keeps the state finite).  A history may create
  unboundedly many thread objects.  A thread object can be observed only through
  `self._thrd` (every thread-observing instruction — start, is_alive, join — goes through the
  handle) and can act only while it is running.  Therefore a thread object that is NOT referred
  to by the handle and is NOT running can neither act nor be observed ever again, and the model
  simply does not represent it: when the handle is overwritten or cleared, the old object is
  moved to `others` if it is still running and dropped otherwise; when a worker in `others`
  returns from its loop it is dropped.  `others` is thus exactly the list of LIVE workers that
  the controller has lost track of.  This is an exact quotient (a bisimulation: dropped objects
  have no transitions and influence no transition), not an over- or under-approximation.
  The invariant proved in `Props/C13.lean` says `others = []` in every reachable state; for a
  broken program `others` may grow, which only makes the breadth-first search below stop on its
  fuel (and the proofs fail), never accept anything wrongly.

  MONITOR (history variables, never read by the programs).
    per worker:  `nInit`, `nFin` — number of init / final calls of this run, saturating at 2
                 (enough to say "once"); `tgt` — target has been called in this run;
                 `polled` — the stop flag has been tested and found clear since the last target
                 call (or since the run began); `tgtUnpolled` — sticky: a target call was made
                 without such a test; `tgtAfterFin` — sticky: a target call after final.
    global:      `started` — "the controller believes the worker is started": the last call of
                 start/stop that returned was `thread_start`; `err` — sticky: some thread raised;
                 `aliveWrong` — sticky: some `thread_is_alive()` call returned something
                 different from `started`.
-/
import NxsModel.ThreadIR
import NxsModel.Gen.Thread
namespace Nxs.Worker
open Nxs.ThreadIR

/-- which callbacks the `ThreadCommon` object was built with (constant during a history) -/
structure Cfg where
  hasInit : Bool
  hasFinal : Bool
  deriving DecidableEq, Repr

inductive Meth | start | stop | alive
  deriving DecidableEq, Repr

def Meth.prog : Meth → Prog
  | .start => Gen.Thread.threadStart
  | .stop => Gen.Thread.threadStop
  | .alive => Gen.Thread.threadIsAlive

def loopProg : Prog := Gen.Thread.threadLoop

inductive WSt | created | running | done
  deriving DecidableEq, Repr

structure Worker where
  st : WSt
  pc : Nat
  nInit : Nat
  nFin : Nat
  tgt : Bool
  polled : Bool
  tgtUnpolled : Bool
  tgtAfterFin : Bool
  deriving DecidableEq, Repr

/-- a thread object just made by `threading.Thread(...)` -/
def Worker.fresh : Worker := ⟨.created, 0, 0, 0, false, false, false, false⟩

inductive Ctl
  | idle
  | run (m : Meth) (pc : Nat)
  deriving DecidableEq, Repr

structure State where
  ctl : Ctl
  flag : Bool
  cur : Option Worker
  others : List Worker
  started : Bool
  err : Bool
  aliveWrong : Bool
  deriving DecidableEq, Repr

/-- the state after `ThreadCommon.__init__` (facts read from `__init__` by the translator) -/
def init : State :=
  ⟨.idle, !Gen.Thread.initFlagClear, if Gen.Thread.initHandleNone then none else some Worker.fresh,
   [], false, false, false⟩

/-- what a step does, as seen from outside (used by the driver to replay observed traces) -/
inductive Ev
  | call (m : Meth)                  -- the controller enters a method
  | tau                              -- thread-local: test of a callback attribute / of the handle, `_thrd = None`
  | clear | set | isset (b : Bool)   -- Event.clear / set / is_set → b
  | new | start | alive (b : Bool) | join
  | init | target | final            -- the callbacks
  | exit                             -- a worker's `_thread_loop` returned
  | ret (m : Meth) (v : Option Bool) -- the controller's call returned (v = returned bool, if any)
  | error                            -- a Python exception
  deriving DecidableEq, Repr

inductive Who | ctl | cur | other (i : Nat)
  deriving DecidableEq, Repr

def sat2 (n : Nat) : Nat := if n ≥ 1 then 2 else 1

/-- forget what the handle refers to (kept in `others` only if it can still act) -/
def dropHandle (s : State) : State :=
  { s with cur := none,
           others := match s.cur with
             | some w => if w.st = .running then s.others ++ [w] else s.others
             | none => s.others }

/-! ### one instruction of the controller -/

inductive CRes
  | blocked
  | next (ev : Ev) (s : State) (pc : Nat)
  | done (s : State) (v : Option Bool)
  | raise

def execCtl (c : Cfg) (i : Instr) (s : State) : CRes :=
  match i.op with
  | .testInit => .next .tau s (if c.hasInit then i.a else i.b)
  | .testFinal => .next .tau s (if c.hasFinal then i.a else i.b)
  | .testStop => .next (.isset s.flag) s (if s.flag then i.a else i.b)
  | .setFlag => .next .set { s with flag := true } i.a
  | .clearFlag => .next .clear { s with flag := false } i.a
  | .testHandle => .next .tau s (if s.cur.isSome then i.a else i.b)
  | .testAlive =>
    match s.cur with
    | none => .raise
    | some w => .next (.alive (w.st = .running)) s (if w.st = .running then i.a else i.b)
  | .join =>
    match s.cur with
    | none => .raise
    | some w =>
      match w.st with
      | .created => .raise
      | .running => .blocked
      | .done => .next .join s i.a
  | .clearHandle => .next .tau (dropHandle s) i.a
  | .createThread => .next .new { dropHandle s with cur := some Worker.fresh } i.a
  | .startThread =>
    match s.cur with
    | none => .raise
    | some w =>
      if w.st = .created then .next .start { s with cur := some { w with st := .running } } i.a
      else .raise
  | .callInit | .callTarget | .callFinal => .raise   -- a callback outside any worker run
  | .ret => .done s none
  | .retT => .done s (some true)
  | .retF => .done s (some false)

/-- the controller's call returns: update the monitor -/
def finishCall (m : Meth) (v : Option Bool) (s : State) : State :=
  match m with
  | .start => { s with ctl := .idle, started := true }
  | .stop => { s with ctl := .idle, started := false }
  | .alive => { s with ctl := .idle, aliveWrong := s.aliveWrong || (v != some s.started) }

/-- successors by a controller step (three possible calls when idle, else at most one) -/
def ctlStep (c : Cfg) (s : State) : List (Ev × State) :=
  match s.ctl with
  | .idle => [Meth.start, Meth.stop, Meth.alive].map fun m => (Ev.call m, { s with ctl := .run m 0 })
  | .run m pc =>
    match m.prog[pc]? with
    | none => [(.error, { s with ctl := .idle, err := true })]
    | some i =>
      match execCtl c i s with
      | .blocked => []
      | .next ev s' pc' => [(ev, { s' with ctl := .run m pc' })]
      | .done s' v => [(.ret m v, finishCall m v s')]
      | .raise => [(.error, { s with ctl := .idle, err := true })]

/-! ### one instruction of a worker -/

inductive WRes
  | next (ev : Ev) (flag : Bool) (w : Worker)
  | exit
  | raise

def execW (c : Cfg) (i : Instr) (s : State) (w : Worker) : WRes :=
  match i.op with
  | .testInit => .next .tau s.flag { w with pc := if c.hasInit then i.a else i.b }
  | .testFinal => .next .tau s.flag { w with pc := if c.hasFinal then i.a else i.b }
  | .callInit => .next .init s.flag { w with pc := i.a, nInit := sat2 w.nInit }
  | .callFinal => .next .final s.flag { w with pc := i.a, nFin := sat2 w.nFin }
  | .testStop =>
    .next (.isset s.flag) s.flag { w with pc := if s.flag then i.a else i.b, polled := !s.flag }
  | .callTarget =>
    .next .target s.flag { w with pc := i.a, tgt := true, polled := false,
                                  tgtUnpolled := w.tgtUnpolled || !w.polled,
                                  tgtAfterFin := w.tgtAfterFin || decide (w.nFin ≥ 1) }
  | .setFlag => .next .set true { w with pc := i.a }
  | .clearFlag => .next .clear false { w with pc := i.a }
  | .testHandle => .next .tau s.flag { w with pc := if s.cur.isSome then i.a else i.b }
  | .ret | .retT | .retF => .exit
  -- a worker that manipulates the handle is outside what this model represents: refuse (err)
  | .testAlive | .join | .clearHandle | .createThread | .startThread => .raise

/-- the step of the worker the handle refers to (if it is running) -/
def curStep (c : Cfg) (s : State) : Option (Ev × State) :=
  match s.cur with
  | none => none
  | some w =>
    if w.st = .running then
      match loopProg[w.pc]? with
      | none => some (.error, { s with cur := some { w with st := .done }, err := true })
      | some i =>
        match execW c i s w with
        | .next ev f w' => some (ev, { s with flag := f, cur := some w' })
        | .exit => some (.exit, { s with cur := some { w with st := .done } })
        | .raise => some (.error, { s with cur := some { w with st := .done }, err := true })
    else none

/-- the step of the k-th forgotten live worker -/
def otherStep (c : Cfg) (s : State) (k : Nat) : Option (Ev × State) :=
  match s.others[k]? with
  | none => none
  | some w =>
    match loopProg[w.pc]? with
    | none => some (.error, { s with others := s.others.eraseIdx k, err := true })
    | some i =>
      match execW c i s w with
      | .next ev f w' => some (ev, { s with flag := f, others := s.others.set k w' })
      | .exit => some (.exit, { s with others := s.others.eraseIdx k })
      | .raise => some (.error, { s with others := s.others.eraseIdx k, err := true })

/-- all labelled successors -/
def stepL (c : Cfg) (s : State) : List (Who × Ev × State) :=
  (ctlStep c s).map (fun p => (Who.ctl, p))
  ++ (curStep c s).toList.map (fun p => (Who.cur, p))
  ++ (List.range s.others.length).filterMap (fun k => (otherStep c s k).map fun p => (Who.other k, p))

/-- all successors: any enabled thread takes its next instruction -/
def step (c : Cfg) (s : State) : List State := (stepL c s).map (·.2.2)

/-- reachable by any number of steps under any schedule and any call history -/
inductive Reach (c : Cfg) : State → Prop
  | init : Reach c init
  | step {s s' : State} : Reach c s → s' ∈ step c s → Reach c s'

/-- reflexive-transitive closure of `step` -/
inductive Steps (c : Cfg) : State → State → Prop
  | refl (s : State) : Steps c s s
  | tail {s t u : State} : Steps c s t → u ∈ step c t → Steps c s u

/-! ### derived runs used in the predicates -/

/-- run the controller alone until its current call returns (`none`: blocked or out of fuel) -/
def runCtl (c : Cfg) : Nat → State → Option State
  | 0, _ => none
  | n + 1, s =>
    match s.ctl with
    | .idle => some s
    | .run _ _ =>
      match ctlStep c s with
      | [(_, s')] => runCtl c n s'
      | _ => none

/-- the controller calls `m` and runs, alone, to the return of the call -/
def runCall (c : Cfg) (m : Meth) (s : State) : Option State :=
  match s.ctl with
  | .idle => runCtl c (m.prog.length + 1) { s with ctl := .run m 0 }
  | _ => none

/-- the handle's worker, running alone, calls target within n of its own steps -/
def targetSoon (c : Cfg) : Nat → State → Bool
  | 0, _ => false
  | n + 1, s =>
    match curStep c s with
    | some (.target, _) => true
    | some (_, s') => targetSoon c n s'
    | none => false

/-! ### the safety predicates (Boolean, decided on the reachable set) -/

def workers (s : State) : List Worker := s.cur.toList ++ s.others

/-- number of live (started, not yet terminated) worker threads -/
def live (s : State) : Nat := (workers s).countP (fun w => w.st = .running)

def inStart (s : State) : Bool := match s.ctl with | .run .start _ => true | _ => false
def inStop (s : State) : Bool := match s.ctl with | .run .stop _ => true | _ => false

def expected (b : Bool) : Nat := if b then 1 else 0

/-- init at most once; by the time of the first target call (or final, or exit) exactly once -/
def okInitW (c : Cfg) (w : Worker) : Bool :=
  decide (w.nInit ≤ 1) &&
  (!(w.tgt || decide (w.nFin ≥ 1) || decide (w.st = .done)) || decide (w.nInit = expected c.hasInit))

/-- final at most once, no target after it, and exactly once by the time the loop has returned -/
def okFinalW (c : Cfg) (w : Worker) : Bool :=
  decide (w.nFin ≤ 1) && !w.tgtAfterFin && (!decide (w.st = .done) || decide (w.nFin = expected c.hasFinal))

/-- every target call was preceded by its own test of the stop flag that found it clear -/
def okPolledW (w : Worker) : Bool := !w.tgtUnpolled

/-- not started and no start call in progress ⇒ no handle and no (live) worker at all -/
def okStopped (s : State) : Bool :=
  (s.started || inStart s) || (s.cur.isNone && s.others.isEmpty)

def sameShared (s s' : State) : Bool :=
  decide (s'.flag = s.flag) && decide (s'.cur = s.cur) && decide (s'.others = s.others) &&
  decide (s'.started = s.started)

/-- a start call on a started worker only executes steps that change nothing -/
def okStartNoop (c : Cfg) (s : State) : Bool :=
  !(inStart s && s.started) || (ctlStep c s).all fun p => sameShared s p.2

/-- a stop call on a stopped worker only executes steps that change nothing -/
def okStopNoop (c : Cfg) (s : State) : Bool :=
  !(inStop s && !s.started) || (ctlStep c s).all fun p => sameShared s p.2

def freshRunning : Worker := { Worker.fresh with st := .running }

/-- from "stopped, controller idle", a start call returns with a brand-new live worker -/
def okRestart (c : Cfg) (s : State) : Bool :=
  !(decide (s.ctl = .idle) && !s.started) ||
  match runCall c .start s with
  | some s' => decide (s'.ctl = .idle) && s'.started && decide (s'.cur = some freshRunning) &&
               !s'.flag && s'.others.isEmpty && !s'.err
  | none => false

/-- started and no stop call in progress ⇒ the handle's worker is alive, inside its loop (final
    not called, flag clear), alone, and calls target within `loopProg.length` of its own steps -/
def okAlive (c : Cfg) (s : State) : Bool :=
  !(s.started && !inStop s) ||
  match s.cur with
  | some w => decide (w.st = .running) && decide (w.nFin = 0) && !s.flag && s.others.isEmpty &&
              targetSoon c loopProg.length s
  | none => false

/-- at most one live worker, and the controller never loses track of a live worker -/
def okSingle (s : State) : Bool := decide (live s ≤ 1) && s.others.isEmpty

def okNoErr (s : State) : Bool := !s.err && !s.aliveWrong

/-- a call in progress can always make progress: somebody is enabled (no deadlock) -/
def okProgress (c : Cfg) (s : State) : Bool :=
  decide (s.ctl = .idle) || !(step c s).isEmpty

/-- a stop call in progress, run to completion with the workers scheduled whenever the controller
    is blocked, returns (bounded fuel) -/
def finishStop (c : Cfg) : Nat → State → Bool
  | 0, _ => false
  | n + 1, s =>
    match s.ctl with
    | .idle => true
    | .run _ _ =>
      match ctlStep c s with
      | (_, s') :: _ => finishStop c n s'
      | [] =>
        match curStep c s with
        | some (_, s') => finishStop c n s'
        | none => false

def okStopReturns (c : Cfg) (s : State) : Bool :=
  !inStop s || finishStop c (2 * (Meth.stop.prog.length + loopProg.length)) s

/-- names and values of all safety predicates -/
def checks (c : Cfg) (s : State) : List (String × Bool) :=
  [ ("init-once-before-target", (workers s).all (okInitW c)),
    ("final-once-after-last-target", (workers s).all (okFinalW c)),
    ("target-only-after-clear-poll", (workers s).all okPolledW),
    ("no-live-worker-when-stopped", okStopped s),
    ("start-on-running-noop", okStartNoop c s),
    ("stop-on-stopped-noop", okStopNoop c s),
    ("restartable", okRestart c s),
    ("alive-while-started", okAlive c s),
    ("single-worker", okSingle s),
    ("no-exception-and-is-alive-right", okNoErr s),
    ("no-deadlock", okProgress c s),
    ("stop-returns", okStopReturns c s) ]

def safe (c : Cfg) (s : State) : Bool :=
  (workers s).all (okInitW c) && (workers s).all (okFinalW c) && (workers s).all okPolledW &&
  okStopped s && okStartNoop c s && okStopNoop c s && okRestart c s && okAlive c s &&
  okSingle s && okNoErr s && okProgress c s && okStopReturns c s

/-- the programs are well-formed control-flow graphs -/
def progsWf : Bool :=
  loopProg.wf && Meth.start.prog.wf && Meth.stop.prog.wf && Meth.alive.prog.wf

/-! ### the computed reachable set -/

def insertNew (seen : List State) : List State → List State → List State × List State
  | [], acc => (seen, acc.reverse)
  | x :: xs, acc => if seen.contains x then insertNew seen xs acc else insertNew (seen ++ [x]) xs (x :: acc)

/-- breadth-first search; unsafe states are recorded but not expanded (so that a broken program
    gives a small set on which the closure check fails quickly) -/
def bfs (c : Cfg) : Nat → List State → List State → List State
  | 0, _, seen => seen
  | fuel + 1, frontier, seen =>
    let next := (frontier.filter (safe c)).flatMap (step c)
    let (seen', new) := insertNew seen next []
    if new.isEmpty then seen' else bfs c fuel new seen'

def bfsFuel : Nat := 200

/-- the reachable set, recomputed from the regenerated programs -/
def R (c : Cfg) : List State := bfs c bfsFuel [init] [init]

/-- `r` is closed under `step` -/
def closed (c : Cfg) (r : List State) : Bool := r.all fun s => (step c s).all r.contains

/-- everything the kernel has to check about a candidate invariant set -/
def certified (c : Cfg) (r : List State) : Bool :=
  r.contains init && r.all (safe c) && closed c r

/-- follow a path given as successor indices (used for non-vacuity examples) -/
def runPath (c : Cfg) : List Nat → State → Option State
  | [], s => some s
  | i :: is, s => match (step c s)[i]? with
    | some s' => runPath c is s'
    | none => none

/-! ### shortest counterexample (for the check's failing-input search; not used in proofs) -/

def bfsPath (c : Cfg) : Nat → List (State × List (Who × Ev)) → List State →
    Option (State × List (Who × Ev))
  | 0, _, _ => none
  | fuel + 1, frontier, seen =>
    match frontier.find? (fun p => !safe c p.1) with
    | some p => some (p.1, p.2.reverse)
    | none =>
      let next := frontier.flatMap fun p => (stepL c p.1).map fun q => (q.2.2, (q.1, q.2.1) :: p.2)
      let rec ins (seen : List State) (acc : List (State × List (Who × Ev))) :
          List (State × List (Who × Ev)) → List State × List (State × List (Who × Ev))
        | [] => (seen, acc.reverse)
        | x :: xs => if seen.contains x.1 then ins seen acc xs else ins (x.1 :: seen) (x :: acc) xs
      let (seen', new) := ins seen [] next
      if new.isEmpty then none else bfsPath c fuel new seen'

/-- a shortest schedule + history leading to a state that violates a safety predicate -/
def counterexample (c : Cfg) : Option (State × List (Who × Ev)) :=
  bfsPath c 60 [(init, [])] [init]

/-! ### history counters that survive the worker (for "when stop() has returned, final was called
    exactly once"): additions for `Props/C13.lean: stop_returned_final_once`

    The per-worker monitor above is forgotten together with a terminated worker at the
    `self._thrd = None` statement of `thread_stop`, i.e. BEFORE the call returns.  `Calls` counts
    the init / final callback calls of the whole system since the most recent
    `threading.Thread(...)` creation (since `__init__` if there was none), without saturation and
    without ever being forgotten; the programs never read it. -/

structure Calls where
  nInit : Nat
  nFin : Nat
  deriving DecidableEq, Repr

/-- effect of one labelled step on the history counters -/
def Calls.upd (ev : Ev) (g : Calls) : Calls :=
  match ev with
  | .new => ⟨0, 0⟩
  | .init => { g with nInit := g.nInit + 1 }
  | .final => { g with nFin := g.nFin + 1 }
  | _ => g

/-- `Reach` with the history counters carried along: the same steps (`stepL` lists exactly the
    successors of `step`, with their labels), from the same initial state -/
inductive ReachC (c : Cfg) : State → Calls → Prop
  | init : ReachC c init ⟨0, 0⟩
  | step {s : State} {g : Calls} {p : Who × Ev × State} :
      ReachC c s g → p ∈ stepL c s → ReachC c p.2.2 (g.upd p.2.1)

/-- counters cut off at 2 ("0, 1, many"): the finite abstraction used for the computed set -/
def Calls.sat (g : Calls) : Calls := ⟨min g.nInit 2, min g.nFin 2⟩

/-- the controller's next step is the return of a `thread_stop` call -/
def stopReturns (c : Cfg) (s : State) : Bool :=
  (ctlStep c s).any fun p => match p.1 with | .ret .stop _ => true | _ => false

/-- if a `thread_stop` call made on a started worker is about to return, init and final have been
    called exactly once each (exactly zero times for an absent callback) since the thread of that
    run was created -/
def okStopRet (c : Cfg) (sg : State × Calls) : Bool :=
  !(stopReturns c sg.1 && sg.1.started) ||
  (decide (sg.2.nFin = expected c.hasFinal) && decide (sg.2.nInit = expected c.hasInit))

/-- successors in the product of the model with the cut-off counters -/
def stepC (c : Cfg) (sg : State × Calls) : List (State × Calls) :=
  (stepL c sg.1).map fun p => (p.2.2, (sg.2.upd p.2.1).sat)

def insertNewC (seen : List (State × Calls)) :
    List (State × Calls) → List (State × Calls) → List (State × Calls) × List (State × Calls)
  | [], acc => (seen, acc.reverse)
  | x :: xs, acc =>
    if seen.contains x then insertNewC seen xs acc else insertNewC (seen ++ [x]) xs (x :: acc)

/-- breadth-first search in the product; states that violate a predicate are recorded but not
    expanded (a broken program gives a small set on which the closure check fails quickly) -/
def bfsC (c : Cfg) : Nat → List (State × Calls) → List (State × Calls) → List (State × Calls)
  | 0, _, seen => seen
  | fuel + 1, frontier, seen =>
    let next := (frontier.filter fun sg => safe c sg.1 && okStopRet c sg).flatMap (stepC c)
    let (seen', new) := insertNewC seen next []
    if new.isEmpty then seen' else bfsC c fuel new seen'

/-- the reachable set of the product, recomputed from the regenerated programs -/
def RC (c : Cfg) : List (State × Calls) := bfsC c bfsFuel [(init, ⟨0, 0⟩)] [(init, ⟨0, 0⟩)]

/-- everything the kernel has to check about a candidate invariant set of the product -/
def certifiedC (c : Cfg) (r : List (State × Calls)) : Bool :=
  r.contains (init, ⟨0, 0⟩) && r.all (okStopRet c) && r.all fun sg => (stepC c sg).all r.contains

end Nxs.Worker
