/-
  C12 — concurrent application threads see a consistent device and never deadlock.
  Property theorems only (helper lemmas in Lemmas/Locks.lean).

  WHAT IS PROVED, AND ABOUT WHAT.  The theorems are about the *lock-level abstraction* of nxslib:

  (a) `lock_table_facts`, `write_exchange_atomic`, `nesting_is_layered` — facts, decided by the
      kernel, about `Gen.Locks.table`, the lock-discipline table that harness/translate_locks.py
      re-extracts from comm.py / nxscope.py / dev.py / intf/dummy.py on every run: every access to the
      requested / acknowledged vectors is under the channels lock, every access to the subscriber
      lists under the queue lock, every access to a device description's channel list under the
      device-info lock, every access to the simulated device's channels under its lock; every lock
      acquired while another is held goes strictly up in the fixed rank (queue < channels < dummydev
      < devinfo) — the relation is exactly channels → devinfo and dummydev → devinfo; whoever waits
      on a queue while holding a lock (the writer waiting for the ACK under the channels lock) waits
      for a producer (the receive thread) that takes no lock at all; every queue operation under a
      lock is bounded; and each request+ACK exchange lies inside ONE `with` block from the diff to
      the update of the acknowledged vector.
  (b) `no_deadlock` — for ANY number of threads and any set of locks: if every waiting thread holds
      only locks of strictly smaller rank than the one it waits for, no set of threads is
      deadlocked.  `table_no_deadlock` instantiates it: threads whose lock waits happen at
      acquisition sites recorded in the table cannot deadlock.  `write_section_bounded`: a write's
      critical sections take at most two ACK timeouts (from C11), so a lock is never held forever.
  (c) `atomic_reduction_*` — because of (a), a lock-level schedule of application threads issuing
      configuration calls is an interleaving (merge) of their atomic operations, i.e. ONE operation
      list of the configuration machine; C07's theorems quantify over ALL operation lists, hence
      hold for every merge: at every point of every merge the answer of `ch_is_enabled` equals the
      device's state, and once all threads are done (each ending with a write) the device state
      equals the last requested state.  Two granularities are covered: `Config.Op` lists, in which
      `channels_write` is one atomic step (exact for devices without divider support, where it is
      one `with` block), and `LockSteps.AOp` lists, in which the divider half and the enable half of
      a write are separate atomic steps between which other threads may run (devices with divider
      support: two `with` blocks).

  WHAT RESTS ON THE RUNTIME (this property is PARTIAL in that sense).  Not proved, and outside any
  model here: that `threading.Lock` provides mutual exclusion and is eventually granted (fairness),
  that CPython executes the body of a `with lock:` block without another thread *of the same lock*
  entering (pre-emption inside a critical section by threads that do not take the lock is harmless
  only because of (a): they cannot touch the protected state), the GIL's atomicity of single
  bytecodes (list element reads / writes), `queue.Queue`'s own locking, and that a syntactic access
  in the table is the only way the state is reached (no aliasing out of a critical section: the one
  deliberate exception, `dev_channel_get(c).data.en`, the client's *copy*, is read without the
  channels lock and may lag by one ACK round trip; the property's `ch_is_enabled` does not).
  The step from (a) to "a critical section is an atomic step" is this argument, not a theorem; the
  harness closes the gap empirically by replaying real lock-level schedules (real threads under
  the deterministic scheduler) through the model driver.
-/
import NxsModel.Locks
import NxsModel.LockSteps
import NxsModel.Gen.Locks
import NxsModel.Lemmas.Locks
import NxsModel.Props.C07
namespace Nxs.C12
open Nxs Nxs.Locks Nxs.LockSteps Nxs.Config Nxs.LocksLemmas

/-! ## (a) the generated lock table -/

/-- the four discipline facts hold for the table extracted from the current sources -/
theorem lock_table_facts :
    allProtected Gen.Locks.table = true ∧ nestingRespectsRank Gen.Locks.table = true ∧
    producersLockFree Gen.Locks.table = true ∧ blockingBounded Gen.Locks.table = true := by
  decide +kernel

/-- `_nxslib_channels_enable` and `_nxslib_channels_div` hold the channels lock, in one `with` block,
    from reading the requested vector over sending and waiting for the ACK to updating the
    acknowledged vector and the device copy -/
theorem write_exchange_atomic : exchangesAtomic Gen.Locks.table = true := by
  decide +kernel

/-- the acquired-while-holding relation is exactly: channels → devinfo, dummydev → devinfo -/
theorem nesting_is_layered :
    (nestPairs Gen.Locks.table).eraseDups = [(.channels, .devinfo), (.dummydev, .devinfo)] := by
  decide +kernel

/-! ## (b) no deadlock -/

/-- For any number of threads: if every thread that waits for a lock `l` holds only locks of
    strictly smaller rank than `l` (and each lock is held by at most one thread — not even needed),
    then no set of these threads is deadlocked. -/
theorem no_deadlock {L : Type} (rank : L → Nat) (ts : List (Thr L))
    (hord : ∀ t ∈ ts, Ordered rank t) (_hexcl : Exclusive ts) :
    ∀ S : List (Thr L), (∀ t ∈ S, t ∈ ts) → ¬ Deadlocked S :=
  fun S hS => ordered_not_deadlocked rank S (fun t ht => hord t (hS t ht))

/-- the same without the mutual-exclusion hypothesis (the rank argument alone suffices) -/
theorem no_deadlock_of_ordered {L : Type} (rank : L → Nat) (S : List (Thr L))
    (hord : ∀ t ∈ S, Ordered rank t) : ¬ Deadlocked S :=
  ordered_not_deadlocked rank S hord

/-- threads that only ever wait for a lock at an acquisition site of the generated table, holding
    at most the locks recorded there, cannot deadlock -/
theorem table_no_deadlock (S : List (Thr Lock)) (h : ∀ t ∈ S, Conforms Gen.Locks.table.acqs t) :
    ¬ Deadlocked S := by
  refine ordered_not_deadlocked Lock.rank S (fun t ht l hl x hx => ?_)
  obtain ⟨a, ha, hacq, hheld⟩ := h t ht l hl
  have hr : Acq.ranked a = true := List.all_eq_true.mp lock_table_facts.2.1 a ha
  have := List.all_eq_true.mp hr x (hheld x hx)
  rw [hacq] at this
  exact of_decide_eq_true this

/-- a write never holds the channels lock for more than two ACK timeouts (virtual time, tenths of a
    second), whatever the device does: critical sections terminate -/
theorem write_section_bounded (c : Client) (d : Device) (oDiv oEn : Outcome) :
    (writeDiv c d oDiv).2.2.time ≤ 10 ∧ (writeEnable c d oEn).2.2.time ≤ 10 ∧
    (channelsWrite c d oDiv oEn).2.2.time ≤ 20 :=
  ⟨writeDiv_time c d oDiv, writeEnable_time c d oEn, channelsWrite_time c d oDiv oEn⟩

/-! ## (c) every lock-level schedule is one operation list -/

private theorem allAck_iff (ops : List Op) : C07.AllAck ops ↔ ∀ op ∈ ops, AckOp op := by
  induction ops with
  | nil => exact Iff.intro (fun _ _ h => nomatch h) (fun _ => trivial)
  | cons op r ih =>
    constructor
    · intro h op' hm
      have hr : C07.AllAck r := by cases op <;> first | exact h | exact h.2.2
      rcases List.mem_cons.mp hm with rfl | hm
      · cases op' <;> first | trivial | exact ⟨h.1, h.2.1⟩
      · exact ih.mp hr op' hm
    · intro h
      have hr := ih.mpr (fun op' hm => h op' (List.mem_cons_of_mem _ hm))
      have h0 := h op (List.mem_cons_self ..)
      cases op <;> first | exact hr | exact ⟨h0.1, h0.2, hr⟩

/-- C07's `reported_matches_device` for every merge of the threads' operation lists, at every
    point `k` of the merge: whenever a thread asks whether a channel is enabled (or for a divider),
    the answer equals the device's state -/
theorem atomic_reduction_reported (d0 : Device) (flags : Nat) (progs : List (List Op)) (m : List Op)
    (hm : Interleaving progs m) (hd : C07.WFDev d0) (ha : ∀ p ∈ progs, C07.AllAck p) (k : Nat) :
    let r := C07.after d0 flags (m.take k)
    (∀ ch, isEnabled r.1 ch = r.2.1.en.getD ch false) ∧
    r.1.enNow = r.2.1.en ∧ r.1.copyEn = r.2.1.en ∧
    (Info.divSupported flags = true → (∀ ch, divGet r.1 ch = r.2.1.div.getD ch 0) ∧
      r.1.divNow = r.2.1.div ∧ r.1.copyDiv = r.2.1.div) := by
  intro r
  have hall : ∀ op ∈ m, AckOp op :=
    hm.forall AckOp (fun p hp => (allAck_iff p).mp (ha p hp))
  have hk : C07.AllAck (m.take k) := (allAck_iff _).mpr (fun op ho => hall op (List.mem_of_mem_take ho))
  have h := C07.reported_matches_device d0 flags (m.take k) hd hk
  refine ⟨fun ch => ?_, h.1, h.2.1, fun hs => ⟨fun ch => ?_, (h.2.2 hs).1, (h.2.2 hs).2⟩⟩
  · show r.1.enNow.getD ch false = _
    rw [h.1]
  · show r.1.divNow.getD ch 0 = _
    rw [(h.2.2 hs).1]

/-- once all threads are done, each having ended with an acknowledged write, the device's state
    equals the last requested state and is what the client reports — for every merge -/
theorem atomic_reduction_final (d0 : Device) (flags : Nat) (progs : List (List Op)) (m : List Op)
    (hm : Interleaving progs m) (hd : C07.WFDev d0) (ha : ∀ p ∈ progs, C07.AllAck p)
    (hne : progs ≠ []) (hend : ∀ p ∈ progs, ∃ init, p = init ++ [.write .ack .ack]) :
    let r := C07.after d0 flags m
    r.2.1.en = r.1.enNew ∧ r.1.enNow = r.1.enNew ∧ r.1.copyEn = r.1.enNew ∧
    (Info.divSupported flags = true →
      r.2.1.div = r.1.divNew ∧ r.1.divNow = r.1.divNew ∧ r.1.copyDiv = r.1.divNew) ∧
    (Info.divSupported flags = false → r.2.1.div = d0.div) := by
  have hlast : ∀ t ∈ progs, t ≠ [] → t.getLast? = some (Op.write .ack .ack) := by
    intro t ht _
    obtain ⟨init, rfl⟩ := hend t ht
    exact List.getLast?_concat ..
  have hmne : m ≠ [] := by
    obtain ⟨p, hp⟩ := List.exists_mem_of_ne_nil progs hne
    obtain ⟨init, rfl⟩ := hend p hp
    exact hm.ne_nil ⟨_, hp, by simp⟩
  obtain ⟨init, rfl⟩ := getLast?_eq_append (hm.getLast _ hlast hmne)
  have hall : ∀ op ∈ init ++ [Op.write .ack .ack], AckOp op :=
    hm.forall AckOp (fun p hp => (allAck_iff p).mp (ha p hp))
  have hi : C07.AllAck init := (allAck_iff _).mpr (fun op ho => hall op (List.mem_append_left _ ho))
  exact C07.write_syncs d0 flags init hd hi

/-- the same at the granularity of the `with` blocks (the divider half and the enable half of a
    write are separate atomic steps): at every point of every merge of the threads' lock-level
    steps the client's answers equal the device's state -/
theorem atomic_reduction_reported_lockstep (d0 : Device) (flags : Nat) (progs : List (List AOp)) (m : List AOp)
    (hm : Interleaving progs m) (hd : C07.WFDev d0) (ha : ∀ p ∈ progs, ∀ x ∈ p, Acked x) (k : Nat) :
    let r := arun (Client.init d0 flags) d0 (m.take k)
    (∀ ch, isEnabled r.1 ch = r.2.1.en.getD ch false) ∧ (∀ ch, divGet r.1 ch = r.2.1.div.getD ch 0) ∧
    r.1.enNow = r.2.1.en ∧ r.1.copyEn = r.2.1.en ∧ r.1.divNow = r.2.1.div ∧ r.1.copyDiv = r.2.1.div := by
  intro r
  have hall : ∀ x ∈ m.take k, Acked x := fun x hx => hm.forall Acked ha x (List.mem_of_mem_take hx)
  have hS := arun_ackState (init_ackState d0 flags hd) (m.take k) hall
  obtain ⟨h1, h2, h3, h4⟩ := ackState_reported hS
  refine ⟨fun ch => ?_, fun ch => ?_, h1, h2, h3, h4⟩
  · show r.1.enNow.getD ch false = _
    rw [h1]
  · show r.1.divNow.getD ch 0 = _
    rw [h3]

/-- … and once all threads are done, each having ended with the acknowledged block(s) of a write,
    device = requested = reported — although other threads' steps may have run between the two
    halves of any write -/
theorem atomic_reduction_final_lockstep (d0 : Device) (flags : Nat) (progs : List (List AOp)) (m : List AOp)
    (hm : Interleaving progs m) (hd : C07.WFDev d0) (hne : progs ≠ [])
    (hshape : ∀ p ∈ progs, ∃ init, (∀ x ∈ init, Acked x) ∧
      p = init ++ writeBlock (Info.divSupported flags) .ack .ack) :
    let r := arun (Client.init d0 flags) d0 m
    r.2.1.en = r.1.enNew ∧ r.1.enNow = r.1.enNew ∧ r.1.copyEn = r.1.enNew ∧
    (Info.divSupported flags = true →
      r.2.1.div = r.1.divNew ∧ r.1.divNow = r.1.divNew ∧ r.1.copyDiv = r.1.divNew) ∧
    (Info.divSupported flags = false → r.2.1.div = d0.div) := by
  intro r
  have h0 := init_ackState d0 flags hd
  have hack : ∀ p ∈ progs, ∀ x ∈ p, Acked x := by
    intro p hp x hx
    obtain ⟨init, hi, rfl⟩ := hshape p hp
    rcases List.mem_append.mp hx with h | h
    · exact hi x h
    · unfold writeBlock at h
      split at h
      · rcases List.mem_cons.mp h with rfl | h
        · exact rfl
        · rw [List.mem_singleton.mp h]; exact rfl
      · rw [List.mem_singleton.mp h]; exact rfl
  have hlast : ∀ p ∈ progs, p ≠ [] → p.getLast? = some (AOp.wEn .ack) := by
    intro p hp _
    obtain ⟨init, -, rfl⟩ := hshape p hp
    unfold writeBlock
    split
    · exact getLast?_append_wEn init [.wDiv .ack] (.wEn .ack)
    · exact List.getLast?_concat ..
  obtain ⟨p0, hp0⟩ := List.exists_mem_of_ne_nil progs hne
  have hp0ne : p0 ≠ [] := by
    obtain ⟨init, -, rfl⟩ := hshape p0 hp0
    unfold writeBlock
    split <;> simp
  have hen := final_en hm h0 hack hlast (Or.inl ⟨p0, hp0, hp0ne⟩)
  have hS := arun_ackState h0 m (hm.forall Acked hack)
  refine ⟨hen.1, hen.2.1, hen.2.2, fun hs => ?_, fun hs => hS.dev hs⟩
  have h0' : AckState true d0.div (Client.init d0 flags) d0 := by
    have := h0
    rw [hs] at this
    exact this
  have hcl : ∀ p ∈ progs, DivClosed p := by
    intro p hp
    obtain ⟨init, -, rfl⟩ := hshape p hp
    rw [hs]
    exact divClosed_append init
  have hex : ∃ t ∈ progs, ∃ x ∈ t, isWDiv x = true := by
    obtain ⟨init, -, e⟩ := hshape p0 hp0
    rw [hs] at e
    exact ⟨p0, hp0, .wDiv .ack, by rw [e]; exact List.mem_append_right _ (List.mem_cons_self ..), rfl⟩
  exact final_div hm h0' hack hcl (Or.inl hex)

/-- run back to back, the blocks of a write are `Config`'s write: the lock-level machine refines
    the configuration machine of C07 -/
theorem lockstep_refines_config (d0 : Device) (flags : Nat) (ops : List Op) (hd : C07.WFDev d0)
    (a b : Outcome) :
    let r := C07.after d0 flags ops
    (arun r.1 r.2.1 (writeBlock r.1.divSupported a b)).1 = (step r.1 r.2.1 (.write a b)).1 ∧
    (arun r.1 r.2.1 (writeBlock r.1.divSupported a b)).2.1 = (step r.1 r.2.1 (.write a b)).2.1 := by
  intro r
  have hI : Inv r.1 r.2.1 :=
    (run_induct (fun c d => Inv c d) (fun _ => True) ops (fun c d op _ hP => ⟨step_inv hP op, trivial⟩)
      (Client.init d0 flags) d0 (init_inv d0 flags hd)).1
  exact astep_write hI a b

/-! ## non-vacuity -/

/-- a deadlocked pair exists when the discipline is violated (so `Deadlocked` is not vacuous) -/
example : Deadlocked [(⟨[Lock.queue], some Lock.channels⟩ : Thr Lock), ⟨[.channels], some .queue⟩] := by
  refine ⟨by simp, fun t ht => ?_⟩
  rcases List.mem_cons.mp ht with rfl | ht
  · exact ⟨.channels, rfl, ⟨[.channels], some .queue⟩, by simp, by simp⟩
  · rcases List.mem_cons.mp ht with rfl | ht
    · exact ⟨.queue, rfl, ⟨[.queue], some .channels⟩, by simp, by simp⟩
    · nomatch ht

/-- a merge of two threads in which thread 2 runs between the two halves of thread 1's write -/
example : Interleaving [[AOp.enable [0], .wDiv .ack, .wEn .ack], [AOp.divider [1] 7, .enable [1], .wDiv .ack, .wEn .ack]]
    [.enable [0], .wDiv .ack, .divider [1] 7, .enable [1], .wEn .ack, .wDiv .ack, .wEn .ack] :=
  .step (pre := []) <| .step (pre := []) <| .step (pre := [[_]]) <| .step (pre := [[_]]) <|
    .step (pre := []) <| .step (pre := [[]]) <| .step (pre := [[]]) <| .done (by simp)

example : (arun (Client.init ⟨[false, false], [0, 0]⟩ 3) ⟨[false, false], [0, 0]⟩
    [.enable [0], .wDiv .ack, .divider [1] 7, .enable [1], .wEn .ack, .wDiv .ack, .wEn .ack]).2.1
    = ⟨[true, true], [0, 7]⟩ := by
  decide +kernel

/-- non-vacuity of the zero-channel case: a device without channels is well formed … -/
example : C07.WFDev ⟨[], []⟩ := by simp [C07.WFDev]

/-- … and a merge with writes on it, at both granularities, ends in the empty state -/
example : (C07.after ⟨[], []⟩ 3 [.enableAll, .write .ack .ack, .disableAll, .write .ack .ack]).2.1 = ⟨[], []⟩ ∧
    (arun (Client.init ⟨[], []⟩ 3) ⟨[], []⟩ [.wDiv .ack, .query, .wEn .ack, .wDiv .ack, .wEn .ack]).2.1
      = ⟨[], []⟩ := by
  decide +kernel

end Nxs.C12
