/-
  C12 — concurrent application threads see a consistent device and never deadlock.
  Property theorems only (helper lemmas in Lemmas/Locks.lean).

  WHAT IS PROVED, AND ABOUT WHAT.  The theorems are about the *lock-level abstraction* of nxslib:

  (a) `lock_table_facts`, `write_exchange_atomic`, `nesting_is_layered` — facts, decided by the
      kernel, about `Gen.Locks.table`, the lock-discipline table that harness/translate_locks.py
      re-extracts from comm.py / nxscope.py / dev.py / intf/dummy.py on every run: every access to the
      requested / acknowledged vectors is under the channels lock, every access to the subscriber
      lists under the queue lock, every access to a device description's channel list under the
      device-info lock, every access to the simulated device's channels under its lock; every lock
      acquired while another is held goes strictly up in the fixed rank (queue < channels < dummydev
      < devinfo) — the relation is exactly channels → devinfo and dummydev → devinfo; whoever waits
      on a queue while holding a lock (the writer waiting for the ACK under the channels lock) waits
      for a producer (the receive thread) that takes no lock at all; every queue operation under a
      lock is bounded; and each request+ACK exchange lies inside ONE `with` block from the diff to
      the update of the acknowledged vector.
      WHAT COUNTS AS A LOCK is resolved, not assumed from the name: the translator follows the imports of
      each module and accepts an attribute as one of the four locks only if its constructor IS
      `threading.Lock` / `threading.RLock` there (`from contextlib import nullcontext as Lock` makes every
      row a missing site; the resolved constructors are emitted as comments at the end of Gen/Locks.lean
      and as the `lockCtors` fact); a lock attribute the table does not know (a second channels lock …)
      is a missing site naming it, never a silently ignored `with`.
  (b) `no_deadlock` — for ANY number of threads and any set of locks: if every waiting thread holds
      only locks of strictly smaller rank than the one it waits for, no set of threads is
      deadlocked.  `table_no_deadlock` instantiates it: threads whose lock waits happen at
      acquisition sites recorded in the table cannot deadlock.  `write_section_bounded`: a write's
      critical sections take at most two ACK timeouts (from C11), so a lock is never held forever.
      `waitfor_no_deadlock` / `table_waitfor_no_deadlock` — the wait-for graph with ALL three ways a
      thread of this library blocks: lock waits, queue waits (the writer waiting for the ACK under the
      channels lock, the stream thread waiting for a stream frame, the application waiting for samples
      on a subscriber queue) and `Thread.join` (`thread_stop` from `stream_stop` / `disconnect`).  From
      decided facts of the table (`wait_table_facts`: ranked nesting; whoever waits on a queue while
      holding a lock waits for a producer that takes no lock; nobody joins while holding a lock; joined
      threads are library thread bodies; a library thread body never waits without a timeout and never
      joins; every queue waited on without a timeout has a producer) no set of threads whose states are
      explained by the table (`Fits`) is deadlocked — and the timeout of the ACK wait under the channels
      lock is NOT relied upon for that.  `lock_held_queue_wait_bounded` (from `blockingBounded`): a
      queue wait made while holding a lock does have a timeout, so with `write_section_bounded` a lock
      is released after a bounded time.
  (c) `atomic_reduction_*` — because of (a), a lock-level schedule of application threads issuing
      configuration calls is an interleaving (merge) of their atomic operations, i.e. ONE operation
      list of the configuration machine; C07's theorems quantify over ALL operation lists, hence
      hold for every merge: at every point of every merge the answer of `ch_is_enabled` equals the
      device's state, and once all threads are done (each ending with a write) the device state
      equals the last requested state.  Two granularities are covered: `Config.Op` lists, in which
      `channels_write` is one atomic step (exact for devices without divider support, where it is
      one `with` block), and `LockSteps.AOp` lists, in which the divider half and the enable half of
      a write are separate atomic steps between which other threads may run (devices with divider
      support: two `with` blocks).  `ch_enable_all` / `ch_disable_all` / `channels_default_cfg` are NOT
      atomic at this level: they are `chmax` one-channel blocks (plus one divider block), between which
      other threads run (`LockSteps.enableAllBlock` …); run back to back they are C07's atomic
      `enableAll` / `disableAll` / `defaultCfg` (`setall_refines_config`), as the blocks of a write are
      C07's `write` (`lockstep_refines_config`).
      `atomic_reduction_final_weak*`: the final-state clause under the weaker (necessary) condition —
      in the MERGE every setter is followed by an acknowledged write (equivalently: the last setter is);
      it is not required that every thread ends with a write.
  (d) `xreduction_*` — the same with subscribe / unsubscribe / the stream thread's fan-out in the
      schedule (`LockSteps.XOp`: one critical section of the channels lock OR of the queue lock per
      step; the stream thread's fan-out of a frame is one enabled check per sample under the channels
      lock and then one delivery block under the queue lock).  `xreduction_config`: the client /
      device component of every such schedule is the lock-level configuration run of its
      configuration blocks, so (`xreduction_reported`, `xreduction_final_weak`) the answers of
      `ch_is_enabled` — including the ones the stream thread gets for its filter — equal the device's
      state at that moment and the final state is the last requested one.  `xreduction_commute`:
      subscriber-side sections commute with every configuration block (same states, same outputs in
      either order); the enabled check commutes with every block except the enable half of a write:
      `ch_is_enabled` is the only interaction.  `delivery_sound`: what a delivery puts on a queue is a
      non-empty group of samples of a channel the queue is subscribed to, each of which passed its check.
  (e) `lockstep_any_outcome_safe`, `xreduction_any_outcome_safe`, `lockstep_doubt_view` — devices that
      reject, lose or do not acknowledge requests (and devices without ACK support): whatever the
      outcomes, no well-formed call raises, every critical section lasts at most one ACK timeout, and
      on a device with ACK support the answer of `ch_is_enabled` equals the device's state whenever no
      request of that kind is in doubt.  (The `ch_is_enabled == device` and final-state clauses of the
      property are about acknowledging devices; for the others only these are claimed.)

  WHAT RESTS ON THE RUNTIME (this property is PARTIAL in that sense).  Not proved, and outside any
  model here: that `threading.Lock` provides mutual exclusion and is eventually granted (fairness),
  that CPython executes the body of a `with lock:` block without another thread *of the same lock*
  entering (pre-emption inside a critical section by threads that do not take the lock is harmless
  only because of (a): they cannot touch the protected state), the GIL's atomicity of single
  bytecodes (list element reads / writes), `queue.Queue`'s own locking, and that a syntactic access
  in the table is the only way the state is reached (no aliasing out of a critical section: the one
  deliberate exception, `dev_channel_get(c).data.en`, the client's *copy*, is read without the
  channels lock and may lag by one ACK round trip; the property's `ch_is_enabled` does not).
  The step from (a) to "a critical section is an atomic step" is this argument, not a theorem; the
  harness closes the gap empirically by replaying real lock-level schedules (real threads under
  the deterministic scheduler) through the model driver — with the lock objects the library itself
  created (recording wrappers delegate to them; the harness supplies no exclusion of its own), also
  against a device with processing latency, so that two requests can be on the wire together unless
  the library serialises whole exchanges.
-/
import NxsModel.Locks
import NxsModel.LockSteps
import NxsModel.Gen.Locks
import NxsModel.Lemmas.Locks
import NxsModel.Lemmas.LockFan
import NxsModel.Lemmas.LockWait
import NxsModel.LockSem
import NxsModel.Lemmas.R7C12
import NxsModel.Props.C07
namespace Nxs.C12
open Nxs Nxs.Locks Nxs.LockSteps Nxs.Config Nxs.LocksLemmas

/-! ## (a) the generated lock table -/

/-- the four discipline facts hold for the table extracted from the current sources -/
theorem lock_table_facts :
    allProtected Gen.Locks.table = true ∧ nestingRespectsRank Gen.Locks.table = true ∧
    producersLockFree Gen.Locks.table = true ∧ blockingBounded Gen.Locks.table = true := by
  decide +kernel

/-- `_nxslib_channels_enable` and `_nxslib_channels_div` hold the channels lock, in one `with` block,
    from reading the requested vector over sending and waiting for the ACK to updating the
    acknowledged vector and the device copy -/
theorem write_exchange_atomic : exchangesAtomic Gen.Locks.table = true := by
  decide +kernel

/-- the acquired-while-holding relation is exactly: channels → devinfo, dummydev → devinfo -/
theorem nesting_is_layered :
    (nestPairs Gen.Locks.table).eraseDups = [(.channels, .devinfo), (.dummydev, .devinfo)] := by
  decide +kernel

/-! ## (b) no deadlock -/

/-- For any number of threads: if every thread that waits for a lock `l` holds only locks of
    strictly smaller rank than `l` (and each lock is held by at most one thread — not even needed),
    then no set of these threads is deadlocked. -/
theorem no_deadlock {L : Type} (rank : L → Nat) (ts : List (Thr L))
    (hord : ∀ t ∈ ts, Ordered rank t) (_hexcl : Exclusive ts) :
    ∀ S : List (Thr L), (∀ t ∈ S, t ∈ ts) → ¬ Deadlocked S :=
  fun S hS => ordered_not_deadlocked rank S (fun t ht => hord t (hS t ht))

/-- the same without the mutual-exclusion hypothesis (the rank argument alone suffices) -/
theorem no_deadlock_of_ordered {L : Type} (rank : L → Nat) (S : List (Thr L))
    (hord : ∀ t ∈ S, Ordered rank t) : ¬ Deadlocked S :=
  ordered_not_deadlocked rank S hord

/-- threads that only ever wait for a lock at an acquisition site of the generated table, holding
    at most the locks recorded there, cannot deadlock -/
theorem table_no_deadlock (S : List (Thr Lock)) (h : ∀ t ∈ S, Conforms Gen.Locks.table.acqs t) :
    ¬ Deadlocked S := by
  refine ordered_not_deadlocked Lock.rank S (fun t ht l hl x hx => ?_)
  obtain ⟨a, ha, hacq, hheld⟩ := h t ht l hl
  have hr : Acq.ranked a = true := List.all_eq_true.mp lock_table_facts.2.1 a ha
  have := List.all_eq_true.mp hr x (hheld x hx)
  rw [hacq] at this
  exact of_decide_eq_true this

/-- a write never holds the channels lock for more than two ACK timeouts (virtual time, tenths of a
    second), whatever the device does: critical sections terminate -/
theorem write_section_bounded (c : Client) (d : Device) (oDiv oEn : Outcome) :
    (writeDiv c d oDiv).2.2.time ≤ 10 ∧ (writeEnable c d oEn).2.2.time ≤ 10 ∧
    (channelsWrite c d oDiv oEn).2.2.time ≤ 20 :=
  ⟨writeDiv_time c d oDiv, writeEnable_time c d oEn, channelsWrite_time c d oDiv oEn⟩

/-- the decided facts of the generated table that the extended wait-for argument uses -/
theorem wait_table_facts :
    nestingRespectsRank Gen.Locks.table = true ∧ producersLockFree Gen.Locks.table = true ∧
    joinsLockFree Gen.Locks.table = true ∧ joinTargetsAreBodies Gen.Locks.table = true ∧
    bodiesNeverWaitForever Gen.Locks.table = true ∧ foreverGetsProduced Gen.Locks.table = true ∧
    subProduced Gen.Locks.table = true := by
  decide +kernel

/-- NO DEADLOCK with lock waits, queue waits and joins, for any table with these facts and any number of
    threads whose states the table explains: no non-empty set of threads exists in which every thread waits
    for a lock held inside the set, or joins a thread of the set, or waits — without timeout, or while
    holding a lock — on a queue all of whose producers are in the set. -/
theorem waitfor_no_deadlock (tbl : Table)
    (h1 : nestingRespectsRank tbl = true) (h2 : producersLockFree tbl = true) (h3 : joinsLockFree tbl = true)
    (h4 : joinTargetsAreBodies tbl = true) (h5 : bodiesNeverWaitForever tbl = true)
    (h6 : foreverGetsProduced tbl = true) (h7 : subProduced tbl = true)
    (S : List XThr) (hfit : ∀ t ∈ S, Fits tbl t) : ¬ WDeadlocked (producersOf tbl) S :=
  waitfor_not_deadlocked ⟨h1, h2, h3, h4, h5, h6, h7⟩ S hfit

/-- … instantiated with the table extracted from the current sources -/
theorem table_waitfor_no_deadlock (S : List XThr) (hfit : ∀ t ∈ S, Fits Gen.Locks.table t) :
    ¬ WDeadlocked (producersOf Gen.Locks.table) S :=
  have h := wait_table_facts
  waitfor_no_deadlock _ h.1 h.2.1 h.2.2.1 h.2.2.2.1 h.2.2.2.2.1 h.2.2.2.2.2.1 h.2.2.2.2.2.2 S hfit

/-- a queue wait made at a site of the generated table while holding a lock has a timeout (so, with
    `write_section_bounded`, the lock is released after a bounded time) -/
theorem lock_held_queue_wait_bounded (t : XThr) (hfit : Fits Gen.Locks.table t) (q : QueueId) (b : Bool)
    (hw : t.waits = some (.queue q b)) (hne : t.holds ≠ []) : b = true := by
  rcases hfit.queueSite q b hw with ⟨s, hs, hk, -, hb, hheld⟩ | ⟨-, h0, -⟩
  · have hbb := List.all_eq_true.mp lock_table_facts.2.2.2 s hs
    have hsne : s.held.isEmpty = false := by
      cases hh : t.holds with
      | nil => exact absurd hh hne
      | cons h r =>
        have := hheld h (by rw [hh]; exact List.mem_cons_self ..)
        cases hs' : s.held with
        | nil => rw [hs'] at this; nomatch this
        | cons _ _ => rfl
    rw [hsne, hk] at hbb
    rw [← hb]
    simpa using hbb
  · exact absurd h0 hne

/-! ## (c) every lock-level schedule is one operation list -/

private theorem allAck_iff (ops : List Op) : C07.AllAck ops ↔ ∀ op ∈ ops, AckOp op := by
  induction ops with
  | nil => exact Iff.intro (fun _ _ h => nomatch h) (fun _ => trivial)
  | cons op r ih =>
    constructor
    · intro h op' hm
      have hr : C07.AllAck r := by cases op <;> first | exact h | exact h.2.2
      rcases List.mem_cons.mp hm with rfl | hm
      · cases op' <;> first | trivial | exact ⟨h.1, h.2.1⟩
      · exact ih.mp hr op' hm
    · intro h
      have hr := ih.mpr (fun op' hm => h op' (List.mem_cons_of_mem _ hm))
      have h0 := h op (List.mem_cons_self ..)
      cases op <;> first | exact hr | exact ⟨h0.1, h0.2, hr⟩

/-- C07's `reported_matches_device` for every merge of the threads' operation lists, at every
    point `k` of the merge: whenever a thread asks whether a channel is enabled (or for a divider),
    the answer equals the device's state -/
theorem atomic_reduction_reported (d0 : Device) (flags : Nat) (progs : List (List Op)) (m : List Op)
    (hm : Interleaving progs m) (hd : C07.WFDev d0) (ha : ∀ p ∈ progs, C07.AllAck p) (k : Nat) :
    let r := C07.after d0 flags (m.take k)
    (∀ ch, isEnabled r.1 ch = r.2.1.en.getD ch false) ∧
    r.1.enNow = r.2.1.en ∧ r.1.copyEn = r.2.1.en ∧
    (Info.divSupported flags = true → (∀ ch, divGet r.1 ch = r.2.1.div.getD ch 0) ∧
      r.1.divNow = r.2.1.div ∧ r.1.copyDiv = r.2.1.div) := by
  intro r
  have hall : ∀ op ∈ m, AckOp op :=
    hm.forall AckOp (fun p hp => (allAck_iff p).mp (ha p hp))
  have hk : C07.AllAck (m.take k) := (allAck_iff _).mpr (fun op ho => hall op (List.mem_of_mem_take ho))
  have h := C07.reported_matches_device d0 flags (m.take k) hd hk
  refine ⟨fun ch => ?_, h.1, h.2.1, fun hs => ⟨fun ch => ?_, (h.2.2 hs).1, (h.2.2 hs).2⟩⟩
  · show r.1.enNow.getD ch false = _
    rw [h.1]
  · show r.1.divNow.getD ch 0 = _
    rw [(h.2.2 hs).1]

/-- once all threads are done, each having ended with an acknowledged write, the device's state
    equals the last requested state and is what the client reports — for every merge -/
theorem atomic_reduction_final (d0 : Device) (flags : Nat) (progs : List (List Op)) (m : List Op)
    (hm : Interleaving progs m) (hd : C07.WFDev d0) (ha : ∀ p ∈ progs, C07.AllAck p)
    (hne : progs ≠ []) (hend : ∀ p ∈ progs, ∃ init, p = init ++ [.write .ack .ack]) :
    let r := C07.after d0 flags m
    r.2.1.en = r.1.enNew ∧ r.1.enNow = r.1.enNew ∧ r.1.copyEn = r.1.enNew ∧
    (Info.divSupported flags = true →
      r.2.1.div = r.1.divNew ∧ r.1.divNow = r.1.divNew ∧ r.1.copyDiv = r.1.divNew) ∧
    (Info.divSupported flags = false → r.2.1.div = d0.div) := by
  have hlast : ∀ t ∈ progs, t ≠ [] → t.getLast? = some (Op.write .ack .ack) := by
    intro t ht _
    obtain ⟨init, rfl⟩ := hend t ht
    exact List.getLast?_concat ..
  have hmne : m ≠ [] := by
    obtain ⟨p, hp⟩ := List.exists_mem_of_ne_nil progs hne
    obtain ⟨init, rfl⟩ := hend p hp
    exact hm.ne_nil ⟨_, hp, by simp⟩
  obtain ⟨init, rfl⟩ := getLast?_eq_append (hm.getLast _ hlast hmne)
  have hall : ∀ op ∈ init ++ [Op.write .ack .ack], AckOp op :=
    hm.forall AckOp (fun p hp => (allAck_iff p).mp (ha p hp))
  have hi : C07.AllAck init := (allAck_iff _).mpr (fun op ho => hall op (List.mem_append_left _ ho))
  exact C07.write_syncs d0 flags init hd hi

/-- the same at the granularity of the `with` blocks (the divider half and the enable half of a
    write are separate atomic steps): at every point of every merge of the threads' lock-level
    steps the client's answers equal the device's state -/
theorem atomic_reduction_reported_lockstep (d0 : Device) (flags : Nat) (progs : List (List AOp)) (m : List AOp)
    (hm : Interleaving progs m) (hd : C07.WFDev d0) (ha : ∀ p ∈ progs, ∀ x ∈ p, Acked x) (k : Nat) :
    let r := arun (Client.init d0 flags) d0 (m.take k)
    (∀ ch, isEnabled r.1 ch = r.2.1.en.getD ch false) ∧ (∀ ch, divGet r.1 ch = r.2.1.div.getD ch 0) ∧
    r.1.enNow = r.2.1.en ∧ r.1.copyEn = r.2.1.en ∧ r.1.divNow = r.2.1.div ∧ r.1.copyDiv = r.2.1.div := by
  intro r
  have hall : ∀ x ∈ m.take k, Acked x := fun x hx => hm.forall Acked ha x (List.mem_of_mem_take hx)
  have hS := arun_ackState (init_ackState d0 flags hd) (m.take k) hall
  obtain ⟨h1, h2, h3, h4⟩ := ackState_reported hS
  refine ⟨fun ch => ?_, fun ch => ?_, h1, h2, h3, h4⟩
  · show r.1.enNow.getD ch false = _
    rw [h1]
  · show r.1.divNow.getD ch 0 = _
    rw [h3]

/-- … and once all threads are done, each having ended with the acknowledged block(s) of a write,
    device = requested = reported — although other threads' steps may have run between the two
    halves of any write (on a device without channels a write has no block at all) -/
theorem atomic_reduction_final_lockstep (d0 : Device) (flags : Nat) (progs : List (List AOp)) (m : List AOp)
    (hm : Interleaving progs m) (hd : C07.WFDev d0) (hne : progs ≠ [])
    (hshape : ∀ p ∈ progs, ∃ init, (∀ x ∈ init, Acked x) ∧
      p = init ++ writeBlock d0.en.length (Info.divSupported flags) .ack .ack) :
    let r := arun (Client.init d0 flags) d0 m
    r.2.1.en = r.1.enNew ∧ r.1.enNow = r.1.enNew ∧ r.1.copyEn = r.1.enNew ∧
    (Info.divSupported flags = true →
      r.2.1.div = r.1.divNew ∧ r.1.divNow = r.1.divNew ∧ r.1.copyDiv = r.1.divNew) ∧
    (Info.divSupported flags = false → r.2.1.div = d0.div) := by
  intro r
  have h0 := init_ackState d0 flags hd
  have hack : ∀ p ∈ progs, ∀ x ∈ p, Acked x := by
    intro p hp x hx
    obtain ⟨init, hi, rfl⟩ := hshape p hp
    rcases List.mem_append.mp hx with h | h
    · exact hi x h
    · unfold writeBlock at h
      split at h
      · nomatch h
      · split at h
        · rcases List.mem_cons.mp h with rfl | h
          · exact rfl
          · rw [List.mem_singleton.mp h]; exact rfl
        · rw [List.mem_singleton.mp h]; exact rfl
  have hS := arun_ackState h0 m (hm.forall Acked hack)
  by_cases hn : d0.en.length = 0
  · -- no channels: every vector is empty
    have hcn : (arun (Client.init d0 flags) d0 m).1.n = 0 := (arun_n _ _ _).trans hn
    have hen := enSynced_zero hS.inv hcn
    have hdv := divSynced_zero hS.inv hcn
    exact ⟨hen.1, hen.2.1, hen.2.2, fun _ => ⟨hdv.1, hdv.2.1, hdv.2.2⟩, fun hs => hS.dev hs⟩
  have hlast : ∀ p ∈ progs, p ≠ [] → p.getLast? = some (AOp.wEn .ack) := by
    intro p hp _
    obtain ⟨init, -, rfl⟩ := hshape p hp
    unfold writeBlock
    rw [if_neg hn]
    split
    · exact getLast?_append_wEn init [.wDiv .ack] (.wEn .ack)
    · exact List.getLast?_concat ..
  obtain ⟨p0, hp0⟩ := List.exists_mem_of_ne_nil progs hne
  have hp0ne : p0 ≠ [] := by
    obtain ⟨init, -, rfl⟩ := hshape p0 hp0
    unfold writeBlock
    rw [if_neg hn]
    split <;> simp
  have hen := final_en hm h0 hack hlast (Or.inl ⟨p0, hp0, hp0ne⟩)
  refine ⟨hen.1, hen.2.1, hen.2.2, fun hs => ?_, fun hs => hS.dev hs⟩
  have h0' : AckState true d0.div (Client.init d0 flags) d0 := by
    have := h0
    rw [hs] at this
    exact this
  have hcl : ∀ p ∈ progs, DivClosed p := by
    intro p hp
    obtain ⟨init, -, rfl⟩ := hshape p hp
    unfold writeBlock
    rw [if_neg hn, hs]
    exact divClosed_append init
  have hex : ∃ t ∈ progs, ∃ x ∈ t, isWDiv x = true := by
    obtain ⟨init, -, e⟩ := hshape p0 hp0
    unfold writeBlock at e
    rw [if_neg hn, hs] at e
    exact ⟨p0, hp0, .wDiv .ack, by rw [e]; exact List.mem_append_right _ (List.mem_cons_self ..), rfl⟩
  exact final_div hm h0' hack hcl (Or.inl hex)

/-- THE WEAKER CONDITION (configuration machine of C07): it is enough that the merge — not every thread —
    ends with an acknowledged write.  (At this granularity every op is a setter or a write, so "the last
    setter is followed by a write" says exactly that.) -/
theorem atomic_reduction_final_weak (d0 : Device) (flags : Nat) (progs : List (List Op)) (m : List Op)
    (hm : Interleaving progs m) (hd : C07.WFDev d0) (ha : ∀ p ∈ progs, C07.AllAck p)
    (hend : ∃ init, m = init ++ [.write .ack .ack]) :
    let r := C07.after d0 flags m
    r.2.1.en = r.1.enNew ∧ r.1.enNow = r.1.enNew ∧ r.1.copyEn = r.1.enNew ∧
    (Info.divSupported flags = true →
      r.2.1.div = r.1.divNew ∧ r.1.divNow = r.1.divNew ∧ r.1.copyDiv = r.1.divNew) ∧
    (Info.divSupported flags = false → r.2.1.div = d0.div) := by
  obtain ⟨init, rfl⟩ := hend
  have hall : ∀ op ∈ init ++ [Op.write .ack .ack], AckOp op :=
    hm.forall AckOp (fun p hp => (allAck_iff p).mp (ha p hp))
  have hi : C07.AllAck init := (allAck_iff _).mpr (fun op ho => hall op (List.mem_append_left _ ho))
  exact C07.write_syncs d0 flags init hd hi

/-- THE WEAKER CONDITION at the granularity of the `with` blocks: for every merge of the threads' lock-level
    steps in which every enable setter is followed — anywhere later in the merge, by any thread — by an
    acknowledged enable half of a write, and (with divider support) every divider setter by an acknowledged
    divider half: device = requested = reported once all threads are done.  Queries and the halves of
    other writes may follow the last write; threads need not end with a write. -/
theorem atomic_reduction_final_weak_lockstep (d0 : Device) (flags : Nat) (progs : List (List AOp)) (m : List AOp)
    (hm : Interleaving progs m) (hd : C07.WFDev d0) (ha : ∀ p ∈ progs, ∀ x ∈ p, Acked x)
    (hen : EnClosed m) (hdiv : Info.divSupported flags = true → DivClosed m) :
    let r := arun (Client.init d0 flags) d0 m
    r.2.1.en = r.1.enNew ∧ r.1.enNow = r.1.enNew ∧ r.1.copyEn = r.1.enNew ∧
    (Info.divSupported flags = true →
      r.2.1.div = r.1.divNew ∧ r.1.divNow = r.1.divNew ∧ r.1.copyDiv = r.1.divNew) ∧
    (Info.divSupported flags = false → r.2.1.div = d0.div) := by
  intro r
  have h0 := init_ackState d0 flags hd
  have hall : ∀ x ∈ m, Acked x := hm.forall Acked ha
  have hS := arun_ackState h0 m hall
  have he := final_en_closed m h0 hall hen (Or.inr (init_enSynced d0 flags))
  refine ⟨he.1, he.2.1, he.2.2, fun hs => ?_, fun hs => hS.dev hs⟩
  have h0' : AckState true d0.div (Client.init d0 flags) d0 := by
    have := h0
    rw [hs] at this
    exact this
  exact final_div_closed m h0' hall (hdiv hs) (Or.inr (init_divSynced d0 flags))

/-- the condition of `atomic_reduction_final_lockstep` (every thread ends with the blocks of a write)
    is the special case: spelled out for ONE thread followed by anything without setters -/
theorem enClosed_of_last_write (pre post : List AOp) (hpost : ∀ x ∈ post, isEnSetter x = false) :
    EnClosed (pre ++ AOp.wEn .ack :: post) :=
  enClosed_intro pre post _ rfl hpost

/-- run back to back, the blocks of a write are `Config`'s write: the lock-level machine refines
    the configuration machine of C07 -/
theorem lockstep_refines_config (d0 : Device) (flags : Nat) (ops : List Op) (hd : C07.WFDev d0)
    (a b : Outcome) :
    let r := C07.after d0 flags ops
    (arun r.1 r.2.1 (writeBlock r.1.n r.1.divSupported a b)).1 = (step r.1 r.2.1 (.write a b)).1 ∧
    (arun r.1 r.2.1 (writeBlock r.1.n r.1.divSupported a b)).2.1 = (step r.1 r.2.1 (.write a b)).2.1 := by
  intro r
  have hI : Inv r.1 r.2.1 :=
    (run_induct (fun c d => Inv c d) (fun _ => True) ops (fun c d op _ hP => ⟨step_inv hP op, trivial⟩)
      (Client.init d0 flags) d0 (init_inv d0 flags hd)).1
  exact astep_write hI a b

/-- … and so are the one-channel blocks of `ch_enable_all` / `ch_disable_all` / `channels_default_cfg` the atomic
    `enableAll` / `disableAll` / `defaultCfg` of C07 when nobody runs in between (client state; the device is
    not touched) -/
theorem setall_refines_config (d0 : Device) (flags : Nat) (ops : List Op) (hd : C07.WFDev d0) :
    let r := C07.after d0 flags ops
    ((arun r.1 r.2.1 (enableAllBlock r.1.n)).1 = (step r.1 r.2.1 .enableAll).1 ∧ (arun r.1 r.2.1 (enableAllBlock r.1.n)).2.1 = r.2.1) ∧
    ((arun r.1 r.2.1 (disableAllBlock r.1.n)).1 = (step r.1 r.2.1 .disableAll).1 ∧ (arun r.1 r.2.1 (disableAllBlock r.1.n)).2.1 = r.2.1) ∧
    ((arun r.1 r.2.1 (defaultCfgBlock r.1.n)).1 = (step r.1 r.2.1 .defaultCfg).1 ∧ (arun r.1 r.2.1 (defaultCfgBlock r.1.n)).2.1 = r.2.1) := by
  intro r
  have hI : Inv r.1 r.2.1 :=
    (run_induct (fun c d => Inv c d) (fun _ => True) ops (fun c d op _ hP => ⟨step_inv hP op, trivial⟩)
      (Client.init d0 flags) d0 (init_inv d0 flags hd)).1
  exact ⟨(setall_blocks_refine hI).1, (setall_blocks_refine hI).2, defaultCfg_blocks_refine hI⟩

/-! ## (d) subscribe / unsubscribe / fan-out in the schedule -/

/-- an extended step all of whose requests are acknowledged -/
def XAcked (op : XOp) : Prop := ∀ a, cfgOf op = some a → Acked a

private theorem xacked_filter {m : List XOp} (h : ∀ x ∈ m, XAcked x) : ∀ a ∈ m.filterMap cfgOf, Acked a := by
  intro a ha
  obtain ⟨x, hx, hxa⟩ := List.mem_filterMap.mp ha
  exact h x hx a hxa

/-- THE REDUCTION: for every schedule of critical sections of both locks, the client / device component is
    the lock-level configuration run of the schedule's configuration blocks (the stream thread's enabled
    checks being queries): subscriptions, unsubscriptions and deliveries are invisible to it -/
theorem xreduction_config (d0 : Device) (flags : Nat) (m : List XOp) :
    (xrun (XState.init d0 flags) m).1.c = (arun (Client.init d0 flags) d0 (m.filterMap cfgOf)).1 ∧
    (xrun (XState.init d0 flags) m).1.d = (arun (Client.init d0 flags) d0 (m.filterMap cfgOf)).2.1 :=
  xrun_cfg (XState.init d0 flags) m

/-- at every point `k` of every merge of the threads' sections (application threads configuring, writing,
    subscribing, unsubscribing; the stream thread fanning out), on an acknowledging device: the answer of
    `ch_is_enabled` / `ch_div_get` equals the device's state — in particular the answer the stream thread
    gets for its filter if the next section is its enabled check -/
theorem xreduction_reported (d0 : Device) (flags : Nat) (progs : List (List XOp)) (m : List XOp)
    (hm : Interleaving progs m) (hd : C07.WFDev d0) (ha : ∀ p ∈ progs, ∀ x ∈ p, XAcked x) (k : Nat) :
    let r := (xrun (XState.init d0 flags) (m.take k)).1
    (∀ ch, isEnabled r.c ch = r.d.en.getD ch false) ∧ (∀ ch, divGet r.c ch = r.d.div.getD ch 0) ∧
    (∀ ch, (xstep r (.fanCheck ch)).2.ans = some (r.d.en.getD ch false)) ∧
    r.c.enNow = r.d.en ∧ r.c.copyEn = r.d.en ∧ r.c.divNow = r.d.div ∧ r.c.copyDiv = r.d.div := by
  intro r
  have hall : ∀ x ∈ m.take k, XAcked x := fun x hx => hm.forall XAcked ha x (List.mem_of_mem_take hx)
  have hS := arun_ackState (init_ackState d0 flags hd) _ (xacked_filter hall)
  obtain ⟨e1, e2⟩ := xreduction_config d0 flags (m.take k)
  rw [← e1, ← e2] at hS
  obtain ⟨h1, h2, h3, h4⟩ := ackState_reported hS
  have hen : ∀ ch, isEnabled r.c ch = r.d.en.getD ch false := by
    intro ch
    show r.c.enNow.getD ch false = _
    rw [h1]
  refine ⟨hen, fun ch => ?_, fun ch => ?_, h1, h2, h3, h4⟩
  · show r.c.divNow.getD ch 0 = _
    rw [h3]
  · rw [fanCheck_ans, hen]

/-- once all threads are done: if in the merge every enable setter is followed by an acknowledged enable
    half of a write (and, with divider support, every divider setter by a divider half), device = requested
    = reported — whatever subscriptions, unsubscriptions and fan-outs are interleaved -/
theorem xreduction_final_weak (d0 : Device) (flags : Nat) (progs : List (List XOp)) (m : List XOp)
    (hm : Interleaving progs m) (hd : C07.WFDev d0) (ha : ∀ p ∈ progs, ∀ x ∈ p, XAcked x)
    (hen : EnClosed (m.filterMap cfgOf)) (hdiv : Info.divSupported flags = true → DivClosed (m.filterMap cfgOf)) :
    let r := (xrun (XState.init d0 flags) m).1
    r.d.en = r.c.enNew ∧ r.c.enNow = r.c.enNew ∧ r.c.copyEn = r.c.enNew ∧
    (Info.divSupported flags = true →
      r.d.div = r.c.divNew ∧ r.c.divNow = r.c.divNew ∧ r.c.copyDiv = r.c.divNew) ∧
    (Info.divSupported flags = false → r.d.div = d0.div) := by
  intro r
  obtain ⟨e1, e2⟩ := xreduction_config d0 flags m
  have hall : ∀ a ∈ m.filterMap cfgOf, Acked a := xacked_filter (hm.forall XAcked ha)
  have hI : Interleaving [m.filterMap cfgOf] (m.filterMap cfgOf) := by
    generalize m.filterMap cfgOf = l
    induction l with
    | nil => exact .done (by simp)
    | cons a r ih => exact .step (pre := []) ih
  have := atomic_reduction_final_weak_lockstep d0 flags [m.filterMap cfgOf] _ hI hd
    (fun p hp x hx => by rw [List.mem_singleton.mp hp] at hx; exact hall x hx) hen hdiv
  show (xrun _ m).1.d.en = (xrun _ m).1.c.enNew ∧ (xrun _ m).1.c.enNow = (xrun _ m).1.c.enNew ∧
    (xrun _ m).1.c.copyEn = (xrun _ m).1.c.enNew ∧
    (_ → (xrun _ m).1.d.div = (xrun _ m).1.c.divNew ∧ (xrun _ m).1.c.divNow = (xrun _ m).1.c.divNew ∧
      (xrun _ m).1.c.copyDiv = (xrun _ m).1.c.divNew) ∧ (_ → (xrun _ m).1.d.div = d0.div)
  rw [e1, e2]
  exact this

/-- subscription, unsubscription and delivery commute with EVERY configuration block (same state and same
    outputs in either order); the stream thread's enabled check commutes with every configuration block
    except the enable half of a write: `ch_is_enabled` is the only interaction of the two sides -/
theorem xreduction_commute (s : XState) (a : AOp) :
    (∀ op, fanOnly op = true →
      (xstep (xstep s op).1 (.cfg a)).1 = (xstep (xstep s (.cfg a)).1 op).1 ∧
      (xstep (xstep s (.cfg a)).1 op).2 = (xstep s op).2 ∧
      (xstep (xstep s op).1 (.cfg a)).2 = (xstep s (.cfg a)).2) ∧
    (keepsEnNow a = true → ∀ ch,
      (xstep (xstep s (.fanCheck ch)).1 (.cfg a)).1 = (xstep (xstep s (.cfg a)).1 (.fanCheck ch)).1 ∧
      (xstep (xstep s (.cfg a)).1 (.fanCheck ch)).2.ans = (xstep s (.fanCheck ch)).2.ans) :=
  ⟨fun op h => fanOnly_comm s op a h, fun h ch => fanCheck_comm s ch a h⟩

/-- what a delivery puts on a queue: a non-empty group of samples of ONE channel the queue is subscribed
    to at that moment, every one of which passed its enabled check -/
theorem delivery_sound (s : XState) (ss : List Smp) (q : Nat) (g : List Nat)
    (h : (q, g) ∈ (xstep s (.fanDeliver ss)).2.puts) :
    ∃ ch, ch < s.f.subs.length ∧ q ∈ s.f.subs.getD ch [] ∧ g ≠ [] ∧
      ∀ v ∈ g, ∃ p ∈ ss.zip s.f.pending, p.1.chan = ch ∧ p.2 = true ∧ p.1.val = v := by
  obtain ⟨ch, h1, h2, h3, h4⟩ := deliver_mem h
  exact ⟨ch, h1, h2, h4, fun v hv => group_mem (h3 ▸ hv)⟩

/-! ## (e) devices that reject, lose or do not acknowledge requests -/

/-- whatever the device does with each request (ack / nack / lost / applied-but-ACK-lost, with or without
    ACK support): in every merge of well-formed calls no section raises and every section lasts at most
    one ACK timeout (10 tenths of a second); the well-formedness invariant holds at the end -/
theorem lockstep_any_outcome_safe (d0 : Device) (flags : Nat) (progs : List (List AOp)) (m : List AOp)
    (hm : Interleaving progs m) (hd : C07.WFDev d0) (hw : ∀ p ∈ progs, ∀ x ∈ p, WellOp d0.en.length x) :
    (∀ o ∈ (arun (Client.init d0 flags) d0 m).2.2, o.err = none ∧ o.time ≤ 10) ∧
    Inv (arun (Client.init d0 flags) d0 m).1 (arun (Client.init d0 flags) d0 m).2.1 :=
  ⟨arun_safe (init_inv d0 flags hd) m (hm.forall _ hw), arun_inv (init_inv d0 flags hd) m⟩

/-- the same with subscribe / unsubscribe / fan-out sections in the merge -/
theorem xreduction_any_outcome_safe (d0 : Device) (flags : Nat) (progs : List (List XOp)) (m : List XOp)
    (hm : Interleaving progs m) (hd : C07.WFDev d0) (hw : ∀ p ∈ progs, ∀ x ∈ p, WellXOp d0.en.length x) :
    ∀ o ∈ (xrun (XState.init d0 flags) m).2, o.err = none ∧ ∀ so, o.cfg = some so → so.err = none ∧ so.time ≤ 10 :=
  xrun_safe (s := XState.init d0 flags) (init_inv d0 flags hd) (List.length_replicate ..) m (hm.forall _ hw)

/-- on a device with ACK support, at every point of every merge, whatever the outcomes: the answer of
    `ch_is_enabled` equals the device's state unless an enable request is in doubt (not positively
    acknowledged since), and likewise for dividers; the client's copy always equals its answers -/
theorem lockstep_doubt_view (d0 : Device) (flags : Nat) (m : List AOp) (hd : C07.WFDev d0)
    (hack : Info.ackSupported flags = true) (k : Nat) :
    let r := arun (Client.init d0 flags) d0 (m.take k)
    (r.1.enResync = false → ∀ ch, isEnabled r.1 ch = r.2.1.en.getD ch false) ∧
    (r.1.divResync = false → ∀ ch, divGet r.1 ch = r.2.1.div.getD ch 0) ∧
    r.1.copyEn = r.1.enNow ∧ r.1.copyDiv = r.1.divNow := by
  intro r
  have hS := arun_doubtState (init_doubtState d0 flags hd hack) (m.take k)
  refine ⟨fun h ch => ?_, fun h ch => ?_, hS.inv.cpEn, hS.inv.cpDiv⟩
  · show r.1.enNow.getD ch false = _
    rw [hS.dEn h]
  · show r.1.divNow.getD ch 0 = _
    rw [hS.dDiv h]

/-! ## non-vacuity -/

/-- a deadlocked pair exists when the discipline is violated (so `Deadlocked` is not vacuous) -/
example : Deadlocked [(⟨[Lock.queue], some Lock.channels⟩ : Thr Lock), ⟨[.channels], some .queue⟩] := by
  refine ⟨by simp, fun t ht => ?_⟩
  rcases List.mem_cons.mp ht with rfl | ht
  · exact ⟨.channels, rfl, ⟨[.channels], some .queue⟩, by simp, by simp⟩
  · rcases List.mem_cons.mp ht with rfl | ht
    · exact ⟨.queue, rfl, ⟨[.queue], some .channels⟩, by simp, by simp⟩
    · nomatch ht

/-- a merge of two threads in which thread 2 runs between the two halves of thread 1's write -/
example : Interleaving [[AOp.enable [0], .wDiv .ack, .wEn .ack], [AOp.divider [1] 7, .enable [1], .wDiv .ack, .wEn .ack]]
    [.enable [0], .wDiv .ack, .divider [1] 7, .enable [1], .wEn .ack, .wDiv .ack, .wEn .ack] :=
  .step (pre := []) <| .step (pre := []) <| .step (pre := [[_]]) <| .step (pre := [[_]]) <|
    .step (pre := []) <| .step (pre := [[]]) <| .step (pre := [[]]) <| .done (by simp)

example : (arun (Client.init ⟨[false, false], [0, 0]⟩ 3) ⟨[false, false], [0, 0]⟩
    [.enable [0], .wDiv .ack, .divider [1] 7, .enable [1], .wEn .ack, .wDiv .ack, .wEn .ack]).2.1
    = ⟨[true, true], [0, 7]⟩ := by
  decide +kernel

/-- non-vacuity of the zero-channel case: a device without channels is well formed … -/
example : C07.WFDev ⟨[], []⟩ := by simp [C07.WFDev]

/-- … a write on it has no block at all, and a merge with writes on it, at both granularities, ends in the
    empty state -/
example : writeBlock 0 true .ack .ack = [] ∧
    (C07.after ⟨[], []⟩ 3 [.enableAll, .write .ack .ack, .disableAll, .write .ack .ack]).2.1 = ⟨[], []⟩ ∧
    (arun (Client.init ⟨[], []⟩ 3) ⟨[], []⟩
      (enableAllBlock 0 ++ writeBlock 0 true .ack .ack ++ [.query] ++ defaultCfgBlock 0 ++ writeBlock 0 true .ack .ack)).2.1
      = ⟨[], []⟩ := by
  decide +kernel

/-- the weaker final-state condition is satisfiable where the old one is not: thread 1 ends with a query
    and thread 2's write comes last among the setters' followers -/
example : Interleaving [[AOp.enable [0], .query], [AOp.divider [1] 7, .wDiv .ack, .wEn .ack, .query]]
    [.enable [0], .divider [1] 7, .wDiv .ack, .wEn .ack, .query, .query] :=
  .step (pre := []) <| .step (pre := [[_]]) <| .step (pre := [[_]]) <| .step (pre := [[_]]) <|
    .step (pre := []) <| .step (pre := [[]]) <| .done (by simp)

example : EnClosed [AOp.enable [0], .divider [1] 7, .wDiv .ack, .wEn .ack, .query, .query] ∧
    DivClosed [AOp.enable [0], .divider [1] 7, .wDiv .ack, .wEn .ack, .query, .query] :=
  ⟨enClosed_intro [.enable [0], .divider [1] 7, .wDiv .ack] [.query, .query] (.wEn .ack) rfl (by simp [isEnSetter]),
   divClosed_intro [.enable [0], .divider [1] 7] [.wEn .ack, .query, .query] (.wDiv .ack) rfl (by simp [isDivSetter])⟩

example : (arun (Client.init ⟨[false, false], [0, 0]⟩ 3) ⟨[false, false], [0, 0]⟩
    [.enable [0], .divider [1] 7, .wDiv .ack, .wEn .ack, .query, .query]).2.1 = ⟨[true, false], [0, 7]⟩ := by
  decide +kernel

/-- `ch_disable_all` is not atomic: another thread's `ch_enable(0)` + write between its blocks survives it -/
example : (arun (Client.init ⟨[true, true], [0, 0]⟩ 3) ⟨[true, true], [0, 0]⟩
    ([.disable [0]] ++ [.enable [0]] ++ [.disable [1]] ++ writeBlock 2 true .ack .ack)).2.1 = ⟨[true, false], [0, 0]⟩ ∧
    disableAllBlock 2 = [.disable [0], .disable [1]] :=
  ⟨by decide +kernel, rfl⟩

/-- a schedule with subscriptions and a fan-out between the halves of a write: the stream thread checks
    channel 0 (already enabled and acknowledged) and channel 1 (enable still buffered), delivers only the
    sample of channel 0, to both subscribers of channel 0 (queue 1 unsubscribed from channel 1 in between) -/
example :
    let r := xrun (XState.init ⟨[true, false], [0, 0]⟩ 3)
      [.sub 0, .sub 1, .cfg (.enable [1]), .sub 0, .cfg (.wDiv .ack), .fanCheck 0, .fanCheck 1, .unsub 1,
       .fanDeliver [⟨0, 40⟩, ⟨1, 41⟩], .cfg (.wEn .ack), .fanCheck 1]
    r.1.d = ⟨[true, true], [0, 0]⟩ ∧ r.1.f.subs = [[0, 2], []] ∧
    r.2.map (·.puts) = [[], [], [], [], [], [], [], [], [(0, [40]), (2, [40])], [], []] ∧
    r.2.map (·.ans) = [none, none, none, none, none, some true, some false, none, none, none, some true] ∧
    r.2.map (·.newQ) = [some 0, some 1, none, some 2, none, none, none, none, none, none, none] := by
  decide +kernel

/-- the hypotheses of the any-outcome theorems are satisfiable, with a rejected and a lost request -/
example : WellOp 2 (.enable [0, 1]) ∧ WellOp 2 (.divider [1] 255) ∧ WellOp 2 (.wDiv (.nack 3)) ∧ WellOp 2 (.wEn .lost) ∧
    WellXOp 2 (.sub 1) := by
  refine ⟨?_, ⟨?_, by decide, by decide⟩, Nat.succ_ne_zero 1, Nat.succ_ne_zero 1, Nat.lt_succ_self 1⟩ <;>
    intro c hc <;> simp at hc <;> omega

example : ((arun (Client.init ⟨[false, false], [0, 0]⟩ 3) ⟨[false, false], [0, 0]⟩
    [.enable [0, 1], .divider [1] 255, .wDiv (.nack 3), .wEn .lost]).2.2.map fun o => (o.err, o.time))
    = [(none, 0), (none, 0), (none, 0), (none, 10)] := by
  decide +kernel

/-! ### the extended wait-for graph -/

/-- a thread state the generated table explains: an application thread inside a write, holding the
    channels lock and waiting (with a timeout) for the ACK on the response queue -/
example : Fits Gen.Locks.table ⟨.app 0, [.channels], some (.queue .resp true)⟩ where
  lockSite := fun l h => nomatch h
  queueSite := fun q b h => by
    obtain ⟨rfl, rfl⟩ : q = .resp ∧ b = true := by
      have := Option.some.inj h
      exact ⟨(Wait.queue.inj this).1.symm, (Wait.queue.inj this).2.symm⟩
    exact Or.inl (by decide +kernel)
  joinSite := fun j h => nomatch h
  body := fun x hx ht => by
    have key : ∀ x ∈ Gen.Locks.table.threads, x.tid ≠ Tid.app 0 := by decide +kernel
    exact absurd ht (key x hx)

/-- … the stream thread waiting for the channels lock (its enabled check), holding nothing -/
example : Fits Gen.Locks.table ⟨.stream, [], some (.lock .channels)⟩ where
  lockSite := fun l h => by
    obtain rfl : l = .channels := (Wait.lock.inj (Option.some.inj h)).symm
    decide +kernel
  queueSite := fun q b h => nomatch h
  joinSite := fun j h => nomatch h
  body := fun x hx ht => by
    have key : ∀ x ∈ Gen.Locks.table.threads, x.tid = Tid.stream → Lock.channels ∈ x.locks := by decide +kernel
    refine ⟨fun h hh => (nomatch hh), fun l h => ?_, fun q h => ?_, fun j h => ?_⟩
    · obtain rfl : l = .channels := (Wait.lock.inj (Option.some.inj h)).symm
      exact key x hx ht
    · simp at h
    · simp at h

/-- … an application thread in `stream_stop`, joining the stream thread, holding nothing -/
example : Fits Gen.Locks.table ⟨.app 1, [], some (.join .stream)⟩ where
  lockSite := fun l h => nomatch h
  queueSite := fun q b h => nomatch h
  joinSite := fun j h => by
    obtain rfl : j = .stream := (Wait.join.inj (Option.some.inj h)).symm
    decide +kernel
  body := fun x hx ht => by
    have key : ∀ x ∈ Gen.Locks.table.threads, x.tid ≠ Tid.app 1 := by decide +kernel
    exact absurd ht (key x hx)

/-- `WDeadlocked` is not vacuous: were the stream thread joined by a thread that holds the queue lock (what
    `joinsLockFree` excludes), the two would be deadlocked -/
example : WDeadlocked (producersOf Gen.Locks.table)
    [⟨.app 0, [.queue], some (.join .stream)⟩, ⟨.stream, [], some (.lock .queue)⟩] := by
  refine ⟨by simp, fun t ht => ?_⟩
  rcases List.mem_cons.mp ht with rfl | ht
  · exact ⟨⟨.stream, [], some (.lock .queue)⟩, by simp, rfl⟩
  · rcases List.mem_cons.mp ht with rfl | ht
    · exact ⟨⟨.app 0, [.queue], some (.join .stream)⟩, by simp, by simp⟩
    · nomatch ht

/-! ## Round 7: (f) the lock discipline as an INVARIANT of every schedule of any number of threads

`no_deadlock` … `table_no_deadlock` above are about ONE snapshot whose threads are ASSUMED ordered /
conforming.  `LockSem.lean` adds the dynamics (N threads, each a lock-level program of `acq` / `rel`;
`run s sched` executes a schedule = list of thread indices; an `acq l` can be executed only when nobody
holds `l`).  Below: for EVERY number of threads, EVERY program and EVERY executable schedule — induction
on the schedule, no enumeration. -/

section Round7
open Nxs.LockSem Nxs.R7C12

/-- MUTUAL EXCLUSION along every schedule: whatever the programs (disciplined or not), however many
    threads, after any executable schedule no lock is held by two threads. -/
theorem sched_mutual_exclusion {L : Type} [DecidableEq L] (progs : List (List (Instr L))) (sched : List Nat)
    (s : List (T L)) (hrun : run (start progs) sched = some s) : Excl s :=
  run_excl sched _ s hrun (excl_start progs)

/-- The ordered-acquisition discipline is a property of the PROGRAMS that every schedule preserves: if each
    program acquires every lock while holding only locks of strictly smaller rank (`Disc` at the start),
    then in every reachable state every thread still satisfies `Disc`, and its snapshot is `Ordered` —
    the hypothesis of `no_deadlock_of_ordered` is discharged, not assumed. -/
theorem sched_discipline_invariant {L : Type} [DecidableEq L] (rank : L → Nat) (progs : List (List (Instr L)))
    (hd : ∀ p ∈ progs, Disc rank ⟨[], p⟩) (sched : List Nat) (s : List (T L))
    (hrun : run (start progs) sched = some s) :
    ∀ t ∈ s, Disc rank t ∧ Ordered rank (view t) := by
  have h0 : ∀ t ∈ start progs, Disc rank t := by
    intro t ht
    obtain ⟨p, hp, rfl⟩ := List.mem_map.mp ht
    exact hd p hp
  have := run_preserves_all (Q := Disc rank) (fun t ht => okProg_stepT t ht) sched _ s hrun h0
  exact fun t ht => ⟨this t ht, disc_ordered rank t (this t ht)⟩

/-- No reachable state contains a deadlocked set of threads (in the sense of `Deadlocked` of part (b)). -/
theorem sched_never_deadlocked {L : Type} [DecidableEq L] (rank : L → Nat) (progs : List (List (Instr L)))
    (hd : ∀ p ∈ progs, Disc rank ⟨[], p⟩) (sched : List Nat) (s : List (T L))
    (hrun : run (start progs) sched = some s) (S : List (Thr L)) (hS : ∀ v ∈ S, ∃ t ∈ s, view t = v) :
    ¬ Deadlocked S := by
  refine no_deadlock_of_ordered rank S (fun v hv => ?_)
  obtain ⟨t, ht, rfl⟩ := hS v hv
  exact (sched_discipline_invariant rank progs hd sched s hrun t ht).2

/-- PROGRESS (no stuck state): in every reachable state of disciplined programs either every thread has
    finished holding nothing, or some thread can execute its next instruction.  Stronger than "no
    deadlocked set": it also excludes a thread blocked on a lock whose holder has finished. -/
theorem sched_no_stuck_state {L : Type} [DecidableEq L] (rank : L → Nat) (progs : List (List (Instr L)))
    (hd : ∀ p ∈ progs, Disc rank ⟨[], p⟩) (sched : List Nat) (s : List (T L))
    (hrun : run (start progs) sched = some s) :
    Finished s ∨ ∃ i s', step s i = some s' := by
  have hinv := fun t ht => (sched_discipline_invariant rank progs hd sched s hrun t ht).1
  by_cases hne : ∃ t ∈ s, t.prog ≠ []
  · exact .inr (progress rank s hinv hne)
  · exact .inl (finished_of_no_work hinv hne)

/-- EVERY SCHEDULE RUNS TO COMPLETION: an executable schedule of disciplined programs has at most
    `work` (= total number of instructions) steps, and it can always be continued to a state in which all
    threads have finished holding nothing; the completed schedule has exactly `work` steps. -/
theorem sched_completes {L : Type} [DecidableEq L] (rank : L → Nat) (progs : List (List (Instr L)))
    (hd : ∀ p ∈ progs, Disc rank ⟨[], p⟩) (sched : List Nat) (s : List (T L))
    (hrun : run (start progs) sched = some s) :
    sched.length ≤ work (start progs) ∧
    ∃ more s', run (start progs) (sched ++ more) = some s' ∧ Finished s' ∧
      (sched ++ more).length = work (start progs) := by
  have hinv := fun t ht => (sched_discipline_invariant rank progs hd sched s hrun t ht).1
  have hw := run_work sched _ s hrun
  refine ⟨by omega, ?_⟩
  obtain ⟨more, s', hr, hf⟩ := completes rank (work s) s (Nat.le_refl _) hinv
  have hall := run_append sched more _ s s' hrun hr
  refine ⟨more, s', hall, hf, ?_⟩
  have hw' := run_work _ _ s' hall
  have h0 : work s' = 0 := by
    clear hw' hall hr
    induction s' with
    | nil => rfl
    | cons t s' ih =>
      have := (hf t (by simp)).1
      simp only [work, this, List.length_nil, Nat.zero_add]
      exact ih (fun u hu => hf u (by simp [hu]))
  omega

/-- The generated lock table carries this over to the library: ANY number of threads, each running ANY
    sequence of lock operations in which every acquisition happens at an acquisition site of
    `Gen.Locks.table` holding at most the locks recorded there (and `with`-balanced), under ANY schedule:
    mutual exclusion, no deadlocked set, no stuck state, and completion within `work` steps. -/
theorem table_threads_run_to_completion (progs : List (List (Instr Lock)))
    (hd : ∀ p ∈ progs, TableThread Gen.Locks.table ⟨[], p⟩) (sched : List Nat) (s : List (T Lock))
    (hrun : run (start progs) sched = some s) :
    Excl s ∧ (∀ t ∈ s, Ordered Lock.rank (view t)) ∧ (Finished s ∨ ∃ i s', step s i = some s') ∧
    sched.length ≤ work (start progs) ∧
    ∃ more s', run (start progs) (sched ++ more) = some s' ∧ Finished s' := by
  have hd' : ∀ p ∈ progs, Disc Lock.rank ⟨[], p⟩ :=
    fun p hp => tableThread_disc lock_table_facts.2.1 _ (hd p hp)
  obtain ⟨hlen, more, s', hr, hf, -⟩ := sched_completes Lock.rank progs hd' sched s hrun
  exact ⟨sched_mutual_exclusion progs sched s hrun,
    fun t ht => (sched_discipline_invariant Lock.rank progs hd' sched s hrun t ht).2,
    sched_no_stuck_state Lock.rank progs hd' sched s hrun, hlen, more, s', hr, hf⟩

/-! ### non-vacuity of (f) -/

/-- three table-conforming threads: a writer (channels → devinfo nested), the dummy device (dummydev →
    devinfo nested), a subscriber (queue) -/
def r7progs : List (List (Instr Lock)) :=
  [[.acq .channels, .acq .devinfo, .rel .devinfo, .rel .channels, .acq .channels, .rel .channels],
   [.acq .dummydev, .acq .devinfo, .rel .devinfo, .rel .dummydev],
   [.acq .queue, .rel .queue, .acq .channels, .rel .channels]]

example : ∀ p ∈ r7progs, TableThread Gen.Locks.table ⟨[], p⟩ := by
  have h : (r7progs.all fun p => okProgB (siteOk Gen.Locks.table.acqs) [] p) = true := by decide +kernel
  exact fun p hp => List.all_eq_true.mp h p hp

/-- a schedule in which the writer holds channels + devinfo while the other two are blocked / running -/
example : (run (start r7progs) [0, 1, 0, 2, 2, 0]).isSome = true ∧
    -- thread 2 wants `channels` while thread 0 holds it: not enabled
    (run (start r7progs) [0, 2, 2, 2]).isSome = false ∧
    -- thread 1 wants `devinfo` while thread 0 holds it: not enabled
    (run (start r7progs) [0, 0, 1, 1]).isSome = false ∧
    work (start r7progs) = 14 := by decide +kernel

/-- the discipline is necessary: two threads nesting the same two locks in opposite orders reach, after the
    schedule [0, 1], a state that is not finished and in which nobody can move -/
example : ∃ s, run (start [[Instr.acq Lock.queue, .acq .channels, .rel .channels, .rel .queue],
                           [.acq .channels, .acq .queue, .rel .queue, .rel .channels]]) [0, 1] = some s ∧
    s.length = 2 ∧ step s 0 = none ∧ step s 1 = none ∧ ¬ Finished s := by
  refine ⟨_, rfl, by decide, by decide, by decide, fun h => ?_⟩
  have := (h _ (List.mem_cons_self ..)).1
  exact absurd this (by decide)

/-- Conformance to the table is itself preserved by every step: in every reachable state of table-conforming
    programs every thread's snapshot satisfies `Conforms Gen.Locks.table.acqs` — the hypothesis of
    `table_no_deadlock` (part (b)) holds along every schedule instead of being assumed per snapshot. -/
theorem sched_conforms_table (progs : List (List (Instr Lock)))
    (hd : ∀ p ∈ progs, TableThread Gen.Locks.table ⟨[], p⟩) (sched : List Nat) (s : List (T Lock))
    (hrun : run (start progs) sched = some s) :
    ∀ t ∈ s, Conforms Gen.Locks.table.acqs (view t) := by
  have h0 : ∀ t ∈ start progs, OkProg (SiteP Gen.Locks.table.acqs) t.holds t.prog := by
    intro t ht
    obtain ⟨p, hp, rfl⟩ := List.mem_map.mp ht
    exact okProg_of_okProgB (siteOk_siteP _) p [] (hd p hp)
  have := run_preserves_all (Q := fun t => OkProg (SiteP Gen.Locks.table.acqs) t.holds t.prog)
    (fun t ht => okProg_stepT t ht) sched _ s hrun h0
  exact fun t ht => siteP_conforms _ t (this t ht)

/-- INDEPENDENCE of critical-section boundaries: in any state (any number of threads, any programs), if two
    different threads can both execute their next lock operation and they do not both try to acquire the
    same lock, the two steps can be taken in either order and lead to the same state; in particular a step
    of one thread never disables such a step of another. -/
theorem sched_steps_commute {L : Type} [DecidableEq L] (s : List (T L)) (i j : Nat) (ti tj : T L)
    (hij : i ≠ j) (hi : s[i]? = some ti) (hj : s[j]? = some tj)
    (hei : enabled s ti = true) (hej : enabled s tj = true)
    (hdiff : ∀ l, (view ti).waits = some l → (view tj).waits ≠ some l) :
    ∃ s1 s2 s', step s i = some s1 ∧ step s j = some s2 ∧ step s1 j = some s' ∧ step s2 i = some s' := by
  obtain ⟨h1, h2, h3, h4⟩ := step_diamond hij hi hj hei hej hdiff
  exact ⟨_, _, _, h1, h2, h3, h4⟩

/-- the literal reading of "every schedule runs to completion": a schedule of disciplined programs that
    cannot be extended (no thread can move) has finished every thread, each holding nothing -/
theorem sched_maximal_finished {L : Type} [DecidableEq L] (rank : L → Nat) (progs : List (List (Instr L)))
    (hd : ∀ p ∈ progs, Disc rank ⟨[], p⟩) (sched : List Nat) (s : List (T L))
    (hrun : run (start progs) sched = some s) (hmax : ∀ i, step s i = none) : Finished s := by
  rcases sched_no_stuck_state rank progs hd sched s hrun with h | ⟨i, s', h⟩
  · exact h
  · rw [hmax i] at h
    nomatch h

/-- the lock-level program of one acquisition site: take the locks recorded as held (outermost first), take
    the site's lock, release everything in reverse order -/
def siteProg (a : Acq) : List (Instr Lock) :=
  a.held.map .acq ++ [.acq a.acquires, .rel a.acquires] ++ a.held.reverse.map .rel

/-- the model's programs cover the table: EVERY one of the acquisition sites of `Gen.Locks.table`, with
    exactly the locks recorded as held there, is the program of a `TableThread` (so the hypotheses of
    `table_threads_run_to_completion` are satisfied by each recorded site, nested ones included) -/
theorem table_sites_are_programs :
    (Gen.Locks.table.acqs.all fun a => okProgB (siteOk Gen.Locks.table.acqs) [] (siteProg a)) = true := by
  decide +kernel

example : ∃ a ∈ Gen.Locks.table.acqs, a.held ≠ [] := by decide +kernel

/-- the hypotheses of `sched_steps_commute` hold at the start of `r7progs` for the writer and the dummy
    device, and both orders give the same state; the race for ONE lock (two writers) is excluded -/
example : run (start r7progs) [0, 1] = run (start r7progs) [1, 0] ∧ (run (start r7progs) [0, 1]).isSome = true ∧
    (run (start [[Instr.acq Lock.channels, .rel .channels], [.acq .channels, .rel .channels]]) [0, 1]).isSome = false := by
  decide +kernel

end Round7

end Nxs.C12
