/-
  C01 — emitted frames are the NxScope serial wire format and round-trip.
  Property theorems only (helper lemmas live in Lemmas/).

  `Spec.wire` (Spec/Wire.lean) is the hand-written NxScope serial encoding; `crc16xmodem` is the
  textbook bitwise CRC (poly 0x1021, init 0, MSB first, no final xor), pinned by the check value.
-/
import NxsModel.Serial
import NxsModel.Spec.Wire
import NxsModel.Lemmas.CrcResidue
import NxsModel.Lemmas.Serial
namespace Nxs.C01
open Nxs Nxs.Spec

/-- pin the CRC definition: check value of CRC-16/XMODEM -/
example : crc16xmodem ([0x31,0x32,0x33,0x34,0x35,0x36,0x37,0x38,0x39] : Bytes) = 0x31C3 := by decide +kernel

/-- every frame built from an id ≤ 255 and a payload that fits is exactly the wire format -/
theorem create_eq_wire (fid : Nat) (p : Bytes) (hp : p.length ≤ 65529) (hf : fid ≤ 255) :
    Serial.frameCreate fid (some p) = .ok (wire fid p) :=
  Serial.frameCreate_eq fid p hp hf

/-- `None` and the empty payload are the same frame -/
theorem create_none (fid : Nat) : Serial.frameCreate fid none = Serial.frameCreate fid (some []) := rfl

/-- a payload that does not fit the 16-bit length field is refused, never emitted -/
theorem create_refuses (fid : Nat) (p : Bytes) (hp : p.length > 65529) :
    ∃ e, Serial.frameCreate fid (some p) = .error e :=
  Serial.frameCreate_refuses fid p hp

/-- decoding the wire frame returns the same id and payload, with no error -/
theorem decode_create (fid : Nat) (p : Bytes) (hp : p.length ≤ 65529) (hf : fid ≤ 8) :
    Serial.frameDecode (wire fid p) = .ok ⟨fid, p⟩ :=
  Serial.frameDecode_wire fid p hp hf

/-- hence: decode ∘ create = id on the whole quantifier of the property -/
theorem decode_frameCreate (fid : Nat) (p : Bytes) (hp : p.length ≤ 65529) (hf : fid ≤ 8) :
    (Serial.frameCreate fid (some p)).bind Serial.frameDecode = .ok ⟨fid, p⟩ := by
  rw [create_eq_wire fid p hp (by omega)]
  exact decode_create fid p hp hf

/-- non-vacuity: a concrete non-trivial frame -/
example : Serial.frameCreate 5 (some [0x01]) = .ok [0x55, 0x07, 0x00, 0x05, 0x01, 0x88, 0x9c] := by decide +kernel
example : Serial.frameDecode [0x55, 0x07, 0x00, 0x05, 0x01, 0x88, 0x9c] = .ok ⟨5, [0x01]⟩ := by decide +kernel

end Nxs.C01
