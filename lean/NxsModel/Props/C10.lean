/-
  C10 — connect and disconnect always terminate, whatever the link does.
  Property theorems only (helper lemmas in Lemmas/Handshake.lean)
  The handshake model (`Handshake.lean`) is a total function of the adversarial link script: its
  structural recursion over the generated retry counters IS the termination proof; the theorems
  add the explicit time bound (virtual time, tenths of a second), the clean-up after failure, and
  the no-spin property of the receive-thread body (`Reasm.readFrame`).
-/
import NxsModel.Handshake
import NxsModel.Reasm
import NxsModel.Lemmas.Handshake
import NxsModel.Lemmas.SerialLawful
namespace Nxs.C10
open Nxs Nxs.Handshake

/-- whatever the link answers (any script, any default behaviour, any declared device), connect
    returns or raises within the explicit bound -/
theorem connect_bounded (dev : DevDesc) (script : List Resp) (dflt : Resp) :
    (connect dev script dflt).time ≤ bound dev.chmax :=
  connect_time_le dev script dflt

/-- the bound written out with the current counters and timeouts: 0.8 s + 6 × (1 s + 0.8 s + chmax × 6 × 1 s) -/
theorem bound_eq (chmax : Nat) : bound chmax = 8 + 6 * (18 + chmax * 60) :=
  bound_num chmax

/-- disconnect after that connect costs at most one more drain -/
theorem disconnect_bounded (dev : DevDesc) (script : List Resp) (dflt : Resp) :
    (disconnectAfter (connect dev script dflt)).time ≤ (connect dev script dflt).time + 8 :=
  disconnect_time_le _

/-- afterwards no library thread is left running and the interface is stopped — whether connect
    succeeded or raised -/
theorem no_thread_after (dev : DevDesc) (script : List Resp) (dflt : Resp) :
    (disconnectAfter (connect dev script dflt)).recvThreadRunning = false ∧
    (disconnectAfter (connect dev script dflt)).intfRunning = false :=
  disconnect_flags _ (connect_raised_flags dev script dflt)

/-- a connect that raises has already stopped its receive thread and the interface -/
theorem failed_connect_cleans_up (dev : DevDesc) (script : List Resp) (dflt : Resp) (e : Err)
    (h : (connect dev script dflt).outcome = .raised e) :
    (connect dev script dflt).recvThreadRunning = false ∧ (connect dev script dflt).intfRunning = false :=
  connect_raised_flags dev script dflt e h

/-- connect either succeeds with the device's description or raises TimeoutError / struct.error -/
theorem connect_outcomes (dev : DevDesc) (script : List Resp) (dflt : Resp) :
    (connect dev script dflt).outcome = .connected dev.chmax dev.flags dev.rxpadding ∨
    (connect dev script dflt).outcome = .raised .timeout ∨
    (connect dev script dflt).outcome = .raised .structError := by
  rw [connect_outcome]; exact connectLoop_outcome dev _ _

/-- a completely silent link: TimeoutError after the drain and six one-second attempts -/
theorem silent_link (dev : DevDesc) :
    (connect dev [] .silent).outcome = .raised .timeout ∧ (connect dev [] .silent).time = 68 :=
  silent_connect dev

/-- a device that falls silent after answering the common-info request (the historical unbounded
    `while chan is None` loop): still bounded, still raises -/
theorem silent_after_cmninfo (dev : DevDesc) (h : 1 ≤ dev.chmax) :
    (connect dev [.ok] .silent).outcome = .raised .timeout :=
  silent_after_cmninfo_connect dev h

/-- the receive-thread body never spins: when the link has nothing (the next read is empty) one
    invocation consumes at most that one read and returns, whatever is buffered (0..3 residual
    header bytes included) — so the stop flag is observed within one read timeout -/
theorem recv_body_returns (c : Codec) (fuel : Nat) (buf : Bytes) (rs : List Bytes) :
    (Reasm.readFrame c fuel buf ([] :: rs)).2.2 = rs ∨
    (Reasm.readFrame c fuel buf ([] :: rs)).2.2 = [] :: rs :=
  Reasm.readFrame_nil_cons c fuel buf rs

/-- … and on an exhausted link it returns without delivering anything it did not already hold complete -/
theorem recv_body_idle (c : Codec) (fuel : Nat) (buf : Bytes) (h : buf.length < c.hdrLen) :
    Reasm.readFrame c (fuel + 1) buf [] = (none, buf, []) :=
  Reasm.readFrame_idle c fuel buf h

/-! ### one invocation of the receive-thread body makes a bounded number of reads (noise included)

`CommHandler._recv_thread` runs `_read_frame` once per turn of the thread loop and looks at the stop
flag between turns.  Since the repair of `_read_hdr` (an undecodable header drops one byte and
RETURNS instead of `continue`-ing) no loop inside the body can be kept alive by what the link
delivers: the theorems below bound the number of `intf.read()` calls of ONE invocation by the
header length and the declared frame length only — not by the length of the script, i.e. also
under a never-ending noise source.  No assumption on the fuel, on the chunk sizes or on the
buffer is needed (empty reads and less fuel only make the body return earlier). -/

/-- the reads left after one invocation are a suffix of the script; the number `k` of reads
    consumed is at most `(hdr_len − |_prev_read|) + (hdr_len − 1) + (F − hdr_len)`, where `F` is the
    total frame length declared by the header `_read_hdr` decoded in this invocation (0 if none):
    first fill to `hdr_len` bytes, at most one re-entry with an incomplete candidate (which then
    starts with the start byte, so no second re-entry), then the rest of the frame -/
theorem recv_body_reads_prefix (c : Codec) (hc : LawfulCodec c) (fuel : Nat) (buf : Bytes) (rs : List Bytes) :
    ∃ k, (Reasm.readFrame c fuel buf rs).2.2 = rs.drop k ∧
      k ≤ (c.hdrLen - buf.length) + (c.hdrLen - 1) +
        (Reasm.declaredLen (Reasm.readHdr c fuel buf rs) - c.hdrLen) :=
  Reasm.readFrame_reads hc fuel buf rs

/-- the number of `intf.read()` calls of one invocation of `_read_frame` is at most
    `2·hdr_len − 1 + (F − hdr_len)` (= `max (2·hdr_len − 1) (hdr_len + F − 1)`), `F` = the frame
    length declared by the header decoded in this invocation, 0 if none — independent of how long
    the script (the noise) is.  So `_recv_thread` is back at its `while not stop` test after a
    bounded number of reads, each of which returns within the interface's read timeout.

    Remark: the bound `hdr_len + F + 1` is NOT valid in general: with one-byte reads, three noise
    bytes and then a start byte make `_read_hdr` keep the 1-byte candidate and read `hdr_len − 1`
    more, i.e. `2·hdr_len − 1` reads even when no header is decoded (`F = 0`); see the `example`s
    below (7 reads for the serial codec).  `2·hdr_len − 1 + (F − hdr_len)` is attained. -/
theorem recv_body_reads_bounded (c : Codec) (hc : LawfulCodec c) (fuel : Nat) (buf : Bytes) (rs : List Bytes) :
    rs.length - (Reasm.readFrame c fuel buf rs).2.2.length ≤
      2 * c.hdrLen - 1 + (Reasm.declaredLen (Reasm.readHdr c fuel buf rs) - c.hdrLen) := by
  obtain ⟨k, h1, h2⟩ := recv_body_reads_prefix c hc fuel buf rs
  rw [h1, List.length_drop]
  omega

/-- serial codec, sharp form: `hdr_len` = 4 and the length field is two bytes (`F ≤ 65535`), so one
    invocation makes at most `7 + 65531` reads.  (`LawfulCodec` is needed in the general theorem
    only for "`hdr_find` returns the FIRST start byte": a `hdr_find` that kept pointing past the
    start of the buffer would re-enter `_read_hdr` again and again; the serial codec honours it.) -/
theorem serial_recv_body_reads_le (fuel : Nat) (buf : Bytes) (rs : List Bytes) :
    rs.length - (Reasm.readFrame Serial.codec fuel buf rs).2.2.length ≤ 7 + 65531 := by
  have h := recv_body_reads_bounded Serial.codec Serial.codec_lawful fuel buf rs
  have hF := Reasm.serial_declaredLen_lt fuel buf rs
  have hl : Serial.codec.hdrLen = 4 := rfl
  rw [hl] at h
  omega

/-- serial codec (`hdr_len` = 4, two-byte length field so `F ≤ 65535`): one invocation of the
    receive-thread body makes at most `4 + 65535 + 1` reads, whatever the link delivers (the sharper
    `7 + 65531` is `serial_recv_body_reads_le`) -/
theorem serial_recv_body_reads_bounded (fuel : Nat) (buf : Bytes) (rs : List Bytes) :
    rs.length - (Reasm.readFrame Serial.codec fuel buf rs).2.2.length ≤ 4 + 65535 + 1 := by
  have := serial_recv_body_reads_le fuel buf rs
  omega

/-- not vacuous — a noise source of start bytes, one per read: the invocation returns after 4 of the
    12 reads, with one byte dropped and nothing delivered (before the repair it consumed all 12) -/
example :
    let rs : List Bytes := List.replicate 12 [0x55]
    Reasm.readFrame Serial.codec (Reasm.fuelFor [] rs) [] rs =
      (none, [0x55, 0x55, 0x55], List.replicate 8 [0x55]) := by
  decide +kernel

/-- the bound is attained, and `hdr_len + F + 1` would be wrong: three noise bytes, a start byte,
    then an undecodable rest of header, one byte per read: 7 = 2·4 − 1 reads, no header decoded -/
example :
    let rs : List Bytes := [[1], [2], [3], [0x55], [0], [0], [0xff], [9], [9], [9]]
    Reasm.readFrame Serial.codec (Reasm.fuelFor [] rs) [] rs = (none, [0, 0, 0xff], [[9], [9], [9]]) ∧
    Reasm.declaredLen (Reasm.readHdr Serial.codec (Reasm.fuelFor [] rs) [] rs) = 0 := by
  decide +kernel

/-- the statements of the receive loop that `recv_body_returns` relies on are present in the current
    source (regenerated facts): an empty read stores the buffer and returns; `_read_frame` breaks out of
    its accumulation loop on an empty read -/
theorem recv_loop_shape :
    Gen.Comm.hdrReturnsOnEmptyRead = true ∧ Gen.Comm.readFrameShape = true ∧
    Gen.Comm.connectLoopShape = true ∧ Gen.Comm.chinfoLoopShape = true ∧ Gen.Comm.getAckShape = true := by decide

example : (connect ⟨3, 3, 0⟩ [] .ok).outcome = .connected 3 3 0 ∧ (connect ⟨3, 3, 0⟩ [] .ok).time = 16 := by
  decide +kernel
example : (connect ⟨2, 3, 0⟩ [.ok, .short] .ok).outcome = .raised .structError := by decide +kernel

end Nxs.C10
