/-
  C10 — connect and disconnect always terminate, whatever the link does.
  Property theorems only (helper lemmas in Lemmas/Handshake.lean)
  The handshake model (`Handshake.lean`) is a total function of the adversarial link script: its
  structural recursion over the generated retry counters IS the termination proof; the theorems
  add the explicit time bound (virtual time, tenths of a second), the clean-up after failure, and
  the no-spin property of the receive-thread body (`Reasm.readFrame`).
-/
import NxsModel.Handshake
import NxsModel.Reasm
import NxsModel.Lemmas.Handshake
namespace Nxs.C10
open Nxs Nxs.Handshake

/-- whatever the link answers (any script, any default behaviour, any declared device), connect
    returns or raises within the explicit bound -/
theorem connect_bounded (dev : DevDesc) (script : List Resp) (dflt : Resp) :
    (connect dev script dflt).time ≤ bound dev.chmax :=
  connect_time_le dev script dflt

/-- the bound written out with the current counters and timeouts: 0.8 s + 6 × (1 s + 0.8 s + chmax × 6 × 1 s) -/
theorem bound_eq (chmax : Nat) : bound chmax = 8 + 6 * (18 + chmax * 60) :=
  bound_num chmax

/-- disconnect after that connect costs at most one more drain -/
theorem disconnect_bounded (dev : DevDesc) (script : List Resp) (dflt : Resp) :
    (disconnectAfter (connect dev script dflt)).time ≤ (connect dev script dflt).time + 8 :=
  disconnect_time_le _

/-- afterwards no library thread is left running and the interface is stopped — whether connect
    succeeded or raised -/
theorem no_thread_after (dev : DevDesc) (script : List Resp) (dflt : Resp) :
    (disconnectAfter (connect dev script dflt)).recvThreadRunning = false ∧
    (disconnectAfter (connect dev script dflt)).intfRunning = false :=
  disconnect_flags _ (connect_raised_flags dev script dflt)

/-- a connect that raises has already stopped its receive thread and the interface -/
theorem failed_connect_cleans_up (dev : DevDesc) (script : List Resp) (dflt : Resp) (e : Err)
    (h : (connect dev script dflt).outcome = .raised e) :
    (connect dev script dflt).recvThreadRunning = false ∧ (connect dev script dflt).intfRunning = false :=
  connect_raised_flags dev script dflt e h

/-- connect either succeeds with the device's description or raises TimeoutError / struct.error -/
theorem connect_outcomes (dev : DevDesc) (script : List Resp) (dflt : Resp) :
    (connect dev script dflt).outcome = .connected dev.chmax dev.flags dev.rxpadding ∨
    (connect dev script dflt).outcome = .raised .timeout ∨
    (connect dev script dflt).outcome = .raised .structError := by
  rw [connect_outcome]; exact connectLoop_outcome dev _ _

/-- a completely silent link: TimeoutError after the drain and six one-second attempts -/
theorem silent_link (dev : DevDesc) :
    (connect dev [] .silent).outcome = .raised .timeout ∧ (connect dev [] .silent).time = 68 :=
  silent_connect dev

/-- a device that falls silent after answering the common-info request (the historical unbounded
    `while chan is None` loop): still bounded, still raises -/
theorem silent_after_cmninfo (dev : DevDesc) (h : 1 ≤ dev.chmax) :
    (connect dev [.ok] .silent).outcome = .raised .timeout :=
  silent_after_cmninfo_connect dev h

/-- the receive-thread body never spins: when the link has nothing (the next read is empty) one
    invocation consumes at most that one read and returns, whatever is buffered (0..3 residual
    header bytes included) — so the stop flag is observed within one read timeout -/
theorem recv_body_returns (c : Codec) (fuel : Nat) (buf : Bytes) (rs : List Bytes) :
    (Reasm.readFrame c fuel buf ([] :: rs)).2.2 = rs ∨
    (Reasm.readFrame c fuel buf ([] :: rs)).2.2 = [] :: rs :=
  Reasm.readFrame_nil_cons c fuel buf rs

/-- … and on an exhausted link it returns without delivering anything it did not already hold complete -/
theorem recv_body_idle (c : Codec) (fuel : Nat) (buf : Bytes) (h : buf.length < c.hdrLen) :
    Reasm.readFrame c (fuel + 1) buf [] = (none, buf, []) :=
  Reasm.readFrame_idle c fuel buf h

/-- the statements of the receive loop that `recv_body_returns` relies on are present in the current
    source (regenerated facts): an empty read stores the buffer and returns; `_read_frame` breaks out of
    its accumulation loop on an empty read -/
theorem recv_loop_shape :
    Gen.Comm.hdrReturnsOnEmptyRead = true ∧ Gen.Comm.readFrameShape = true ∧
    Gen.Comm.connectLoopShape = true ∧ Gen.Comm.chinfoLoopShape = true ∧ Gen.Comm.getAckShape = true := by decide

example : (connect ⟨3, 3, 0⟩ [] .ok).outcome = .connected 3 3 0 ∧ (connect ⟨3, 3, 0⟩ [] .ok).time = 16 := by
  decide +kernel
example : (connect ⟨2, 3, 0⟩ [.ok, .short] .ok).outcome = .raised .structError := by decide +kernel

end Nxs.C10
