/-
  C10 — connect and disconnect always terminate, whatever the link does.
  Property theorems only (helper lemmas in Lemmas/Handshake.lean)
  The handshake model (`Handshake.lean`) is a total function of the adversarial link script: its
  structural recursion over the generated retry counters IS the termination proof; the theorems
  add the explicit time bound (virtual time, tenths of a second), the clean-up after failure, the
  no-spin property of the receive-thread body (`Reasm.readFrame`), the bound on what the receive
  thread still does once its stop flag is set (`stop_seen_within`), and the same for whole
  sessions: any sequence of connect / stream start / stream stop / disconnect calls on one
  `CommHandler` or `NxscopeHandler` with a fault at ANY awaited request, before or after the
  connect completed (`session_bounded`, `hl_disconnect_bounded`, `disconnect_leaves_nothing`, …).
-/
import NxsModel.Handshake
import NxsModel.Reasm
import NxsModel.Lemmas.Handshake
import NxsModel.Lemmas.SerialLawful
import NxsModel.Lemmas.R7Handshake
namespace Nxs.C10
open Nxs Nxs.Handshake

/-- whatever the link answers (any script, any default behaviour, any declared device), connect
    returns or raises within the explicit bound -/
theorem connect_bounded (dev : DevDesc) (script : List Resp) (dflt : Resp) :
    (connect dev script dflt).time ≤ bound dev.chmax :=
  connect_time_le dev script dflt

/-- the bound written out with the current counters and timeouts: 0.8 s + 6 × (1 s + 0.8 s + chmax × 6 × 1 s) -/
theorem bound_eq (chmax : Nat) : bound chmax = 8 + 6 * (18 + chmax * 60) :=
  bound_num chmax

/-- disconnect after that connect costs at most one more drain -/
theorem disconnect_bounded (dev : DevDesc) (script : List Resp) (dflt : Resp) :
    (disconnectAfter (connect dev script dflt)).time ≤ (connect dev script dflt).time + 8 :=
  disconnect_time_le _

/-- afterwards no library thread is left running and the interface is stopped — whether connect
    succeeded or raised.  (For the raised case this restates the generated Boolean
    `Gen.Comm.startCleansUp` — the translator's reading of the `except Exception:` clean-up in
    `_start` — through the model's two flags; the content is in the translator site and in the
    correspondence run, which compares the thread and interface state of the real handler.) -/
theorem no_thread_after (dev : DevDesc) (script : List Resp) (dflt : Resp) :
    (disconnectAfter (connect dev script dflt)).recvThreadRunning = false ∧
    (disconnectAfter (connect dev script dflt)).intfRunning = false :=
  disconnect_flags _ (connect_raised_flags dev script dflt)

/-- a connect that raises has already stopped its receive thread and the interface (again a
    restatement of the generated `Gen.Comm.startCleansUp`, see `no_thread_after`) -/
theorem failed_connect_cleans_up (dev : DevDesc) (script : List Resp) (dflt : Resp) (e : Err)
    (h : (connect dev script dflt).outcome = .raised e) :
    (connect dev script dflt).recvThreadRunning = false ∧ (connect dev script dflt).intfRunning = false :=
  connect_raised_flags dev script dflt e h

/-- connect either succeeds with the device's description or raises TimeoutError / struct.error (an info answer whose
    payload is too short) / UnicodeDecodeError (a channel-info answer whose name is not UTF-8: R4-C-L1) -/
theorem connect_outcomes (dev : DevDesc) (script : List Resp) (dflt : Resp) :
    (connect dev script dflt).outcome = .connected dev.chmax dev.flags dev.rxpadding ∨
    (connect dev script dflt).outcome = .raised .timeout ∨
    (connect dev script dflt).outcome = .raised .structError ∨
    (connect dev script dflt).outcome = .raised .unicodeError := by
  rw [connect_outcome]; exact connectLoop_outcome dev _ _

/-- a well-formed STREAM frame as the answer to an info request (R4-C-L1) is NOT the cheap "wrong frame": it goes to
    the stream queue, the request costs its whole time-out and yields nothing — exactly a silent link -/
theorem wrong_stream_costs_the_wait (s : St) (r : Req) (t : Nat) (h : s.next.1 = .wrongStream) :
    (request s r t).1 = .nothing ∧ (request s r t).2.time = s.time + t := by
  unfold request
  unfold St.next at h ⊢
  cases hs : s.script with
  | nil => simp [hs] at h ⊢; simp [h]
  | cons x xs => simp [hs] at h ⊢; simp [h]

/-- … and the same frame as the answer to an awaited set / start / stop request: the ACK wait runs out -/
theorem wrong_stream_ack_fails (x : Sess) (r : Sent) (t : Nat) (hs : x.started = true)
    (ha : Info.ackSupported x.dev.flags = true) (h : x.st.next.1 = .wrongStream) :
    (ackReq x r t).1 = .fail ∧ (ackReq x r t).2.st.time = x.st.time + t := by
  unfold ackReq
  simp only [hs, ha, Bool.and_self, ↓reduceIte]
  unfold St.next at h ⊢
  cases hsc : x.st.script with
  | nil => simp [hsc] at h ⊢; simp [h]
  | cons y ys => simp [hsc] at h ⊢; simp [h]

/-- a channel-info answer whose name is not UTF-8 raises at once (`_str.decode()`); connect re-raises it after the
    clean-up (`failed_connect_cleans_up`) -/
theorem bad_name_raises (s : St) (i t : Nat) (h : s.next.1 = .badName) :
    (request s (.chinfo i) t).1 = .raise .unicodeError ∧ (request s (.chinfo i) t).2.time = s.time := by
  unfold request
  unfold St.next at h ⊢
  cases hs : s.script with
  | nil => simp [hs] at h ⊢; simp [h]
  | cons x xs => simp [hs] at h ⊢; simp [h]

/-- not vacuous, and the reviewer's run: two STREAM frames as answers to common-info cost 2 × 1 s on top of the 1.6 s
    of a clean connect (the cheap wrong frame costs nothing) -/
example : (connect ⟨2, 3, 0⟩ [.wrongStream, .wrongStream] .ok).outcome = .connected 2 3 0 ∧
    (connect ⟨2, 3, 0⟩ [.wrongStream, .wrongStream] .ok).time = 36 ∧
    (connect ⟨2, 3, 0⟩ [.wrong, .wrong] .ok).time = 16 := by decide +kernel
example : ({ script := [.wrongStream], dflt := .ok } : St).next.1 = .wrongStream := by decide
example :
    let x := (commConnect (Sess.fresh ⟨1, 3, 0⟩ [.ok, .ok, .wrongStream] .ok)).2
    x.started = true ∧ Info.ackSupported x.dev.flags = true ∧ x.st.next.1 = .wrongStream := by decide +kernel
/-- the new outcome occurs, and the clean-up ran -/
example : (connect ⟨2, 3, 0⟩ [.ok, .ok, .badName] .ok).outcome = .raised .unicodeError ∧
    (connect ⟨2, 3, 0⟩ [.ok, .ok, .badName] .ok).recvThreadRunning = false ∧
    (connect ⟨2, 3, 0⟩ [.badName] .ok).outcome = .connected 2 3 0 := by decide +kernel

/-- a completely silent link: TimeoutError after the drain and six one-second attempts -/
theorem silent_link (dev : DevDesc) :
    (connect dev [] .silent).outcome = .raised .timeout ∧ (connect dev [] .silent).time = 68 :=
  silent_connect dev

/-- a device that falls silent after answering the common-info request (the historical unbounded
    `while chan is None` loop): still bounded, still raises -/
theorem silent_after_cmninfo (dev : DevDesc) (h : 1 ≤ dev.chmax) :
    (connect dev [.ok] .silent).outcome = .raised .timeout :=
  silent_after_cmninfo_connect dev h

/-- the receive-thread body never spins: when the link has nothing (the next read is empty) one
    invocation consumes at most that one read and returns, whatever is buffered (0..3 residual
    header bytes included) — so the stop flag is observed within one read timeout -/
theorem recv_body_returns (c : Codec) (fuel : Nat) (buf : Bytes) (rs : List Bytes) :
    (Reasm.readFrame c fuel buf ([] :: rs)).2.2 = rs ∨
    (Reasm.readFrame c fuel buf ([] :: rs)).2.2 = [] :: rs :=
  Reasm.readFrame_nil_cons c fuel buf rs

/-- … and on an exhausted link it returns without delivering anything it did not already hold complete -/
theorem recv_body_idle (c : Codec) (fuel : Nat) (buf : Bytes) (h : buf.length < c.hdrLen) :
    Reasm.readFrame c (fuel + 1) buf [] = (none, buf, []) :=
  Reasm.readFrame_idle c fuel buf h

/-! ### one invocation of the receive-thread body makes a bounded number of reads (noise included)

`CommHandler._recv_thread` runs `_read_frame` once per turn of the thread loop and looks at the stop
flag between turns.  Since the repair of `_read_hdr` (an undecodable header drops one byte and
RETURNS instead of `continue`-ing) no loop inside the body can be kept alive by what the link
delivers: the theorems below bound the number of `intf.read()` calls of ONE invocation by the
header length and the declared frame length only — not by the length of the script, i.e. also
under a never-ending noise source.  No assumption on the fuel, on the chunk sizes or on the
buffer is needed (empty reads and less fuel only make the body return earlier). -/

/-- the reads left after one invocation are a suffix of the script; the number `k` of reads
    consumed is at most `(hdr_len − |_prev_read|) + (hdr_len − 1) + (F − hdr_len)`, where `F` is the
    total frame length declared by the header `_read_hdr` decoded in this invocation (0 if none):
    first fill to `hdr_len` bytes, at most one re-entry with an incomplete candidate (which then
    starts with the start byte, so no second re-entry), then the rest of the frame -/
theorem recv_body_reads_prefix (c : Codec) (hc : LawfulCodec c) (fuel : Nat) (buf : Bytes) (rs : List Bytes) :
    ∃ k, (Reasm.readFrame c fuel buf rs).2.2 = rs.drop k ∧
      k ≤ (c.hdrLen - buf.length) + (c.hdrLen - 1) +
        (Reasm.declaredLen (Reasm.readHdr c fuel buf rs) - c.hdrLen) :=
  Reasm.readFrame_reads hc fuel buf rs

/-- the number of `intf.read()` calls of one invocation of `_read_frame` is at most
    `2·hdr_len − 1 + (F − hdr_len)` (= `max (2·hdr_len − 1) (hdr_len + F − 1)`), `F` = the frame
    length declared by the header decoded in this invocation, 0 if none — independent of how long
    the script (the noise) is.  So `_recv_thread` is back at its `while not stop` test after a
    bounded number of reads, each of which returns within the interface's read timeout.

    Remark: the bound `hdr_len + F + 1` is NOT valid in general: with one-byte reads, three noise
    bytes and then a start byte make `_read_hdr` keep the 1-byte candidate and read `hdr_len − 1`
    more, i.e. `2·hdr_len − 1` reads even when no header is decoded (`F = 0`); see the `example`s
    below (7 reads for the serial codec).  `2·hdr_len − 1 + (F − hdr_len)` is attained. -/
theorem recv_body_reads_bounded (c : Codec) (hc : LawfulCodec c) (fuel : Nat) (buf : Bytes) (rs : List Bytes) :
    rs.length - (Reasm.readFrame c fuel buf rs).2.2.length ≤
      2 * c.hdrLen - 1 + (Reasm.declaredLen (Reasm.readHdr c fuel buf rs) - c.hdrLen) := by
  obtain ⟨k, h1, h2⟩ := recv_body_reads_prefix c hc fuel buf rs
  rw [h1, List.length_drop]
  omega

/-- serial codec, sharp form: `hdr_len` = 4 and the length field is two bytes (`F ≤ 65535`), so one
    invocation makes at most `7 + 65531` reads.  (`LawfulCodec` is needed in the general theorem
    only for "`hdr_find` returns the FIRST start byte": a `hdr_find` that kept pointing past the
    start of the buffer would re-enter `_read_hdr` again and again; the serial codec honours it.) -/
theorem serial_recv_body_reads_le (fuel : Nat) (buf : Bytes) (rs : List Bytes) :
    rs.length - (Reasm.readFrame Serial.codec fuel buf rs).2.2.length ≤ 7 + 65531 := by
  have h := recv_body_reads_bounded Serial.codec Serial.codec_lawful fuel buf rs
  have hF := Reasm.serial_declaredLen_lt fuel buf rs
  have hl : Serial.codec.hdrLen = 4 := rfl
  rw [hl] at h
  omega

/-- serial codec (`hdr_len` = 4, two-byte length field so `F ≤ 65535`): one invocation of the
    receive-thread body makes at most `4 + 65535 + 1` reads, whatever the link delivers (the sharper
    `7 + 65531` is `serial_recv_body_reads_le`) -/
theorem serial_recv_body_reads_bounded (fuel : Nat) (buf : Bytes) (rs : List Bytes) :
    rs.length - (Reasm.readFrame Serial.codec fuel buf rs).2.2.length ≤ 4 + 65535 + 1 := by
  have := serial_recv_body_reads_le fuel buf rs
  omega

/-- not vacuous — a noise source of start bytes, one per read: the invocation returns after 4 of the
    12 reads, with one byte dropped and nothing delivered (before the repair it consumed all 12) -/
example :
    let rs : List Bytes := List.replicate 12 [0x55]
    Reasm.readFrame Serial.codec (Reasm.fuelFor [] rs) [] rs =
      (none, [0x55, 0x55, 0x55], List.replicate 8 [0x55]) := by
  decide +kernel

/-- the bound is attained, and `hdr_len + F + 1` would be wrong: three noise bytes, a start byte,
    then an undecodable rest of header, one byte per read: 7 = 2·4 − 1 reads, no header decoded -/
example :
    let rs : List Bytes := [[1], [2], [3], [0x55], [0], [0], [0xff], [9], [9], [9]]
    Reasm.readFrame Serial.codec (Reasm.fuelFor [] rs) [] rs = (none, [0, 0, 0xff], [[9], [9], [9]]) ∧
    Reasm.declaredLen (Reasm.readHdr Serial.codec (Reasm.fuelFor [] rs) [] rs) = 0 := by
  decide +kernel


/-! ### the receive thread sees a stop request after at most one more body invocation

`ThreadCommon.thread_stop()` sets the stop flag and joins the thread.  The receive thread runs the
generated `_thread_loop` program around the body; the flag is tested between two invocations of
the body.  Whatever instruction the thread is at when the flag is set (`pc` arbitrary: also
"just tested the flag, found it clear, about to call the body"), it returns after at most
`loopProg.length` of its own instructions and at most ONE more invocation of the body, and that
invocation makes at most `2·hdr_len − 1 + (F − hdr_len)` reads.  A stop request that arrives in the
MIDDLE of an invocation is covered a fortiori: the bound counts all reads of that invocation from its
beginning.  Each `intf.read()` returns within the interface's read timeout (the ICommInterface
contract; assumed, not modelled), so `thread_stop()` returns within `(2·hdr_len − 1 + 65531) ×
read timeout` for the serial codec, sustained noise or not. -/

/-- with the stop flag set the receive thread exits after at most one more invocation of its body,
    i.e. after at most `(hdr_len − |_prev_read|) + (hdr_len − 1) + (F − hdr_len)` more reads -/
theorem stop_seen_within (c : Codec) (hc : LawfulCodec c) (fuel pc : Nat) (buf : Bytes) (rs : List Bytes) :
    (RecvThread.run c fuel true Worker.loopProg.length (RecvThread.at_ pc buf rs)).exited = true ∧
    (RecvThread.run c fuel true Worker.loopProg.length (RecvThread.at_ pc buf rs)).calls ≤ 1 ∧
    ∃ k, (RecvThread.run c fuel true Worker.loopProg.length (RecvThread.at_ pc buf rs)).rs = rs.drop k ∧
      k ≤ (c.hdrLen - buf.length) + (c.hdrLen - 1) +
        (Reasm.declaredLen (Reasm.readHdr c fuel buf rs) - c.hdrLen) :=
  RecvThread.run_stop_from c hc fuel pc buf rs

/-- serial codec: at most `2·4 − 1 + 65531` reads after the stop request, whatever the link delivers -/
theorem serial_stop_seen_within (fuel pc : Nat) (buf : Bytes) (rs : List Bytes) :
    (RecvThread.run Serial.codec fuel true Worker.loopProg.length (RecvThread.at_ pc buf rs)).exited = true ∧
    ∃ k, (RecvThread.run Serial.codec fuel true Worker.loopProg.length (RecvThread.at_ pc buf rs)).rs = rs.drop k ∧
      k ≤ 7 + 65531 := by
  obtain ⟨h1, _, k, h2, h3⟩ := stop_seen_within Serial.codec Serial.codec_lawful fuel pc buf rs
  refine ⟨h1, k, h2, ?_⟩
  have hF := Reasm.serial_declaredLen_lt fuel buf rs
  have hl : Serial.codec.hdrLen = 4 := rfl
  rw [hl] at h3
  omega

/-- not vacuous, and the thread is not one that had stopped working anyway: with the flag clear it
    invokes the body and is back at the flag test; under a noise source of start bytes, one per read,
    a stop request lets it consume 4 of the 12 reads and return (before the F20 repair: all 12) -/
example :
    let rs : List Bytes := List.replicate 12 [0x55]
    let t := RecvThread.run Serial.codec (Reasm.fuelFor [] rs) true Worker.loopProg.length (RecvThread.at_ 3 [] rs)
    t.exited = true ∧ t.calls = 1 ∧ t.rs = List.replicate 8 [0x55] ∧
    (RecvThread.run Serial.codec (Reasm.fuelFor [] rs) false 2 (RecvThread.at_ 2 [] rs)).exited = false := by
  decide +kernel

/-! ### sessions: faults after a successful connect, both handler levels -/

/-- `NxscopeHandler.disconnect()` (stream stop + disable-all written now + `CommHandler.disconnect()`) returns within
    the explicit bound from ANY state of the session, whatever the link answers to its up to three requests and
    however long (`w`) the stream thread's current poll still lasts -/
theorem hl_disconnect_bounded (x : Sess) (w : Nat) :
    (hlDisconnect x w).2.st.time ≤ x.st.time + hlDisconnectBound :=
  hlDisconnect_time_le x w

/-- the bound with the current timeouts: stop ACK 1 s + stream-thread poll 1 s + divider ACK 1 s + enable ACK 1 s +
    drain 0.8 s -/
theorem hl_disconnect_bound_eq : hlDisconnectBound = 48 := hlDisconnectBound_eq

/-- … and it leaves nothing behind: either it returned with receive thread, stream thread and interface stopped, or
    an ACK wait raised `struct.error` (an ACK frame of the wrong size — outside the property's fault classes;
    `hl_disconnect_returns` says that this is the only way) -/
theorem hl_disconnect_cleans_up (x : Sess) (w : Nat) (h : WF .high x) :
    ((hlDisconnect x w).1 = none ∧ (hlDisconnect x w).2.threads = 0 ∧ (hlDisconnect x w).2.intf = false ∧
        (hlDisconnect x w).2.connected = false) ∨
    (hlDisconnect x w).1 = some .structError := by
  rcases (hlDisconnect_ctl x w h).2 with ⟨h0, _, h2, h3, h4, h5, _⟩ | ⟨h0, _⟩
  · exact Or.inl ⟨h0, by simp [Sess.threads, h2, h5], h3, h4⟩
  · exact Or.inr h0

/-- within the fault classes (the device never sends a frame of the right kind and the wrong size) the high-level
    disconnect returns normally -/
theorem hl_disconnect_returns (x : Sess) (w : Nat) (h : WF .high x) (hn : NoShort x.st) :
    (hlDisconnect x w).1 = none :=
  hlDisconnect_noShort x w h hn

/-- every call of a session is bounded by its own explicit bound, from any state (any earlier faults) -/
theorem call_bounded (lvl : Level) (x : Sess) (op : Op) (w : Nat) :
    (step lvl x op w).2.st.time ≤ x.st.time + opBound lvl x.dev.chmax op :=
  step_time_le lvl x op w

/-- a whole session (any sequence of calls on one handler object, any link script, any stream-thread waits) takes at
    most the sum of the per-call bounds, and ends in a well-formed state -/
theorem session_bounded (lvl : Level) (dev : DevDesc) (script : List Resp) (dflt : Resp) (ops : List (Op × Nat)) :
    (run lvl (Sess.fresh dev script dflt) ops).2.st.time ≤ sessionBound lvl dev.chmax ops ∧
    WF lvl (run lvl (Sess.fresh dev script dflt) ops).2 := by
  have h := run_time_le lvl ops (Sess.fresh dev script dflt) (fresh_wf lvl dev script dflt)
  have h0 : (Sess.fresh dev script dflt).st.time = 0 := rfl
  have h1 : (Sess.fresh dev script dflt).dev.chmax = dev.chmax := rfl
  rw [h0, h1, Nat.zero_add] at h
  exact h

/-- the per-call bounds with the current counters and timeouts (tenths of a second) -/
theorem call_bounds_eq (chmax : Nat) :
    opBound .low chmax .connect = 8 + 6 * (18 + chmax * 60) ∧ opBound .high chmax .connect = 8 + 6 * (18 + chmax * 60) ∧
    opBound .low chmax .streamStart = 10 ∧ opBound .high chmax .streamStart = 30 ∧
    opBound .low chmax .streamStop = 10 ∧ opBound .high chmax .streamStop = 20 ∧
    opBound .low chmax .disconnect = 8 ∧ opBound .high chmax .disconnect = 48 := by
  refine ⟨bound_num chmax, bound_num chmax, ?_, ?_, ?_, ?_, ?_, ?_⟩ <;> (simp only [opBound, hlDisconnectBound]; decide)

/-- a connect call that raises — the first one or a later one on the same handler, at either level — leaves no
    library thread and no started interface behind.  (The receive-thread / interface part again rests on the generated
    `Gen.Comm.startCleansUp`; what this adds is the session: nothing of an EARLIER call is left either, because a
    handler on which connect can raise is not started, hence — invariant `WF` — has no stream thread.) -/
theorem failed_connect_leaves_nothing (lvl : Level) (x : Sess) (w : Nat) (e : Err) (h : WF lvl x)
    (hr : (step lvl x .connect w).1 = .raised e) :
    (step lvl x .connect w).2.threads = 0 ∧ (step lvl x .connect w).2.intf = false := by
  cases lvl with
  | low =>
    unfold step at hr ⊢
    obtain ⟨_, _, hc⟩ := commConnect_wf_low x h
    generalize commConnect x = p at hr hc
    obtain ⟨o, y⟩ := p
    cases o with
    | connected a b c => simp [ofOutcome] at hr
    | raised e' =>
      obtain ⟨a1, a2, a3⟩ := hc e' rfl
      simp only at a1 a2 a3 ⊢
      exact ⟨by simp [Sess.threads, a1, a3], a2⟩
  | high =>
    unfold step at hr ⊢
    obtain ⟨_, _, hc⟩ := hlConnect_ctl x h
    generalize hlConnect x = p at hr hc
    obtain ⟨o, y⟩ := p
    cases o with
    | connected a b c => simp [ofOutcome] at hr
    | raised e' =>
      obtain ⟨a1, a2, a3⟩ := hc e' rfl
      simp only at a1 a2 a3 ⊢
      exact ⟨by simp [Sess.threads, a1, a3], a2⟩

/-- a disconnect call that returns — at either level, whatever happened before (failed connects, failed requests,
    a started stream, a dead link) — leaves no library thread and no started interface behind -/
theorem disconnect_leaves_nothing (lvl : Level) (x : Sess) (w : Nat) (h : WF lvl x)
    (hr : (step lvl x .disconnect w).1 = .ok) :
    (step lvl x .disconnect w).2.threads = 0 ∧ (step lvl x .disconnect w).2.intf = false := by
  cases lvl with
  | low =>
    unfold step
    obtain ⟨w1, w2, _, w4, _⟩ := h
    obtain ⟨_, _, _, d3, _, d5, d6⟩ := commDisconnect_ctl x
    simp only
    refine ⟨?_, ?_⟩
    · simp only [Sess.threads]; rw [d5, d3, w4, w1]; cases x.started <;> rfl
    · rw [d6, w2]; cases x.started <;> rfl
  | high =>
    unfold step at hr ⊢
    rcases (hlDisconnect_ctl x w h).2 with ⟨_, _, h2, h3, _, h5, _⟩ | ⟨h0, _⟩
    · simp only
      exact ⟨by simp [Sess.threads, h2, h5], h3⟩
    · generalize hlDisconnect x w = p at hr h0
      obtain ⟨o, y⟩ := p
      simp only at h0
      subst h0
      simp [ofErr] at hr

/-- the session model extends the single-connect model: on a fresh handler the connect call of a session IS
    `connect` (outcome, clock, thread and interface flags, request log), so `connect_bounded … silent_after_cmninfo`
    above speak about the first call of every session (scripts as written by a test: nothing marked swallowed) -/
theorem session_first_connect (dev : DevDesc) (script : List Resp) (dflt : Resp) (h : Plain script dflt) :
    (commConnect (Sess.fresh dev script dflt)).1 = (connect dev script dflt).outcome ∧
    (commConnect (Sess.fresh dev script dflt)).2.st.time = (connect dev script dflt).time ∧
    (commConnect (Sess.fresh dev script dflt)).2.recvThr = (connect dev script dflt).recvThreadRunning ∧
    (commConnect (Sess.fresh dev script dflt)).2.intf = (connect dev script dflt).intfRunning ∧
    (commConnect (Sess.fresh dev script dflt)).2.log = (connect dev script dflt).sent.map .info :=
  commConnect_fresh dev script dflt h

example : Plain [.ok, .garbage, .nack] .silent := by simp [Plain, Resp.unswallow]

/-- not vacuous: the high-level handler against a device that falls silent right after the handshake — connect 1.6 s,
    stream start 3 × 1 s, disconnect 4.8 s (the bound is attained with a full stream-thread poll), nothing left -/
example :
    let x := Sess.fresh ⟨2, 3, 0⟩ [.ok, .ok, .ok] .silent
    let r := run .high x [(.connect, 0), (.streamStart, 0), (.disconnect, 10)]
    r.1 = [.connected 2 3 0, .ok, .ok] ∧ r.2.st.time = 16 + 30 + 48 ∧ r.2.threads = 0 ∧ r.2.intf = false ∧
    WF .high x ∧ NoShort x.st := by
  refine ⟨by decide +kernel, by decide +kernel, by decide +kernel, by decide +kernel, fresh_wf _ _ _ _, ?_⟩
  simp [NoShort, Sess.fresh, Resp.unswallow]

/-- the exclusion is real: an ACK frame of the wrong size makes the high-level disconnect raise, with both threads
    still running -/
example :
    let x := Sess.fresh ⟨1, 3, 0⟩ [.ok, .ok, .ok, .ok, .ok] .short
    let r := run .high x [(.connect, 0), (.streamStart, 0), (.disconnect, 10)]
    r.1 = [.connected 1 3 0, .ok, .raised .structError] ∧ r.2.threads = 2 := by
  decide +kernel

/-- garbage (a header announcing a 65281-byte frame) kills the link for the rest of the session only: the same
    handler connects again (F21) -/
example :
    let x := Sess.fresh ⟨2, 3, 0⟩ [.ok, .ok, .ok, .garbage] .ok
    let r := run .low x [(.connect, 0), (.streamStop, 0), (.disconnect, 0), (.connect, 0)]
    r.1 = [.connected 2 3 0, .noack, .ok, .connected 2 3 0] := by
  decide +kernel

/-- a failed connect really occurs in a session (hypothesis of `failed_connect_leaves_nothing`) -/
example : (step .high (Sess.fresh ⟨2, 3, 0⟩ [.ok] .silent) .connect 0).1 = .raised .timeout := by
  decide +kernel

/-- the statements of the receive loop that `recv_body_returns` relies on are present in the current
    source (regenerated facts): an empty read stores the buffer and returns; `_read_frame` breaks out of
    its accumulation loop on an empty read -/
theorem recv_loop_shape :
    Gen.Comm.hdrReturnsOnEmptyRead = true ∧ Gen.Comm.readFrameShape = true ∧
    Gen.Comm.connectLoopShape = true ∧ Gen.Comm.chinfoLoopShape = true ∧ Gen.Comm.getAckShape = true := by decide

example : (connect ⟨3, 3, 0⟩ [] .ok).outcome = .connected 3 3 0 ∧ (connect ⟨3, 3, 0⟩ [] .ok).time = 16 := by
  decide +kernel
example : (connect ⟨2, 3, 0⟩ [.ok, .short] .ok).outcome = .raised .structError := by decide +kernel

/-! ### Round 7: independence of the unread part of the link, request count, closed form of the bound

The link is read as a stream: entry `i` of the script, the default behaviour beyond its end
(`List.getD script i dflt`).  One connect awaits at most `reqBound chmax` = attempts × (1 + chmax × tries)
answers, whatever they are; nothing beyond that point of the stream can influence it. -/

/-- determinism / independence of irrelevant state: the WHOLE result of connect (outcome, virtual time, request
    log, thread and interface flags) is a function of the first `reqBound chmax` answers of the link only — two
    links (scripts of any lengths, any defaults) that agree there give the same result -/
theorem connect_depends_on_prefix (dev : DevDesc) (script script' : List Resp) (dflt dflt' : Resp)
    (h : ∀ i, i < reqBound dev.chmax → script.getD i dflt = script'.getD i dflt') :
    connect dev script dflt = connect dev script' dflt' :=
  connect_congr dev script script' dflt dflt' h

/-- the number of awaited answers with the current counters: 6 × (1 + chmax × 6) -/
theorem req_bound_eq (chmax : Nat) : reqBound chmax = 6 * (chmax * 6 + 1) := rfl

/-- compositionality: whatever follows the first `reqBound chmax` entries of the script (later faults, the
    answers to later calls of a session, the default) is irrelevant to this connect -/
theorem connect_suffix_irrelevant (dev : DevDesc) (p q q' : List Resp) (dflt dflt' : Resp)
    (hp : reqBound dev.chmax ≤ p.length) :
    connect dev (p ++ q) dflt = connect dev (p ++ q') dflt' := by
  apply connect_depends_on_prefix
  intro i hi
  have : i < p.length := Nat.lt_of_lt_of_le hi hp
  simp [List.getD_eq_getElem?_getD, List.getElem?_append_left this, List.getElem?_eq_getElem this]

/-- an exhausted script IS its default repeated: padding a script with any number of copies of the default
    changes nothing (so `silent_link`, stated for the empty script, holds for the all-silent link of every length) -/
theorem connect_pad_default (dev : DevDesc) (script : List Resp) (dflt : Resp) (m : Nat) :
    connect dev (script ++ List.replicate m dflt) dflt = connect dev script dflt := by
  apply connect_depends_on_prefix
  intro i _
  simp only [List.getD_eq_getElem?_getD]
  by_cases hi : i < script.length
  · rw [List.getElem?_append_left hi]
  · have hi' : script.length ≤ i := Nat.le_of_not_lt hi
    rw [List.getElem?_append_right hi', List.getElem?_eq_none hi']
    by_cases h2 : i - script.length < m
    · simp [h2]
    · simp [h2]

/-- the all-silent link of EVERY length (and every declared device): TimeoutError after exactly 6.8 s -/
theorem silent_link_any_length (dev : DevDesc) (m : Nat) (dflt : Resp)
    (hm : reqBound dev.chmax ≤ m) :
    (connect dev (List.replicate m .silent) dflt).outcome = .raised .timeout ∧
    (connect dev (List.replicate m .silent) dflt).time = 68 := by
  have h : connect dev (List.replicate m .silent) dflt = connect dev [] .silent := by
    apply connect_depends_on_prefix
    intro i hi
    have : i < m := Nat.lt_of_lt_of_le hi hm
    simp [List.getD_eq_getElem?_getD, this]
  rw [h]; exact silent_link dev

/-- no spinning: connect writes at most 1 + attempts × (2 + chmax × tries) requests (the stop request; per attempt
    the common-info request, the padding set-up and `tries` channel-info requests per channel), for every link -/
theorem connect_requests_bounded (dev : DevDesc) (script : List Resp) (dflt : Resp) :
    (connect dev script dflt).sent.length ≤ 1 + Gen.Comm.connectAttempts * attemptWrites dev.chmax :=
  connect_sent_le dev script dflt

/-- … with the current counters: at most 13 + 36 × chmax requests -/
theorem connect_requests_le (dev : DevDesc) (script : List Resp) (dflt : Resp) :
    (connect dev script dflt).sent.length ≤ 13 + 36 * dev.chmax := by
  have h := connect_requests_bounded dev script dflt
  have e : Gen.Comm.connectAttempts * attemptWrites dev.chmax = 6 * (dev.chmax * 6 + 2) := rfl
  rw [e] at h
  omega

/-- the time bound is the instance, at the generated timeouts and counters, of the closed form
    `boundP drain cmnT chT attempts tries chmax = drain + attempts × (cmnT + drain + chmax × tries × chT)` -/
theorem bound_closed_form (chmax : Nat) :
    bound chmax = boundP drain Gen.Comm.cmninfoTimeout Gen.Comm.chinfoTimeout Gen.Comm.connectAttempts
      Gen.Comm.chinfoAttempts chmax := rfl

/-- the closed form is monotone in every parameter: a longer time-out, more attempts, more tries or more channels
    never decrease the bound -/
theorem bound_closed_form_mono {d d' a a' b b' c c' e e' n n' : Nat}
    (hd : d ≤ d') (ha : a ≤ a') (hb : b ≤ b') (hc : c ≤ c') (he : e ≤ e') (hn : n ≤ n') :
    boundP d a b c e n ≤ boundP d' a' b' c' e' n' :=
  boundP_mono hd ha hb hc he hn

/-- in particular in the number of channels the device declares -/
theorem bound_mono {n n' : Nat} (h : n ≤ n') : bound n ≤ bound n' := by
  rw [bound_closed_form, bound_closed_form]
  exact boundP_mono (Nat.le_refl _) (Nat.le_refl _) (Nat.le_refl _) (Nat.le_refl _) (Nat.le_refl _) h

/-- instances: a one-channel device awaits at most 42 answers; a script that differs only from entry 42 on, and in
    the default, gives the same connect (here: a fault-ridden but finally successful one) -/
example : reqBound 1 = 42 := by decide
example :
    let p : List Resp := [.silent, .wrong, .ok, .nack, .noise, .ok] ++ List.replicate 36 .garbage
    connect ⟨1, 3, 0⟩ (p ++ [.short, .badName]) .silent = connect ⟨1, 3, 0⟩ (p ++ [.ok]) .garbage ∧
    (connect ⟨1, 3, 0⟩ (p ++ [.short, .badName]) .silent).outcome = .connected 1 3 0 ∧
    reqBound 1 ≤ p.length := by
  decide +kernel
example : (connect ⟨2, 3, 0⟩ ([.ok, .silent] ++ List.replicate 5 .ok) .ok) = connect ⟨2, 3, 0⟩ [.ok, .silent] .ok := by
  decide +kernel
example : (connect ⟨3, 3, 8⟩ (List.replicate 200 .silent) .ok).time = 68 := by decide +kernel
/-- the request bound is attained: every channel-info request of every attempt unanswered by a cheap wrong frame -/
example : (connect ⟨2, 3, 8⟩ [] .wrong).sent.length = 7 ∧
    (connect ⟨1, 3, 8⟩ ([.ok] ++ List.replicate 6 .wrong ++ [.ok] ++ List.replicate 6 .wrong ++ [.ok] ++
      List.replicate 6 .wrong ++ [.ok] ++ List.replicate 6 .wrong ++ [.ok] ++ List.replicate 6 .wrong ++ [.ok]) .wrong
      ).sent.length = 44 := by
  decide +kernel
example : boundP 8 10 10 6 6 3 = bound 3 ∧ bound 3 = 1196 := by decide

/-! ### Round 7: the sharp time bound and the links that attain it

`bound` is safe but not attained: an attempt whose common-info wait ran out never reaches the channel loops, and
a channel that IS answered has used at most tries − 1 waits.  `sharpBound chmax` = 0.8 s + 6 × (1 s if the device
has no channels, else 1.8 s + chmax × 5 s) is valid for every link and is attained for every `chmax`. -/

/-- every link, every device: connect returns or raises within the sharp bound -/
theorem connect_sharp_bounded (dev : DevDesc) (script : List Resp) (dflt : Resp) :
    (connect dev script dflt).time ≤ sharpBound dev.chmax :=
  connect_time_sharp dev script dflt

/-- the sharp bound written out, and its relation to the round-1 bound (never above it; strictly below it for
    every `chmax`) -/
theorem sharp_bound_eq (chmax : Nat) :
    sharpBound chmax = 8 + 6 * (if chmax = 0 then 10 else 18 + chmax * 50) ∧
    sharpBound chmax < bound chmax := by
  refine ⟨rfl, ?_⟩
  rw [bound_eq]; unfold sharpBound attemptSharp; split <;> omega

/-- tightness, devices with channels — for EVERY number `n + 1` of channels (induction on `n`, not an instance):
    the link that answers common-info at once, answers the first `n` channels at their last try and never answers
    the last channel, six times over, makes connect raise TimeoutError after exactly `sharpBound (n + 1)` -/
theorem sharp_bound_attained (dev : DevDesc) (n : Nat) (hn : dev.chmax = n + 1) (dflt : Resp) :
    (connect dev (worstScript n 6) dflt).outcome = .raised .timeout ∧
    (connect dev (worstScript n 6) dflt).time = sharpBound dev.chmax :=
  connect_worst dev n hn dflt

/-- tightness, a device without channels: the all-silent link of any sufficient length attains the bound -/
theorem sharp_bound_attained_zero (dev : DevDesc) (h0 : dev.chmax = 0) (m : Nat) (hm : 6 ≤ m) (dflt : Resp) :
    (connect dev (List.replicate m .silent) dflt).time = sharpBound dev.chmax := by
  have hb : reqBound dev.chmax ≤ m := by rw [h0]; exact hm
  rw [(silent_link_any_length dev m dflt hb).2, h0]; rfl

/-- the sharp bound is monotone in the number of channels -/
theorem sharp_bound_mono {n n' : Nat} (h : n ≤ n') : sharpBound n ≤ sharpBound n' := by
  unfold sharpBound attemptSharp; split <;> split <;> omega

/-- instances: the worst link for a 2-channel device (script of 6 × 13 answers), 4.16 min for 40 channels -/
example : (connect ⟨2, 3, 8⟩ (worstScript 1 6) .ok).time = 716 ∧ sharpBound 2 = 716 ∧ bound 2 = 836 ∧
    (worstScript 1 6).length = 78 := by decide +kernel
example : sharpBound 0 = 68 ∧ sharpBound 40 = 12116 ∧ bound 40 = 14516 := by decide

/-- connect followed by disconnect, whatever point of the handshake the link failed at (any script): both calls
    together return within the sharp bound plus one drain -/
theorem connect_disconnect_sharp_bounded (dev : DevDesc) (script : List Resp) (dflt : Resp) :
    (disconnectAfter (connect dev script dflt)).time ≤ sharpBound dev.chmax + 8 := by
  have h1 := disconnect_bounded dev script dflt
  have h2 := connect_sharp_bounded dev script dflt
  omega

/-- attained: a connect that succeeds at the last possible moment (five worst attempts, then every channel answered
    at its last try), then disconnect -/
example :
    let sc := worstScript 1 5 ++ [.ok] ++ lateOk ++ lateOk
    (connect ⟨2, 3, 0⟩ sc .silent).outcome = .connected 2 3 0 ∧
    (disconnectAfter (connect ⟨2, 3, 0⟩ sc .silent)).time = 706 + 8 ∧ sharpBound 2 + 8 = 724 := by decide +kernel

-- NOT PROVED (stronger form of `connect_depends_on_prefix`, not attempted for lack of time): the result of connect
-- depends only on the prefix of the script it actually CONSUMED, i.e. with `k` = number of awaited requests of
-- `connect dev script dflt` (`k ≤ reqBound dev.chmax`):
--   ∀ script' dflt', (∀ i, i < k → script.getD i dflt = script'.getD i dflt') → connect dev script' dflt' = connect dev script dflt
-- (`Result` does not expose `k`; it needs the final `St.script` of `connectLoop`.)

end Nxs.C10
