/-
  C17 — write padding only appends zeros and is invisible to the device.
  Property theorems only (helper lemmas in Lemmas/).
-/
import NxsModel.Pad
import NxsModel.Dispatch
import NxsModel.Lemmas.Accept
import NxsModel.Lemmas.Pad
namespace Nxs.C17
open Nxs

/-- with padding `p`, a write is extended by fewer than `p` zero bytes up to a multiple of `p`,
    and is otherwise unchanged; `p = 0` changes nothing -/
theorem align_spec (p : Nat) (d : Bytes) :
    ∃ k, (p = 0 → k = 0) ∧ (p > 0 → k < p ∧ p ∣ d.length + k) ∧
      Pad.dataAlign p d = d ++ List.replicate k 0 := Pad.dataAlign_spec p d

/-- the device-side receiver reacts to a padded request exactly as to the unpadded one
    (for every write `w` the receiver reacts to at all; `k` zero bytes appended) -/
theorem padded_same (w : Bytes) (k : Nat) (h : Dispatch.recvHandle w ≠ .ignored) :
    Dispatch.recvHandle (w ++ List.replicate k 0) = Dispatch.recvHandle w := Pad.recvHandle_append w _ h

/-- hence through `dataAlign` for every padding value -/
theorem aligned_same (p : Nat) (w : Bytes) (h : Dispatch.recvHandle w ≠ .ignored) :
    Dispatch.recvHandle (Pad.dataAlign p w) = Dispatch.recvHandle w := Pad.recvHandle_dataAlign p w h

/-- a write consisting only of padding triggers no reaction -/
theorem padding_only_ignored (k : Nat) : Dispatch.recvHandle (List.replicate k 0) = .ignored := Pad.recvHandle_zeros k

example : Pad.dataAlign 16 [0x55, 0x06, 0x00, 0x02, 0x5b, 0x9c] =
    [0x55, 0x06, 0x00, 0x02, 0x5b, 0x9c, 0, 0, 0, 0, 0, 0, 0, 0, 0, 0] := by decide
example : Dispatch.recvHandle [0x55, 0x06, 0x00, 0x02, 0x5b, 0x9c] ≠ .ignored := by decide +kernel

end Nxs.C17
