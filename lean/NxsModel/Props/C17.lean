/-
  C17 — write padding only appends zeros and is invisible to the device.
  Property theorems only (helper lemmas in Lemmas/).
-/
import NxsModel.Pad
import NxsModel.Dispatch
import NxsModel.Lemmas.Accept
import NxsModel.Lemmas.Pad
import NxsModel.Props.C05
import NxsModel.Lemmas.R7Built
namespace Nxs.C17
open Nxs
open Nxs.Pad (ClientReq)

/-- with padding `p`, a write is extended by fewer than `p` zero bytes up to a multiple of `p`,
    and is otherwise unchanged; `p = 0` changes nothing -/
theorem align_spec (p : Nat) (d : Bytes) :
    ∃ k, (p = 0 → k = 0) ∧ (p > 0 → k < p ∧ p ∣ d.length + k) ∧
      Pad.dataAlign p d = d ++ List.replicate k 0 := Pad.dataAlign_spec p d

/-- the device-side receiver reacts to a padded request exactly as to the unpadded one
    (for every write `w` the receiver reacts to at all; `k` zero bytes appended) -/
theorem padded_same (w : Bytes) (k : Nat) (h : Dispatch.recvHandle w ≠ .ignored) :
    Dispatch.recvHandle (w ++ List.replicate k 0) = Dispatch.recvHandle w := Pad.recvHandle_append w _ h

/-- hence through `dataAlign` for every padding value -/
theorem aligned_same (p : Nat) (w : Bytes) (h : Dispatch.recvHandle w ≠ .ignored) :
    Dispatch.recvHandle (Pad.dataAlign p w) = Dispatch.recvHandle w := Pad.recvHandle_dataAlign p w h

/-- a write consisting only of padding triggers no reaction -/
theorem padding_only_ignored (k : Nat) : Dispatch.recvHandle (List.replicate k 0) = .ignored := Pad.recvHandle_zeros k

example : Pad.dataAlign 16 [0x55, 0x06, 0x00, 0x02, 0x5b, 0x9c] =
    [0x55, 0x06, 0x00, 0x02, 0x5b, 0x9c, 0, 0, 0, 0, 0, 0, 0, 0, 0, 0] := by decide
example : Dispatch.recvHandle [0x55, 0x06, 0x00, 0x02, 0x5b, 0x9c] ≠ .ignored := by decide +kernel

/-! ### every request the client can issue

  `Pad.ClientReq` enumerates the client's builders (`Parser.frame_start / frame_cmninfo / frame_chinfo / frame_enable /
  frame_div`, the last two in single `(c, v)` and in vector form, `n` = the channel count the client learned);
  `ClientReq.build` is the builder call, `ClientReq.written p` what `intf.write` hands to `_write` under padding `p`. -/

/-- the argument ranges under which the builder returns a request at all (C05's hypotheses) -/
def Valid : ClientReq → Prop
  | .start _ => True
  | .cmninfo => True
  | .chinfo c => c ≤ 255
  | .enSingle n c _ => c < n ∧ n ≤ 255
  | .enVec n vs => vs.length = n ∧ 1 ≤ n ∧ n ≤ 255
  | .divSingle n c v => c < n ∧ n ≤ 255 ∧ v ≤ 255
  | .divVec n vs => vs.length = n ∧ 1 ≤ n ∧ n ≤ 255 ∧ ∀ v ∈ vs, v ≤ 255

/-- index of the device-side callback the request is meant for (`Dispatch.cbName`) -/
def cbOf : ClientReq → Nat
  | .cmninfo => 0
  | .chinfo _ => 1
  | .enSingle .. | .enVec .. => 2
  | .divSingle .. | .divVec .. => 3
  | .start _ => 4

/-- the NxScope payload of the request (hand-written encodings of C05) -/
def payloadOf : ClientReq → Bytes
  | .start b => [C05.byte (C05.b2n b)]
  | .cmninfo => []
  | .chinfo c => [C05.byte c]
  | .enSingle _ c v => C05.specSingle c (C05.b2n v)
  | .enVec _ vs => C05.specVec (vs.map C05.b2n)
  | .divSingle _ c v => C05.specSingle c v
  | .divVec _ vs => C05.specVec vs

private theorem specVec_ne_nil (vs : List Nat) (h : vs ≠ []) : C05.specVec vs ≠ [] := by
  cases vs with
  | nil => exact absurd rfl h
  | cons v vs =>
    have hsv : C05.specVec (v :: vs) =
        if Requests.allSame (v :: vs) then C05.specAll v else C05.specBulk (v :: vs) := rfl
    rw [hsv]
    split
    · exact fun h' => nomatch h'
    · exact fun h' => nomatch h'

private theorem specVec_length_le (vs : List Nat) : (C05.specVec vs).length ≤ vs.length + 3 := by
  cases vs with
  | nil => simp [C05.specVec]
  | cons v vs =>
    have hsv : C05.specVec (v :: vs) =
        if Requests.allSame (v :: vs) then C05.specAll v else C05.specBulk (v :: vs) := rfl
    rw [hsv]
    split
    · simp [C05.specAll]
    · simp [C05.specBulk]

/-- **Every request the client can issue, every padding value.**  For every request `r` (arguments in range) and every
    write padding `p` — any natural number, in particular 0..255 —: the builder returns a request `f`; what the
    interface writes is `f` followed by `k` zero bytes with `k = 0` when `p = 0`, and `k < p`, `p ∣ |f| + k` otherwise;
    the device-side receiver fires on `f` exactly the callback meant (`cbOf`) with exactly the request's payload
    (`payloadOf`), and reacts to what was written (padded) exactly as to `f` alone. -/
theorem request_write_invisible (r : ClientReq) (hr : Valid r) (p : Nat) :
    ∃ f k, r.build = .ok f ∧ r.written p = .ok (f ++ List.replicate k 0) ∧
      (p = 0 → k = 0) ∧ (p > 0 → k < p ∧ p ∣ f.length + k) ∧
      Dispatch.recvHandle f = .fired (cbOf r) (payloadOf r) ∧
      Dispatch.recvHandle (f ++ List.replicate k 0) = Dispatch.recvHandle f := by
  have key : ∀ (fid cb : Nat) (pl : Bytes), r.build = .ok (Spec.wire fid pl) → pl.length ≤ 65529 → fid ≤ 8 →
      Dispatch.cbHandle fid pl = .fired cb pl →
      ∃ f k, r.build = .ok f ∧ r.written p = .ok (f ++ List.replicate k 0) ∧
        (p = 0 → k = 0) ∧ (p > 0 → k < p ∧ p ∣ f.length + k) ∧
        Dispatch.recvHandle f = .fired cb pl ∧
        Dispatch.recvHandle (f ++ List.replicate k 0) = Dispatch.recvHandle f := by
    intro fid cb pl hb hp hf hcb
    obtain ⟨f, k, h1, h2, h3, h4, h5, h6⟩ := Pad.written_wire r p fid cb pl hb hp hf hcb
    exact ⟨f, k, h1, h2, h3, h4, h5, by rw [h6, h5]⟩
  cases r with
  | start b => exact key 5 4 [C05.byte (C05.b2n b)] (C05.req_bytes_start b) (by simp) (by omega) (Pad.cb_start _)
  | cmninfo => exact key 2 0 [] C05.req_bytes_cmninfo (by simp) (by omega) Pad.cb_cmninfo
  | chinfo c => exact key 3 1 [C05.byte c] (C05.req_bytes_chinfo c hr) (by simp) (by omega) (Pad.cb_chinfo _)
  | enSingle n c v =>
    exact key 6 2 (C05.specSingle c (C05.b2n v)) (C05.req_bytes_en_single n c v hr.1 hr.2) (by simp [C05.specSingle]) (by omega)
      (Pad.cb_enable _ (by simp [C05.specSingle]))
  | enVec n vs =>
    obtain ⟨hl, h1, hn⟩ := hr
    have hne : vs.map C05.b2n ≠ [] := by
      intro h; rw [List.map_eq_nil_iff] at h; subst h; simp at hl; omega
    have hlen := specVec_length_le (vs.map C05.b2n)
    rw [List.length_map] at hlen
    exact key 6 2 (C05.specVec (vs.map C05.b2n)) (C05.req_bytes_en_vec n vs hl h1 hn) (by omega) (by omega) (Pad.cb_enable _ (specVec_ne_nil _ hne))
  | divSingle n c v =>
    exact key 7 3 (C05.specSingle c v) (C05.req_bytes_div_single n c v hr.1 hr.2.1 hr.2.2) (by simp [C05.specSingle]) (by omega)
      (Pad.cb_div _ (by simp [C05.specSingle]))
  | divVec n vs =>
    obtain ⟨hl, h1, hn, hv⟩ := hr
    have hne : vs ≠ [] := by intro h; subst h; simp at hl; omega
    have hlen := specVec_length_le vs
    exact key 7 3 (C05.specVec vs) (C05.req_bytes_div_vec n vs hl h1 hn hv) (by omega) (by omega) (Pad.cb_div _ (specVec_ne_nil _ hne))

/-- the statement of `Props/E2E.lean`'s `request_reaches_callback`, here as a C17 theorem: the dispatcher fed with
    `data_align p` of the builder's output fires the matching callback with the request's payload -/
theorem request_reaches_callback (r : ClientReq) (hr : Valid r) (p : Nat) :
    ∃ f, r.build = .ok f ∧ Dispatch.recvHandle (Pad.dataAlign p f) = .fired (cbOf r) (payloadOf r) ∧
      Dispatch.recvHandle (Pad.dataAlign p f) = Dispatch.recvHandle f := by
  obtain ⟨f, k, hb, hw, _, _, hf, hk⟩ := request_write_invisible r hr p
  have hne : Dispatch.recvHandle f ≠ .ignored := by rw [hf]; exact fun h => nomatch h
  exact ⟨f, hb, by rw [aligned_same p f hne, hf], aligned_same p f hne⟩

/-- non-vacuity: the hypotheses are satisfiable in every constructor, and a request whose CRC ends in 0x00
    (`frame_div((0, 30), 11)` = 55 09 00 07 00 00 1e 79 00) under padding 16 -/
example : Valid (.start true) ∧ Valid .cmninfo ∧ Valid (.chinfo 255) ∧ Valid (.enSingle 255 254 true) ∧
    Valid (.enVec 3 [true, false, true]) ∧ Valid (.divSingle 11 0 30) ∧ Valid (.divVec 2 [255, 0]) := by
  refine ⟨trivial, trivial, ?_, ?_, ?_, ?_, ?_⟩ <;> simp [Valid]
example : (ClientReq.divSingle 11 0 30).written 16 =
    .ok [0x55, 0x09, 0x00, 0x07, 0x00, 0x00, 0x1e, 0x79, 0x00, 0, 0, 0, 0, 0, 0, 0] := by decide +kernel
example : Dispatch.recvHandle [0x55, 0x09, 0x00, 0x07, 0x00, 0x00, 0x1e, 0x79, 0x00, 0, 0, 0, 0, 0, 0, 0] =
    .fired 3 [0x00, 0x00, 0x1e] := by decide +kernel

/-- round 6: padding is minimal — an already aligned write is handed on unchanged -/
theorem align_noop_when_aligned (p : Nat) (d : Bytes) (h : p = 0 ∨ p ∣ d.length) : Pad.dataAlign p d = d := by
  unfold Pad.dataAlign
  rcases h with h | h
  · simp [h]
  · have : d.length % p = 0 := Nat.mod_eq_zero_of_dvd h
    simp [this]

/-- round 6: the padded length is the least multiple of `p` that is ≥ the length (so never a whole block of zeros) -/
theorem align_length (p : Nat) (d : Bytes) (hp : 0 < p) :
    (Pad.dataAlign p d).length = (d.length + p - 1) / p * p := by
  unfold Pad.dataAlign
  have hp' : p ≠ 0 := by omega
  simp only [hp', ne_eq, not_false_eq_true, if_true]
  by_cases hm : d.length % p = 0
  · simp only [hm, not_true_eq_false, if_false]
    obtain ⟨q, hq⟩ := Nat.dvd_of_mod_eq_zero hm
    rw [hq]
    have : (p * q + p - 1) / p = q := by
      rw [Nat.add_sub_assoc (by omega), Nat.mul_add_div hp]
      have : (p - 1) / p = 0 := Nat.div_eq_of_lt (by omega)
      omega
    rw [this, Nat.mul_comm]
  · simp only [hm, not_false_eq_true, if_true, List.length_append, List.length_replicate]
    have hlt := Nat.mod_lt d.length hp
    have hdm := Nat.div_add_mod d.length p
    generalize d.length / p = q at hdm
    generalize d.length % p = m at *
    rw [← hdm]
    have : (p * q + m + p - 1) / p = q + 1 := by
      have : p * q + m + p - 1 = p * (q + 1) + (m - 1) := by
        rw [Nat.mul_add]; omega
      rw [this, Nat.mul_add_div hp]
      have : (m - 1) / p = 0 := Nat.div_eq_of_lt (by omega)
      omega
    rw [this, Nat.add_mul, Nat.mul_comm q p]
    omega

/-- round 6: padding twice is padding once (a retransmitted, already padded buffer does not grow) -/
theorem align_idempotent (p : Nat) (d : Bytes) : Pad.dataAlign p (Pad.dataAlign p d) = Pad.dataAlign p d := by
  apply align_noop_when_aligned
  obtain ⟨k, h0, h1, he⟩ := align_spec p d
  by_cases hp : p = 0
  · exact Or.inl hp
  · right
    rw [he]
    simpa using (h1 (by omega)).2

example : Pad.dataAlign 4 [1, 2, 3, 4, 5] = [1, 2, 3, 4, 5, 0, 0, 0] := by decide
example : Pad.dataAlign 4 [1, 2, 3, 4] = [1, 2, 3, 4] := by decide

/-! ## Round 7 additions

  * `align_minimal` — minimality of the padding (no shorter zero extension reaches a multiple of `p`);
  * `any_request_padding_invisible` — EVERY `ClientReq`, also outside `Valid` (section 5 listed "outside them the
    builders refuse and nothing is written" as K/O only): either the builder refuses and nothing is written under
    any padding, or the receiver reacts (it never ignores the request) and reacts alike under every padding;
  * `history_padding_invisible` — a whole history of requests written through ONE interface whose write padding
    CHANGES between the writes, received by ONE device (`Requests.devRun`: dispatcher → callback → decoder →
    per-channel state): states and outcomes after every write equal those of the unpadded history;
  * `padding_only_writes_invisible` — padding-only writes anywhere in ANY history of writes (any bytes) never change
    the state the device ends in. -/

/-- round 7: the padding is MINIMAL — no extension by fewer zeros reaches a multiple of `p` -/
theorem align_minimal (p : Nat) (d : Bytes) (hp : 0 < p) (k' : Nat) (hk : p ∣ d.length + k') :
    (Pad.dataAlign p d).length ≤ d.length + k' := by
  obtain ⟨k, _, h1, he⟩ := align_spec p d
  obtain ⟨hlt, hdiv⟩ := h1 hp
  rw [he, List.length_append, List.length_replicate]
  by_cases hle : k ≤ k'
  · omega
  · exfalso
    obtain ⟨a, ha⟩ := hdiv
    obtain ⟨b, hb⟩ := hk
    have hab : p * a = p * b + (k - k') := by omega
    have hlt' : b < a := by
      apply Nat.lt_of_mul_lt_mul_left (a := p); omega
    have : p * (b + 1) ≤ p * a := Nat.mul_le_mul_left p hlt'
    rw [Nat.mul_add] at this
    omega

example : (Pad.dataAlign 4 [1, 2, 3, 4, 5]).length ≤ 5 + 7 := align_minimal 4 _ (by omega) 7 ⟨3, rfl⟩

/-- round 7: EVERY request the client can try to build, in or out of range, every two paddings: either the builder
    refuses and nothing is written under any padding, or it returns `f`, what is written is `f` + zeros, the
    receiver does react to `f` and reacts to the padded write exactly as to `f` -/
theorem any_request_padding_invisible (r : ClientReq) :
    (∃ e, r.build = .error e ∧ ∀ p, r.written p = .error e) ∨
    (∃ f, r.build = .ok f ∧ Dispatch.recvHandle f ≠ .ignored ∧
      ∀ p, r.written p = .ok (Pad.dataAlign p f) ∧
        Dispatch.recvHandle (Pad.dataAlign p f) = Dispatch.recvHandle f) := by
  cases hb : r.build with
  | error e => exact Or.inl ⟨e, rfl, fun p => by unfold ClientReq.written; rw [hb]⟩
  | ok f =>
    have hB := R7.clientReq_built r f hb
    exact Or.inr ⟨f, rfl, R7.built_not_ignored f hB,
      fun p => ⟨by unfold ClientReq.written; rw [hb], R7.built_align p f hB⟩⟩

/-- an out-of-range request that is nevertheless built and written: channel 200 of a 3-channel device -/
example : ¬ Valid (.enSingle 3 200 true) ∧ ((ClientReq.enSingle 3 200 true).build).toOption.isSome = true :=
  ⟨by simp [Valid], by decide +kernel⟩

/-- the writes a history of `(write padding at that moment, request)` pairs produces on ONE interface object
    (a refused builder writes nothing) -/
def writesOf (h : List (Nat × ClientReq)) : List Bytes :=
  h.filterMap fun x => match x.2.written x.1 with | .ok w => some w | .error _ => none

/-- the device's reaction to a write depends on the write only through what the dispatcher makes of it -/
theorem devRecv_congr (n : Nat) (s : Requests.DevSt) (w w' : Bytes)
    (h : Dispatch.recvHandle w = Dispatch.recvHandle w') : Requests.devRecv n s w = Requests.devRecv n s w' := by
  unfold Requests.devRecv; rw [h]

/-- round 7: **padding changes between writes, one device.**  For every history of requests (ANY arguments), each
    written under its own padding value (the padding may change before every write), received by one long-lived
    device state: the state and outcome after every write are those of the same history written without padding. -/
theorem history_padding_invisible (n : Nat) (h : List (Nat × ClientReq)) : ∀ (s : Requests.DevSt),
    Requests.devRun n s (writesOf h) = Requests.devRun n s (writesOf (h.map fun x => (0, x.2))) := by
  induction h with
  | nil => intro s; rfl
  | cons x xs ih =>
    intro s
    rcases any_request_padding_invisible x.2 with ⟨e, _, hw⟩ | ⟨f, _, _, hw⟩
    · have e1 : writesOf (x :: xs) = writesOf xs := by
        simp only [writesOf, List.filterMap_cons, hw x.1]
      have e2 : writesOf ((x :: xs).map fun x => (0, x.2)) = writesOf (xs.map fun x => (0, x.2)) := by
        simp only [writesOf, List.map_cons, List.filterMap_cons, hw 0]
      rw [e1, e2]; exact ih s
    · have e1 : writesOf (x :: xs) = Pad.dataAlign x.1 f :: writesOf xs := by
        simp only [writesOf, List.filterMap_cons, (hw x.1).1]
      have e2 : writesOf ((x :: xs).map fun x => (0, x.2)) =
          Pad.dataAlign 0 f :: writesOf (xs.map fun x => (0, x.2)) := by
        simp only [writesOf, List.map_cons, List.filterMap_cons, (hw 0).1]
      have e3 : Requests.devRecv n s (Pad.dataAlign x.1 f) = Requests.devRecv n s (Pad.dataAlign 0 f) :=
        devRecv_congr n s _ _ (by rw [(hw x.1).2, (hw 0).2])
      rw [e1, e2]
      simp only [Requests.devRun]
      rw [e3, ih]

/-- a history with three different paddings, one refused request (divider 300) and one out-of-range channel -/
example : (Requests.devRun 3 ⟨[false, false, false], [0, 0, 0]⟩
      (writesOf [(16, .enVec 3 [true, false, true]), (0, .divSingle 3 1 300), (5, .divSingle 3 2 200),
        (255, .enSingle 3 200 true), (3, .start true)])).map (·.1) =
    [⟨[true, false, true], [0, 0, 0]⟩, ⟨[true, false, true], [0, 0, 200]⟩, ⟨[true, false, true], [0, 0, 200]⟩,
      ⟨[true, false, true], [0, 0, 200]⟩] := by decide +kernel

/-- the state a device ends in after a history of writes -/
def devFinal (n : Nat) (s : Requests.DevSt) (ws : List Bytes) : Requests.DevSt :=
  ws.foldl (fun s w => (Requests.devRecv n s w).1) s

/-- a padding-only write, itself padded or not, fires nothing and leaves the device state as it was -/
theorem padding_only_no_effect (n : Nat) (s : Requests.DevSt) (p k : Nat) :
    Requests.devRecv n s (Pad.dataAlign p (List.replicate k 0)) = (s, .ok none) := by
  obtain ⟨k', _, _, he⟩ := align_spec p (List.replicate k 0)
  rw [he, List.replicate_append_replicate]
  unfold Requests.devRecv
  rw [padding_only_ignored]

/-- round 7: padding-only writes (all-zero writes of any length, the empty write included) anywhere in ANY history
    of writes — any bytes, requests or noise — do not change the state the device ends in -/
theorem padding_only_writes_invisible (n : Nat) (ws : List Bytes) : ∀ (s : Requests.DevSt),
    devFinal n s (ws.filter fun w => !(w.all (· = 0))) = devFinal n s ws := by
  induction ws with
  | nil => intro s; rfl
  | cons w ws ih =>
    intro s
    by_cases hz : w.all (· = 0) = true
    · have hw : w = List.replicate w.length 0 := by
        apply List.eq_replicate_iff.mpr
        refine ⟨rfl, fun b hb => ?_⟩
        have := List.all_eq_true.mp hz b hb
        simpa using this
      have h0 : Requests.devRecv n s w = (s, .ok none) := by
        have := padding_only_no_effect n s 0 w.length
        rw [align_noop_when_aligned 0 _ (Or.inl rfl), ← hw] at this
        exact this
      rw [List.filter_cons_of_neg (by rw [hz]; decide)]
      simp only [devFinal, List.foldl_cons, h0]
      exact ih s
    · have hz' : w.all (· = 0) = false := (Bool.not_eq_true _).mp hz
      rw [List.filter_cons_of_pos (by rw [hz']; decide)]
      simp only [devFinal, List.foldl_cons]
      exact ih _

example : devFinal 2 ⟨[false, false], [0, 0]⟩
    [[0, 0, 0], [0x55, 0x09, 0x00, 0x07, 0x00, 0x00, 0x1e, 0x79, 0x00, 0, 0, 0], [], [0, 0]] =
    ⟨[false, false], [30, 0]⟩ := by decide +kernel

end Nxs.C17
