/-
  C06 — the device description read by the client equals the device's configuration.
  Property theorems only (helper lemmas in Lemmas/).
  Names are UTF-8 byte strings (the harness encodes text); "no NUL" is a hypothesis on the bytes.
-/
import NxsModel.Info
import NxsModel.Spec.Wire
import NxsModel.Lemmas.Serial
import NxsModel.Lemmas.Info
namespace Nxs.C06
open Nxs Nxs.Spec Nxs.Info

def byte (n : Nat) : Byte := BitVec.ofNat 8 n
def b2n (b : Bool) : Nat := if b then 1 else 0

/-- the four little-endian bytes of a 32-bit two's-complement return code -/
def i32le (r : Int) : Bytes := leBytes 4 (r % 4294967296).toNat

/-- common info: every value 0..255 of the three one-byte fields arrives unchanged, and the
    response is the NxScope encoding (frame id 2, three bytes) -/
theorem cmninfo_rt (chmax flags rxp : Nat) (h1 : chmax ≤ 255) (h2 : flags ≤ 255) (h3 : rxp ≤ 255) :
    cmninfoEncode chmax flags rxp = .ok (wire 2 [byte chmax, byte flags, byte rxp]) ∧
    (Serial.frameDecode (wire 2 [byte chmax, byte flags, byte rxp])).bind cmninfoDecode
      = .ok (some (chmax, flags, rxp)) := Info.cmninfo_rt chmax flags rxp h1 h2 h3

/-- divider / ACK support follow from the flags byte -/
theorem flags_derived (flags : Nat) :
    divSupported flags = flags.testBit 0 ∧ ackSupported flags = flags.testBit 1 :=
  Info.flags_derived flags

/-- channel info: enable state, the whole 8-bit type byte, dimension, divider, metadata length and
    the name arrive unchanged; the response is the NxScope encoding (frame id 3) -/
theorem chinfo_rt (en : Bool) (ty vdim div mlen : Nat) (name : Bytes)
    (ht : ty ≤ 255) (hv : vdim ≤ 255) (hd : div ≤ 255) (hm : mlen ≤ 255)
    (hnul : ∀ b ∈ name, b ≠ 0) (hfit : name.length ≤ 65524) :
    chinfoEncode ⟨en, ty, vdim, div, mlen, name⟩
      = .ok (wire 3 ([byte (b2n en), byte ty, byte vdim, byte div, byte mlen] ++ name)) ∧
    (Serial.frameDecode (wire 3 ([byte (b2n en), byte ty, byte vdim, byte div, byte mlen] ++ name))).bind
        chinfoDecode = .ok (some ⟨en, ty, vdim, div, mlen, name⟩) :=
  Info.chinfo_rt en ty vdim div mlen name ht hv hd hm hnul hfit

/-- a device may terminate / pad the name with NUL bytes: same fields -/
theorem chinfo_trailing_nul (en ty vdim div mlen : Byte) (name : Bytes) (k : Nat)
    (hnul : ∀ b ∈ name, b ≠ 0) :
    chinfoDecode ⟨3, [en, ty, vdim, div, mlen] ++ name ++ List.replicate k 0⟩
      = .ok (some ⟨en ≠ 0, ty.toNat, vdim.toNat, div.toNat, mlen.toNat, name⟩) :=
  Info.chinfo_trailing_nul en ty vdim div mlen name k hnul

/-- derived attributes: data type = low five bits, critical = top bit, reserved = bits 5,6 -/
theorem type_derived (ty : Nat) (ht : ty ≤ 255) :
    dtypeOf ty = ty % 32 ∧ criticalOf ty = ty.testBit 7 ∧ typeResOf ty = (ty / 32 % 4) * 32 ∧
    isValidOf ty = (ty % 32 != 0) := Info.type_derived_lt ty (by omega)

/-- ACK: success exactly when the return code is 0, the code is preserved otherwise -/
theorem ack_rt (r : Int) (hlo : -2147483648 ≤ r) (hhi : r ≤ 2147483647) :
    ackEncode r = .ok (wire 4 (i32le r)) ∧
    (Serial.frameDecode (wire 4 (i32le r))).bind ackDecode
      = .ok (some (if r = 0 then (true, 0) else (false, r))) := Info.ack_rt r hlo hhi

/-- frames of another kind are not mistaken for these responses -/
theorem wrong_kind (fid : Nat) (d : Bytes) :
    (fid ≠ 2 → cmninfoDecode ⟨fid, d⟩ = .ok none) ∧ (fid ≠ 3 → chinfoDecode ⟨fid, d⟩ = .ok none) ∧
    (fid ≠ 4 → ackDecode ⟨fid, d⟩ = .ok none) := Info.wrong_kind fid d

example : chinfoEncode ⟨true, 0x8a, 3, 200, 1, [0xc3, 0xa9]⟩
    = .ok (wire 3 [1, 0x8a, 3, 200, 1, 0xc3, 0xa9]) := by decide +kernel
example : ackDecode ⟨4, [0xfe, 0xff, 0xff, 0xff]⟩ = .ok (some (false, -2)) := by decide +kernel

end Nxs.C06
